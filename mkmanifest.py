#!/usr/bin/env python3
"""Regenerates MANIFEST.json from the table below (python3 mkmanifest.py)."""
import json, subprocess

# id -> (level category, level text, level note, technique, design ref)
CLAIMED = {
 "C03": ("exploration",
         "Runs the real Message.Ack/Nack/Acked/Nacked code: all 87381 op sequences of length <=8 on 5 message kinds against a 3-state reference model (exhaustive), "
         "plus thousands of concurrent histories of 2..16 goroutines recorded at the call boundary and checked for linearizability with porcupine, under the Go race detector. "
         "Held on the executions observed, not a proof over all schedules.",
         "Trusts porcupine v1.3.0, the Go race detector and the 3-state model; concurrent reach is what the scheduler plus Gosched injection produces.",
         "exhaustive sequence enumeration vs reference model + porcupine linearizability check of recorded histories + race detector", "DESIGN.md §4 C03"),
}

NOT_YET = {}

def hook_commits():
    out = subprocess.run(["git", "-C", "/repo", "log", "--format=%H %s"], capture_output=True, text=True).stdout
    return [l.split()[0] for l in out.splitlines() if l.split(" ", 1)[1].startswith("verif:")][::-1]

props = [json.loads(l) for l in open("/verif/properties.jsonl")]
checks, na = [], []
for p in props:
    i = p["id"]
    if i in CLAIMED:
        cat, text, note, tech, ref = CLAIMED[i]
        checks.append({
            "property_id": i,
            "quick_cmd": f"./check {i} quick",
            "thorough_cmd": f"./check {i} thorough",
            "evidence_file": f"/verif/evidence/{i}.json",
            "replay_cmd_template": f"./check {i} --replay {{path}}",
            "engine": "vcheck",
            "level_claimed": {"category": cat, "text": text, "design_ref": ref},
            "level_note": note,
            "technique": tech,
        })
    else:
        na.append({"property_id": i, "reason": NOT_YET.get(i, "monitor not built yet in this round (planned in DESIGN.md §4); not claimed until its check exists and is silent on the unchanged tree")})

m = {
 "version": 1,
 "setup_cmd": "./check setup",
 "hooks": {
  "guard": "verif",
  "enable": "go build -race -tags verif (harness module /verif/harness with replace github.com/ThreeDotsLabs/watermill => /repo); hook call sites are verifhook.At(...) lines whose body is empty without the tag",
  "baseline_off_cmd": "cd /repo && GOFLAGS=-mod=mod GOPROXY=off GOSUMDB=off GOTOOLCHAIN=local go test -mod=mod -json -vet=off -count=1 -timeout 25m ./...",
  "source_commits": hook_commits(),
  "add_only": True,
 },
 "engines": [{
  "name": "vcheck", "path": "/verif/harness",
  "serves_properties": [c["property_id"] for c in checks],
  "kind_free_text": "runtime monitoring: child processes built from /repo with -race -tags verif run seeded/enumerated workloads against the real code; oracles over boundary event logs, porcupine linearizability, reference-model differential checks, quiescence (all-goroutine snapshot) detector for 'never returns', race detector; driver shards cases, attributes crashes, matches known findings, writes evidence",
 }],
 "checks": checks,
 "not_applicable": na,
 "notes": "Case lists are fixed by (tier, VERIF_SEED). Exit 0 = held on everything explored, 1 = VIOLATION, 2 = harness failure/inconclusive (never a pass). Known findings: /verif/known_findings.json.",
}
json.dump(m, open("/verif/MANIFEST.json", "w"), indent=1)
print("claimed", len(checks), "not_applicable", len(na))
