#!/usr/bin/env python3
"""Regenerates MANIFEST.json from the table below (python3 mkmanifest.py)."""
import json, subprocess

# id -> (level category, level text, level note, technique, design ref)
CLAIMED = {
 "C02": ("fault_enumeration",
         "Real Router between scripted subscriber/publisher ends: the full matrix of 24 handler behaviours x 4 publisher behaviours x 3 handler kinds x 8 middleware prefixes (1028 cells, each with 1 and with 2..16 messages in flight) plus random batches; every invocation, Publish call (with the consumed message's settlement sampled inside the call) and settlement is judged against a reference function; 'never settles' decided by the quiescence detector.",
         "Trusts the scripted ends, the reference function expect(kind, middleware, handler, publisher) and the Go race detector; schedules are what yield injection at the router hook points produces.",
         "enumerated behaviour matrix + differential reference oracle over boundary event log + quiescence detector", "DESIGN.md §4 C02"),
 "C03": ("exploration",
         "Runs the real Message.Ack/Nack/Acked/Nacked code: all 87381 op sequences of length <=8 on 5 message kinds against a 3-state reference model (exhaustive), "
         "plus thousands of concurrent histories of 2..16 goroutines recorded at the call boundary and checked for linearizability with porcupine, under the Go race detector. "
         "Held on the executions observed, not a proof over all schedules.",
         "Trusts porcupine v1.3.0, the Go race detector and the 3-state model; concurrent reach is what the scheduler plus Gosched injection produces.",
         "exhaustive sequence enumeration vs reference model + porcupine linearizability check of recorded histories + race detector", "DESIGN.md §4 C03"),
 "C04": ("exploration",
         "Generated concurrent programs on a real GoChannel in all 12 configurations (publishers, subscriptions created before/while publishing, nacking/slow/metadata-editing/cancelling consumers) with yield/delay injection at the gochannel hook points; the recorded history (publish start/end, subscribe end, receive with deep snapshot and context facts, settle start) is judged at quiescence for completeness, no foreign delivery, redelivery only after Nack, copy isolation and context lifetime.",
         "Held on the programs and interleavings observed; completeness is demanded only where the logical stamps prove Subscribe returned before Publish started.",
         "offline checker over recorded delivery history (multiset/ordering/aliasing) at quiescence + hook-point schedule perturbation + race detector", "DESIGN.md §4 C04"),
 "C08": ("exploration",
         "Random routers of 1..6 handlers with shared/private topics and scripted ends; every handler invocation, every Publish call on every publisher and the five context accessors are attributed and compared with the wiring.",
         "Trusts the scripted ends and the literal expected names; schedules as produced by concurrent streams plus hook yields.",
         "reference-model oracle over handler-invocation and publish-call logs", "DESIGN.md §4 C08"),
 "C09": ("exploration",
         "All middleware registration sequences up to length 5 (quick) / 6 (thorough) over {router-level, A, B} interleaved with AddHandler in every allowed position (exhaustive within the bound), random sequences up to length 20 with 4 handlers and RunHandlers, decorator lists up to 5; enter/leave traces compared with the expected nesting.",
         "Exhaustive only inside the stated bounds; registrations racing the asynchronous middleware snapshot are not generated (unspecified).",
         "bounded exhaustive enumeration of registration programs + trace comparison against reference nesting", "DESIGN.md §4 C09"),
 "C12": ("exploration",
         "Random Retry configurations and handler scripts on the real middleware: call counts, returned outputs/errors, OnRetryHook sequence and delays (pure arithmetic bounds), measured back-off gaps as lower bounds only, early give-up on context end (decided by quiescence) and MaxElapsedTime (with a control timer; late control timer => inconclusive).",
         "Lower bounds and bracketing only for time; MaxInterval >= InitialInterval; multipliers outside 1..3 are used only to make one specific wait long.",
         "differential reference oracle over call/hook logs + lower-bound timing + quiescence detector", "DESIGN.md §4 C12"),
 "C13": ("exploration",
         "Random handler results, filters, poison-publisher outcomes and messages through the real PoisonQueue middleware stand-alone and inside a real Router; every invocation is judged (publish exactly once with same UUID/payload and metadata = original + 4 keys, error cleared only after a successful publish, settlement) plus the whole-run invariant acked => handled or poisoned.",
         "Trusts the scripted ends; names stand-alone are empty because the context keys are unexported.",
         "differential reference oracle + run-wide conservation invariant over event logs", "DESIGN.md §4 C13"),
 "C15": ("exploration",
         "Random registries over a family of JSON/protobuf/gogo types, all marshalers/name generators/flag settings, streams mixing known, near-miss, malformed and foreign messages with scripted handler failures, through real buses and command/event/event-group processors on a real Router; bus publishes, handler invocations (values, order) and settlements compared with a reference dispatch function.",
         "Malformed is defined through an independent reference codec; redelivery bounded by the scripted subscriber.",
         "reference dispatch function (registry, flags, message) as differential oracle over invocation/settlement logs", "DESIGN.md §4 C15"),
 "C16": ("exploration",
         "Generated messages and single-component-difference pairs for Equals/Copy (both argument orders, independent comparison), round-trips through the three CQRS marshalers, the forwarder Publisher->envelope->Forwarder path on a real Router and the request-reply marshaler, over arbitrary bytes and valid UTF-8.",
         "Input sampling (about 25k inputs quick, 1.2M thorough); pure functions, so schedules do not matter.",
         "property-style differential testing of the real codecs against independent comparisons", "DESIGN.md §4 C16"),
 "C19": ("exploration",
         "All ordered selections of 1..3 simple middlewares with and without Retry at every position (1928 chains) plus random chains and DelayOnError sequences on scripted handlers (outputs, error shapes, panics of any value incl. nil, waiting for the deadline), judged against a compositional reference model; Throttle by a sound absolute lower bound.",
         "Time only as lower bounds/bracketing; %w wrappers around listed errors are not judged (documented Cause rule).",
         "compositional reference-model differential oracle on real middleware chains + quiescence detector", "DESIGN.md §4 C19"),
 "C20": ("exploration",
         "Decorator stacks up to depth 3 (transform, delay.Publisher, metrics incl. the same builder twice) around scripted ends, batches mixing delay sources, all PublisherConfigs, inner failure scripts, and a Router with handler outcomes {success, error, panic, publish failure}; transparency, delay precedence/stamps (bracketed), and Prometheus Gather() counts compared with the harness's own event counts.",
         "delayed_until bracketed by stamps around the call; label values other than success/acked not judged.",
         "transparency/differential oracle + conservation check of Prometheus counters against harness event counts", "DESIGN.md §4 C20"),
}


CLAIMED.update({
 "C05": ("exploration",
         "Generated concurrent programs in four workload classes (plain, nested publish from the receive loop, Subscribe/cancel churn, both) x 12 configurations with 1..3 consumers per subscription, delayed acks, nack sequences and never-ack probes; an online in-flight counter per subscription (must never exceed 1), blocking-mode ack-before-return and publish-order checks on logical stamps, and a progress check at quiescence (a Publish still blocked must be explained by a withheld Ack).",
         "Held on the programs/interleavings observed; one genuine deadlock (nested publish + pending writer in blocking mode) is an open known finding matched by its exact witness shape.",
         "online invariant monitor (in-flight counter) + offline ordering checks over stamped history + quiescence-based deadlock detection", "DESIGN.md §4 C05"),
 "C07": ("fault_enumeration",
         "Pairwise enumeration: operation A parked at each of 17 hook points of Publish/Subscribe/send loop/teardown/Close/decorator pump while action B in {Close, cancel, concurrent double Close, Publish, Subscribe} runs, x persistent x blocking x buffer x {bare, 1, 2 decorators} x reader {drains, holds one unsettled, never reads, nacks everything} = 8160 cells (thorough: all; quick: a seed-rotated sixth), plus random concurrent programs with Close arriving mid-run; every call must return (quiescence detector), no panic/crash/race, channels closed, Publish/Subscribe fail after Close, no product goroutine left.",
         "Exhaustive over the stated grid of forced pairs only; interleavings between hook points come from the scheduler, yield injection and the race detector.",
         "forced pairwise interleaving enumeration via hook parks + quiescence detector + goroutine-leak filter + race detector + crash attribution", "DESIGN.md §4 C07"),
 "C11": ("exploration",
         "Persistent GoChannel: forced overlaps (Publish or Subscribe or the send loop parked at each of 10 hook points while the opposite operation runs or blocks behind it) x buffer x blocking x messages-before x older-subscription, plus random programs with subscriptions started at random moments; at quiescence every subscription's received multiset must equal the set of successfully published UUIDs, each exactly once.",
         "Always-acking consumers; Close only after the judgement.",
         "forced Publish/Subscribe overlaps via hook parks + exactly-once multiset check over recorded deliveries at quiescence", "DESIGN.md §4 C11"),
})

CLAIMED.update({
 "C06": ("fault_enumeration",
         "All 360 cells of: message parked at one of 6 points of its path (inside the subscriber decorator, received-not-dispatched, dispatched-not-started, inside the handler, before publishing, before settlement) x {1,2,8} concurrent Close callers x 5 subscriber kinds (scripted, emits one more message from Close(), ignores the context, GoChannel buffer 0/4) x CloseTimeout {1 h, 30 ms with the handler held longer} x {handleClose parked until both of its select branches are ready, not parked}; plus random routers closed at a random moment (also through the Run context). Every Close caller samples the pipeline right after Close returned nil; Close/Run returning is decided by the quiescence detector.",
         "Exhaustive over the stated crash-point grid; the random part samples schedules; 30 ms cells are judged only by what they must not do.",
         "crash-point enumeration via hook parks + sampled-state assertions at Close return + quiescence detector", "DESIGN.md §4 C06"),
 "C17": ("exploration",
         "Forwarder (+forwarder.Publisher), FanIn, FanOut and Requeuer between a scripted redelivering source and a scripted failing destination: random messages, prior retries counters (absent, 0, 41, garbage, huge), malformed envelopes, AckWhenCannotUnwrap, destination failure plans (error, context.Canceled, panic); every destination call is attributed to a consumed message and compared by value, with the consumed message's settlement sampled inside the call.",
         "FanOut's internal GoChannel cannot be scripted to fail; only valid UTF-8 goes through the JSON envelope.",
         "conservation/attribution oracle over source-settlement and destination-call logs + quiescence detector", "DESIGN.md §4 C17"),
})

CLAIMED.update({
 "C10": ("exploration",
         "Forced: the RunHandlers goroutine parked right after Started() closed while the waiting goroutine calls Stop()/Stopped(); random lifecycle programs over AddHandler before/after Run, RunHandlers x1..4 (sequential/concurrent), emission the instant Running() closes, Stop of a subset, three endings (stop all, cancel Run context, Close), second Run; scripted subscribers counting Subscribe calls or a GoChannel.",
         "Subscribers honour their context; handlers are not added during shutdown; races are recorded, not judged.",
         "forced park at the Started()/stopFn window + lifecycle-program oracle (Subscribe counts, delivery after Running(), quiescence-decided returns)", "DESIGN.md §4 C10"),
 "C14": ("exploration",
         "Multisets of messages over few keys (payloads around the 64-byte read limit, SHA-256/Adler-32/metadata hashers) presented by 1..32 goroutines behind a barrier to the real middleware and publisher decorator with a 1 h window (exactly one per key may pass, the rest are dropped as successes/acked); window retention with conservative monotonic stamps and a control ticker; pure hasher laws on generated payload pairs; race detector reports fail the check.",
         "Reference keys are payload prefixes; hash collisions between different prefixes assumed absent; time only as lower bound / with control ticker.",
         "exactly-once-per-key counting oracle under concurrent presentation + lower-bound retention monitor + race detector", "DESIGN.md §4 C14"),
 "C18": ("exploration",
         "1..32 concurrent SendWithReplies/SendWithReply calls on a shared reply topic through a real GoChannel, Router, CommandProcessor and PubSubBackend; handler outcomes incl. k failures then success (k+1 replies), AckCommandErrors on/off, optional ListenForReplyTimeout; caller behaviours drain / read one then cancel late / never read / cancel at once. Replies attributed by command id; command settlement sampled when the reply Publish returns; after cancel at quiescence OnListenForReplyFinished == 1 per request and no listener goroutine remains, checked before the harness drains the channels of callers that stopped reading.",
         "Timeout cases judged only after the harness-known deadline; ReplyTimeoutError replies are not attributed.",
         "attribution oracle over reply logs + sampled-state assertion at reply publish + quiescence detector + goroutine-leak filter", "DESIGN.md §4 C18"),
})

CLAIMED.update({
 "C01": ("fault_enumeration",
         "Real Router stages connected by real GoChannel topics with fault-injecting handler/publisher wrappers: every placement of up to 1 (quick) / 2 (thorough) faults {handler error, handler panic, publisher error, publisher panic} on calls 0..2 of any stage for 1..2 stages, 1..2 messages and all 12 GoChannel configs (exhaustive within these bounds), plus random longer pipelines with fan-out, duplicated handlers, fan-in and up to 12 faults; at quiescence every accepted source lineage must have reached the sink, nothing foreign arrived, payloads intact, and no stage's consumed message was settled when the Publish of its output returned.",
         "Exhaustive only inside the stated bounds; fault scripts are finite; schedules from yield injection at router/gochannel hook points.",
         "fault-placement enumeration + lineage-conservation oracle at quiescence + sampled-state assertion inside Publish", "DESIGN.md §4 C01"),
})

NOT_YET = {}

def hook_commits():
    out = subprocess.run(["git", "-C", "/repo", "log", "--format=%H %s"], capture_output=True, text=True).stdout
    return [l.split()[0] for l in out.splitlines() if l.split(" ", 1)[1].startswith("verif:")][::-1]

props = [json.loads(l) for l in open("/verif/properties.jsonl")]
checks, na = [], []
for p in props:
    i = p["id"]
    if i in CLAIMED:
        cat, text, note, tech, ref = CLAIMED[i]
        checks.append({
            "property_id": i,
            "quick_cmd": f"./check {i} quick",
            "thorough_cmd": f"./check {i} thorough",
            "evidence_file": f"/verif/evidence/{i}.json",
            "replay_cmd_template": f"./check {i} --replay {{path}}",
            "engine": "vcheck",
            "level_claimed": {"category": cat, "text": text + " Eight rounds of independently seeded changes added further workload classes and oracle clauses to this check; the rule text in the evidence file and DESIGN.md §4.0 list them.", "design_ref": ref},
            "level_note": note,
            "technique": tech,
        })
    else:
        na.append({"property_id": i, "reason": NOT_YET.get(i, "monitor not built yet in this round (planned in DESIGN.md §4); not claimed until its check exists and is silent on the unchanged tree")})

m = {
 "version": 1,
 "setup_cmd": "./check setup",
 "hooks": {
  "guard": "verif",
  "enable": "go build -race -tags verif (harness module /verif/harness with replace github.com/ThreeDotsLabs/watermill => /repo); hook call sites are verifhook.At(...) lines whose body is empty without the tag",
  "baseline_off_cmd": "cd /repo && GOFLAGS=-mod=mod GOPROXY=off GOSUMDB=off GOTOOLCHAIN=local go test -mod=mod -json -vet=off -count=1 -timeout 25m ./...",
  "source_commits": hook_commits(),
  "add_only": True,
 },
 "engines": [{
  "name": "vcheck", "path": "/verif/harness",
  "serves_properties": [c["property_id"] for c in checks],
  "kind_free_text": "runtime monitoring: child processes built from /repo with -race -tags verif run seeded/enumerated workloads against the real code; oracles over boundary event logs, porcupine linearizability, reference-model differential checks, quiescence (all-goroutine snapshot) detector for 'never returns', race detector; driver shards cases, attributes crashes, matches known findings, writes evidence",
 }],
 "checks": checks,
 "not_applicable": na,
 "notes": "Case lists are fixed by (tier, VERIF_SEED). Exit 0 = held on everything explored, 1 = VIOLATION, 2 = harness failure/inconclusive (never a pass). Known findings: /verif/known_findings.json.",
}
json.dump(m, open("/verif/MANIFEST.json", "w"), indent=1)
print("claimed", len(checks), "not_applicable", len(na))
