package c18

// Second workload class of C18 ("mix"): what the first class (c18.go) keeps constant.
//
//   - several PubSubBackends with DIFFERENT Result types (string, two structs whose "id" is a string resp. a number, an array,
//     a number, NoResult) share one reply topic and one Pub/Sub; their requests are pending at the same time, so every listener
//     sees the notifications of all the others - most of which cannot be decoded into its own Result type;
//   - the command bus has an OnSend hook that edits the metadata of every outgoing command (copies all metadata of the message
//     being handled / of the command published last - foreign operation id included -, replaces the map, deletes keys, adds keys,
//     writes a stale operation id);
//   - request-reply handlers that make a nested SendWithReply on the same bus (same or another backend) and return a result
//     derived from the nested reply.
//
// No time-out and no near deadline exists in this class: every "never" is decided by the quiescence detector.

import (
	"context"
	"encoding/json"
	"errors"
	"fmt"
	"runtime"
	"sort"
	"strings"
	"sync"
	"sync/atomic"
	"time"

	"github.com/ThreeDotsLabs/watermill"
	"github.com/ThreeDotsLabs/watermill/components/cqrs"
	"github.com/ThreeDotsLabs/watermill/components/requestreply"
	"github.com/ThreeDotsLabs/watermill/message"
	"github.com/ThreeDotsLabs/watermill/pubsub/gochannel"

	"verifharness/vlib"
)

// case counts of the first class (indices below belong to it and are generated exactly as before) and of the mix class
const (
	baseQuick, baseThorough = 600, 48000
	mixQuick, mixThorough   = 240, 9600
)

func baseCases(tier string) int { return vlib.TierN(tier, baseQuick, baseThorough) }
func mixCases(tier string) int  { return vlib.TierN(tier, mixQuick, mixThorough) }
func allCases(tier string) int {
	return baseCases(tier) + mixCases(tier) + vlib.TierN(tier, undecQuick, undecThorough)
}

// dispatch runs the class a case index belongs to.
func dispatch(e *vlib.Env) vlib.Result {
	if e.Idx >= baseCases(e.Tier)+mixCases(e.Tier) {
		return runUndec(e) // third class: undec.go
	}
	if e.Idx >= baseCases(e.Tier) {
		return runMix(e)
	}
	return run(e)
}

// MCmd is the command of the mix class. Kind selects the backend (Result type) whose handler answers it, Role the handler:
// "leaf" answers at once, "outer" first makes a nested request of kind InnerKind, "void" is published to a topic nobody handles.
type MCmd struct {
	ID         string `json:"id"`
	Kind       string `json:"kind"`
	Role       string `json:"role"`
	Fails      int    `json:"fails"`
	InnerKind  string `json:"inner_kind,omitempty"`
	InnerFails int    `json:"inner_fails,omitempty"`
}

func (c *MCmd) cmdID() string { return c.ID }

// Result types that share the reply topic. Their JSON forms do not decode into each other (string / object whose id is a string /
// object whose id is a number / array / number); only NoResult's "{}" decodes into the two structs and vice versa.
type (
	resObj struct {
		ID      string `json:"id"`
		Attempt int    `json:"attempt"`
		Inner   string `json:"inner,omitempty"`
	}
	resNum struct {
		ID      int    `json:"id"`
		Cmd     string `json:"cmd"`
		Attempt int    `json:"attempt"`
		Inner   string `json:"inner,omitempty"`
	}
	resPair [3]string
)

var mixKindNames = []string{"str", "obj", "num", "pair", "int", "none"}

// OnSend hooks of the command bus (one per case)
var mixHooks = []string{"none", "copy-parent", "copy-parent", "copy-last", "copy-last", "replace-map", "delete-keys", "add-keys", "stale-opid"}

const staleOpID = "00000000-stale-operation-id"

// mreply is a reply with its result type erased (the result as JSON).
type mreply struct {
	res   string
	err   error
	notif *message.Message
}

func eraseReply[R any](rep requestreply.Reply[R]) mreply {
	b, _ := json.Marshal(rep.HandlerResult)
	return mreply{res: string(b), err: rep.Error, notif: rep.NotificationMessage}
}

// mstream is the reply channel of SendWithReplies with its type erased; reading goes straight to the channel (no forwarder:
// a caller that does not read must leave the listener alone).
type mstream interface {
	// recv blocks until a reply arrived (ok), the channel was closed (!ok, !stopped) or stop was closed (stopped); stop may be nil
	recv(stop <-chan struct{}) (rep mreply, ok bool, stopped bool)
}

type tstream[R any] struct {
	ch <-chan requestreply.Reply[R]
}

func (s tstream[R]) recv(stop <-chan struct{}) (mreply, bool, bool) {
	select {
	case rep, ok := <-s.ch:
		if !ok {
			return mreply{}, false, false
		}
		return eraseReply(rep), true, false
	case <-stop:
		return mreply{}, false, true
	}
}

// recB decorates the backend handed to SendWith*: it reports every listener that was started.
type recB[R any] struct {
	inner requestreply.Backend[R]
	note  func(cmd string, op string)
}

func (b *recB[R]) ListenForNotifications(ctx context.Context, p requestreply.BackendListenForNotificationsParams) (<-chan requestreply.Reply[R], error) {
	ch, err := b.inner.ListenForNotifications(ctx, p)
	if err == nil {
		if c, ok := p.Command.(interface{ cmdID() string }); ok {
			b.note(c.cmdID(), string(p.OperationID))
		}
	}
	return ch, err
}

func (b *recB[R]) OnCommandProcessed(ctx context.Context, p requestreply.BackendOnCommandProcessedParams[R]) error {
	return b.inner.OnCommandProcessed(ctx, p)
}

// mkind is one backend (one Result type) with its type erased.
type mkind struct {
	name      string
	ackErrors bool
	many      func(ctx context.Context, bus requestreply.CommandBus, cmd *MCmd) (mstream, func(), error)
	one       func(ctx context.Context, bus requestreply.CommandBus, cmd *MCmd) (mreply, error)
	// handler builds the request-reply command handler: body runs the scripted handler (attempt number, what the nested
	// request gave, the error to return), record is told the result that is returned
	handler func(name string, body func(ctx context.Context, c *MCmd) (int, string, error), record func(ctx context.Context, c *MCmd, att int, resJSON string, herr error)) cqrs.CommandHandler
	// decodes: can a listener of this backend decode the notification?
	decodes func(msg *message.Message) bool
}

func newMixKind[R any](name string, cfg requestreply.PubSubBackendConfig, note func(cmd, op string), mk func(id string, att int, inner string) R) (*mkind, error) {
	marshaler := requestreply.BackendPubsubJSONMarshaler[R]{}
	backend, err := requestreply.NewPubSubBackend[R](cfg, marshaler)
	if err != nil {
		return nil, err
	}
	sendB := &recB[R]{inner: backend, note: note}
	k := &mkind{name: name, ackErrors: cfg.AckCommandErrors}
	k.many = func(ctx context.Context, bus requestreply.CommandBus, cmd *MCmd) (mstream, func(), error) {
		ch, cancel, err := requestreply.SendWithReplies[R](ctx, bus, sendB, cmd)
		if err != nil {
			return nil, cancel, err
		}
		return tstream[R]{ch: ch}, cancel, nil
	}
	k.one = func(ctx context.Context, bus requestreply.CommandBus, cmd *MCmd) (mreply, error) {
		rep, err := requestreply.SendWithReply[R](ctx, bus, sendB, cmd)
		if err != nil {
			return mreply{}, err
		}
		return eraseReply(rep), nil
	}
	k.decodes = func(msg *message.Message) bool {
		_, err := marshaler.UnmarshalReply(msg)
		return err == nil
	}
	k.handler = func(hname string, body func(ctx context.Context, c *MCmd) (int, string, error), record func(ctx context.Context, c *MCmd, att int, resJSON string, herr error)) cqrs.CommandHandler {
		if nb, ok := any(backend).(requestreply.Backend[struct{}]); ok {
			// NoResult: the handler form without a result
			return requestreply.NewCommandHandler[MCmd](hname, nb, func(ctx context.Context, c *MCmd) error {
				att, _, herr := body(ctx, c)
				record(ctx, c, att, "{}", herr)
				return herr
			})
		}
		return requestreply.NewCommandHandlerWithResult[MCmd, R](hname, backend, func(ctx context.Context, c *MCmd) (R, error) {
			att, inner, herr := body(ctx, c)
			out := mk(c.ID, att, inner)
			b, _ := json.Marshal(out)
			record(ctx, c, att, string(b), herr)
			return out, herr
		})
	}
	return k, nil
}

// mout is what a handler returned for one delivery of a command.
type mout struct {
	cmd     string
	att     int
	res     string // JSON
	hasErr  bool
	errText string
}

// mreq is a request whose replies are judged: a top-level caller's or the nested one of a handler.
type mreq struct {
	id, kind  string
	got       []string
	foreign   []string
	badDecode []string // ReplyUnmarshalError replies
	mismatch  []string
	timeouts  int
	unattrib  int
}

type mcaller struct {
	mreq
	role       string // leaf | outer | void
	fails      int
	innerKind  string
	innerFails int
	behaviour  string // drain | listen | late-drain | never-read | single
	ctxKind    string // plain | far
	endBy      string // cancel | parent | return (SendWithReply ends the request when it returns)
	expect     int
	sendErr    string
	closed     bool
	st         mstream
	cancel     func()
	cancelCtx  func()
	done       chan struct{}
}

type nestedReq struct {
	mreq
	parent  string
	done    bool
	sendErr string
}

func runMix(e *vlib.Env) vlib.Result {
	r := e.R
	id := e.ID()
	n := r.Range(2, 12)
	hook := mixHooks[r.Intn(len(mixHooks))]
	nestedCase := r.Chance(0.6)
	gated := r.Chance(0.7)
	useOnHandle := r.Bool()
	yieldP := []float64{0, 0.3, 0.6}[r.Intn(3)]
	// the Result types of the case
	nk := []int{1, 2, 2, 2, 3, 3, 4, 6}[r.Intn(8)]
	perm := r.Perm(len(mixKindNames))
	var kindNames []string
	for _, i := range perm[:nk] {
		kindNames = append(kindNames, mixKindNames[i])
	}
	sort.Strings(kindNames)
	ackOf := map[string]bool{}
	for _, k := range kindNames {
		ackOf[k] = r.Bool()
	}
	var ackDesc []string
	for _, k := range kindNames {
		ackDesc = append(ackDesc, fmt.Sprintf("%s:ack=%v", k, ackOf[k]))
	}
	spec := fmt.Sprintf("mix requests=%d backends=[%s] onSend=%s nested=%v gated=%v onHandle=%v yield=%.1f", n, strings.Join(ackDesc, " "), hook, nestedCase, gated, useOnHandle, yieldP)
	res := vlib.Result{Class: fmt.Sprintf("mix/onSend=%s/nested=%v/types=%d", hook, nestedCase, minInt(nk, 3)), Spec: spec}
	wo := vlib.WaitOpts{Watchdog: 40 * time.Second, NoTimerCheck: []string{wgtFrame}}

	ctl := vlib.NewCtl(r.Uint64(), yieldP, 60)
	defer ctl.Uninstall()
	listenerLeak := func(g vlib.Goroutine) bool {
		return g.Has("requestreply.PubSubBackend") && g.Has("ListenForNotifications")
	}
	leakBefore, _ := vlib.CountGoroutines(listenerLeak)

	logger := watermill.NopLogger{}
	ps := gochannel.NewGoChannel(gochannel.Config{}, logger)

	var mu sync.Mutex
	finished := map[string]int{}                        // command id -> OnListenForReplyFinished calls
	started := map[string]int{}                         // command id -> listeners started
	opReq := map[string]string{}                        // operation id -> command id of the request listening with it
	reqKind := map[string]string{}                      // command id -> kind of the request
	notifCmd := map[*message.Message]*message.Message{} // notification -> the command delivery it answers
	notifByUUID := map[string]*message.Message{}        // notification UUID -> notification
	byDelivery := map[*message.Message]*mout{}          // command delivery -> what the handler returned for it
	byNotif := map[string]*mout{}                       // notification UUID -> the handler outcome it has to carry
	deliveries := map[string][]*message.Message{}       // command id -> its deliveries
	cmdKind := map[string]string{}                      // command id (handled) -> kind of the backend that answers it
	handlerCalls := map[string]int{}
	var settledEarly []string
	var nesteds []*nestedReq
	var cancels []func()
	var lastPublished message.Metadata // metadata of the command published last (as published: operation id included)
	hookEdits, hookWroteOpID, ownUndecodable := 0, 0, 0
	foreignSeen, foreignUndecodable := 0, 0
	var events atomic.Int64
	gate := make(chan struct{})
	abort := make(chan struct{}) // closed at teardown / on a redelivery loop: handlers stop waiting
	var abortOnce sync.Once
	doAbort := func() { abortOnce.Do(func() { close(abort) }) }
	defer doAbort()
	var runawayCmd atomic.Pointer[string]

	// what listeners are offered: counted at the hook point in front of the listener's filter (counters only, no verdict)
	var kinds map[string]*mkind
	ctl.Observe(func(point, a, b string) {
		if point != "requestreply.listen.notification" {
			return
		}
		mu.Lock()
		defer mu.Unlock()
		req, ok := opReq[a]
		o := byNotif[b]
		m := notifByUUID[b]
		if !ok || o == nil || m == nil || o.cmd == req {
			return
		}
		foreignSeen++
		if k := kinds[reqKind[req]]; k != nil && !k.decodes(m) {
			foreignUndecodable++
		}
	})

	replyPub := &samplingPub{inner: ps, after: func(msgs []*message.Message) {
		mu.Lock()
		defer mu.Unlock()
		for _, m := range msgs {
			if cm := notifCmd[m]; cm != nil {
				events.Add(1)
				if st := vlib.Settled(cm); st != "" {
					cmd := "?"
					if o := byDelivery[cm]; o != nil {
						cmd = o.cmd
					}
					settledEarly = append(settledEarly, fmt.Sprintf("command %s was already %sed when the Publish of its reply returned", cmd, st))
				}
			}
		}
	}}
	note := func(cmd, op string) {
		mu.Lock()
		started[cmd]++
		opReq[op] = cmd
		mu.Unlock()
	}
	kinds = map[string]*mkind{}
	for _, kn := range kindNames {
		kn := kn
		cfg := requestreply.PubSubBackendConfig{
			Publisher: replyPub,
			SubscriberConstructor: func(requestreply.PubSubBackendSubscribeParams) (message.Subscriber, error) {
				return &deadlineSub{inner: ps, note: func(context.Context) {}}, nil
			},
			GenerateSubscribeTopic: func(requestreply.PubSubBackendSubscribeParams) (string, error) { return id + "/reply", nil },
			GeneratePublishTopic:   func(requestreply.PubSubBackendPublishParams) (string, error) { return id + "/reply", nil },
			Logger:                 logger,
			AckCommandErrors:       ackOf[kn],
			ModifyNotificationMessage: func(msg *message.Message, p requestreply.PubSubBackendOnCommandProcessedParams) error {
				mu.Lock()
				defer mu.Unlock()
				notifCmd[msg] = p.CommandMessage
				notifByUUID[msg.UUID] = msg
				if o := byDelivery[p.CommandMessage]; o != nil {
					byNotif[msg.UUID] = o
				}
				if k := kinds[kn]; k != nil && !k.decodes(msg) {
					ownUndecodable++ // never expected: every result of the workload decodes into its own type
				}
				return nil
			},
			OnListenForReplyFinished: func(ctx context.Context, p requestreply.PubSubBackendSubscribeParams) {
				if c, ok := p.Command.(interface{ cmdID() string }); ok {
					mu.Lock()
					finished[c.cmdID()]++
					mu.Unlock()
				}
			},
		}
		var k *mkind
		var err error
		switch kn {
		case "str":
			k, err = newMixKind[string](kn, cfg, note, func(c string, att int, inner string) string {
				return fmt.Sprintf("%s#%d(%s)", c, att, inner)
			})
		case "obj":
			k, err = newMixKind[resObj](kn, cfg, note, func(c string, att int, inner string) resObj {
				return resObj{ID: c, Attempt: att, Inner: inner}
			})
		case "num":
			k, err = newMixKind[resNum](kn, cfg, note, func(c string, att int, inner string) resNum {
				return resNum{ID: int(vlib.HashStr(c) % 1000000), Cmd: c, Attempt: att, Inner: inner}
			})
		case "pair":
			k, err = newMixKind[resPair](kn, cfg, note, func(c string, att int, inner string) resPair {
				return resPair{c, fmt.Sprint(att), inner}
			})
		case "int":
			k, err = newMixKind[int64](kn, cfg, note, func(c string, att int, inner string) int64 {
				return int64(vlib.HashStr(c+"|"+inner)%1000000000)*10 + int64(att%10)
			})
		case "none":
			k, err = newMixKind[requestreply.NoResult](kn, cfg, note, func(string, int, string) requestreply.NoResult {
				return requestreply.NoResult{}
			})
		}
		if err != nil || k == nil {
			res.Verdict, res.Reason = vlib.HarnessError, fmt.Sprint("backend ", kn, ": ", err)
			return res
		}
		mu.Lock()
		kinds[kn] = k
		mu.Unlock()
	}

	router, _ := message.NewRouter(message.RouterConfig{CloseTimeout: time.Hour}, logger)
	marshaler := cqrs.JSONMarshaler{}
	topicOf := func(c *MCmd) string {
		if c.Role == "void" {
			return id + "/mcmd/nobody-listens"
		}
		return id + "/mcmd/" + c.Kind + "/" + c.Role
	}
	// the OnSend hook of the case: a hook that edits the metadata of the outgoing command. SendWithReplies stamps the operation id
	// through the `modify` argument of SendWithModifiedMessage, which the bus applies after OnSend.
	onSend := func(p cqrs.CommandBusOnSendParams) error {
		md := p.Message.Metadata
		edited, wroteOp := false, false
		switch hook {
		case "copy-parent":
			// propagate everything the message being handled carries (tracing / tenant / correlation data)
			if parent := cqrs.OriginalMessageFromCtx(p.Message.Context()); parent != nil {
				for k, v := range parent.Metadata {
					if k == "name" {
						continue // the parent's command name is not this command's
					}
					md.Set(k, v)
					edited = true
					if k == requestreply.OperationIDMetadataKey {
						wroteOp = true
					}
				}
			}
		case "copy-last":
			// causation chain: everything the previously published command carried
			mu.Lock()
			src := lastPublished
			mu.Unlock()
			for k, v := range src {
				if k == "name" {
					continue
				}
				md.Set(k, v)
				edited = true
				if k == requestreply.OperationIDMetadataKey {
					wroteOp = true
				}
			}
		case "replace-map":
			p.Message.Metadata = message.Metadata{"name": p.CommandName, "tenant": "acme"}
			edited = true
		case "delete-keys":
			for k := range md {
				if k != "name" {
					delete(md, k)
				}
			}
			md.Set("normalised", "1")
			edited = true
		case "add-keys":
			md.Set("tenant", "acme")
			md.Set("trace_id", p.Message.UUID)
			md.Set("_watermill_requestreply_hint", "x")
			edited = true
		case "stale-opid":
			md.Set(requestreply.OperationIDMetadataKey, staleOpID)
			edited, wroteOp = true, true
		}
		mu.Lock()
		if edited {
			hookEdits++
		}
		if wroteOp {
			hookWroteOpID++
		}
		mu.Unlock()
		return nil
	}
	busConfig := cqrs.CommandBusConfig{
		GeneratePublishTopic: func(p cqrs.CommandBusGeneratePublishTopicParams) (string, error) {
			c, ok := p.Command.(*MCmd)
			if !ok {
				return "", errors.New("unexpected command type")
			}
			return topicOf(c), nil
		},
		Marshaler: marshaler, Logger: logger,
	}
	if hook != "none" {
		busConfig.OnSend = onSend
	}
	cmdPub := &samplingPub{inner: ps, before: func(msgs []*message.Message) error {
		mu.Lock()
		for _, m := range msgs {
			cp := message.Metadata{}
			for k, v := range m.Metadata {
				cp[k] = v
			}
			lastPublished = cp
		}
		mu.Unlock()
		return nil
	}, after: func([]*message.Message) {}}
	bus, err := cqrs.NewCommandBusWithConfig(cmdPub, busConfig)
	if err != nil {
		res.Verdict, res.Reason = vlib.HarnessError, err.Error()
		return res
	}

	classify := func(q *mreq, rep mreply) {
		events.Add(1)
		mu.Lock()
		defer mu.Unlock()
		var te requestreply.ReplyTimeoutError
		var ue requestreply.ReplyUnmarshalError
		if rep.err != nil && errors.As(rep.err, &te) {
			q.timeouts++
			return
		}
		if rep.err != nil && errors.As(rep.err, &ue) {
			q.badDecode = append(q.badDecode, clipStr(rep.err.Error()))
			return
		}
		desc := "result:" + clipStr(rep.res)
		if rep.err != nil {
			desc += fmt.Sprintf(" error:%q", clipStr(rep.err.Error()))
		}
		var exp *mout
		if rep.notif != nil {
			exp = byNotif[rep.notif.UUID]
		}
		if exp == nil {
			q.unattrib++
			return
		}
		if exp.cmd != q.id {
			q.foreign = append(q.foreign, fmt.Sprintf("%s (produced for command %s)", desc, exp.cmd))
			return
		}
		q.got = append(q.got, desc)
		bad := func(clause, f string, a ...any) {
			q.mismatch = append(q.mismatch, clause+"\x00"+fmt.Sprintf(f, a...))
		}
		switch {
		case exp.hasErr && rep.err == nil:
			bad("reply-error-lost", "the handler returned an error (text %q) for command %s; the reply the caller got reports success (result %s)", clipStr(exp.errText), q.id, clipStr(rep.res))
		case !exp.hasErr && rep.err != nil:
			bad("reply-error-invented", "the handler succeeded for command %s (result %s); the reply the caller got carries the error %q", q.id, clipStr(exp.res), clipStr(rep.err.Error()))
		case exp.hasErr && rep.err.Error() != exp.errText:
			bad("reply-error-text", "the handler's error text for command %s was %q; the reply carries %q", q.id, clipStr(exp.errText), clipStr(rep.err.Error()))
		}
		if rep.res != exp.res {
			bad("reply-result", "the handler returned result %s for command %s (backend %s); the reply, decoded with the caller's own Result type, carries %s", clipStr(exp.res), q.id, q.kind, clipStr(rep.res))
		}
	}

	// handlers
	nestedMade := 0
	body := func(ctx context.Context, c *MCmd) (int, string, error) {
		select {
		case <-gate:
		case <-abort:
		}
		mu.Lock()
		handlerCalls[c.ID]++
		att := handlerCalls[c.ID]
		cmdKind[c.ID] = c.Kind
		mu.Unlock()
		events.Add(1)
		if att > 60 {
			// no script redelivers a command that often: a redelivery loop (it never becomes quiescent)
			cid := c.ID
			if runawayCmd.CompareAndSwap(nil, &cid) {
				doAbort()
			}
		}
		inner := ""
		if c.Role == "outer" && !vlib.IsClosed(abort) {
			// the nested request: same bus, the backend of InnerKind (the handler's own or another one), the handler's context
			nr := &nestedReq{mreq: mreq{id: fmt.Sprintf("%s/in%d", c.ID, att), kind: c.InnerKind}, parent: c.ID}
			nctx, ncancel := context.WithCancel(ctx)
			mu.Lock()
			nesteds = append(nesteds, nr)
			cancels = append(cancels, ncancel)
			reqKind[nr.id] = nr.kind
			nestedMade++
			ik := kinds[c.InnerKind]
			mu.Unlock()
			rep, err := ik.one(nctx, bus, &MCmd{ID: nr.id, Kind: c.InnerKind, Role: "leaf", Fails: c.InnerFails})
			ncancel()
			if err != nil {
				mu.Lock()
				nr.sendErr = err.Error()
				nr.done = true
				mu.Unlock()
				inner = "nested-failed"
			} else {
				classify(&nr.mreq, rep)
				mu.Lock()
				nr.done = true
				mu.Unlock()
				inner = rep.res
				if rep.err != nil {
					inner += "|" + rep.err.Error()
				}
			}
		}
		var herr error
		if att <= c.Fails {
			herr = fmt.Errorf("handler failed for %s attempt %d", c.ID, att)
		}
		return att, inner, herr
	}
	record := func(ctx context.Context, c *MCmd, att int, resJSON string, herr error) {
		orig := cqrs.OriginalMessageFromCtx(ctx)
		if orig == nil {
			return
		}
		o := &mout{cmd: c.ID, att: att, res: resJSON, hasErr: herr != nil}
		if herr != nil {
			o.errText = herr.Error()
		}
		mu.Lock()
		byDelivery[orig] = o
		deliveries[c.ID] = append(deliveries[c.ID], orig)
		mu.Unlock()
	}
	var onHandle cqrs.CommandProcessorOnHandleFn
	if useOnHandle {
		onHandle = func(params cqrs.CommandProcessorOnHandleParams) error {
			return params.Handler.Handle(params.Message.Context(), params.Command)
		}
	}
	for _, kn := range kindNames {
		for _, role := range []string{"leaf", "outer"} {
			topic := id + "/mcmd/" + kn + "/" + role
			proc, err := cqrs.NewCommandProcessorWithConfig(router, cqrs.CommandProcessorConfig{
				GenerateSubscribeTopic: func(cqrs.CommandProcessorGenerateSubscribeTopicParams) (string, error) { return topic, nil },
				SubscriberConstructor:  func(cqrs.CommandProcessorSubscriberConstructorParams) (message.Subscriber, error) { return ps, nil },
				Marshaler:              marshaler, Logger: logger,
				OnHandle: onHandle,
			})
			if err == nil {
				err = proc.AddHandlers(kinds[kn].handler(fmt.Sprintf("%s/mix-%s-%s", id, kn, role), body, record))
			}
			if err != nil {
				res.Verdict, res.Reason = vlib.HarnessError, err.Error()
				return res
			}
		}
	}
	runDone := make(chan struct{})
	go func() { defer close(runDone); router.Run(context.Background()) }()
	teardown := func() {
		doAbort()
		mu.Lock()
		cs := append([]func(){}, cancels...)
		mu.Unlock()
		for _, c := range cs {
			c()
		}
		cd := make(chan struct{})
		go func() { router.Close(); ps.Close(); close(cd) }()
		vlib.WaitClosed(cd, wo)
		vlib.WaitClosed(runDone, wo)
		for k := 0; k < 3; k++ {
			runtime.Gosched()
		}
	}
	if oc, _ := vlib.WaitClosed(router.Running(), wo); oc != vlib.Done {
		res.Inconclusive("router did not start")
		teardown()
		return res
	}

	// callers
	behaviours := []string{"drain", "drain", "listen", "listen", "late-drain", "never-read", "single", "single"}
	callers := make([]*mcaller, n)
	outers := 0
	for i := range callers {
		c := &mcaller{done: make(chan struct{})}
		c.id = fmt.Sprintf("%s/m%d", id, i)
		c.kind = kindNames[r.Intn(len(kindNames))]
		c.behaviour = behaviours[r.Intn(len(behaviours))]
		c.fails = []int{0, 0, 1, 2}[r.Intn(4)]
		c.role = "leaf"
		outer, void := r.Chance(0.45), r.Chance(0.07)
		c.innerKind = c.kind
		if r.Bool() {
			c.innerKind = kindNames[r.Intn(len(kindNames))]
		}
		c.innerFails = []int{0, 0, 0, 1}[r.Intn(4)]
		c.ctxKind = []string{"plain", "far"}[r.Intn(2)]
		c.endBy = []string{"cancel", "cancel", "parent"}[r.Intn(3)]
		switch {
		case nestedCase && (outer || (outers == 0 && i == n-1)):
			c.role = "outer"
			outers++
		case void:
			c.role = "void"
			c.fails = 0
		}
		c.expect = 1
		if !ackOf[c.kind] {
			c.expect = c.fails + 1
		}
		if c.role == "void" {
			c.expect = 0
			if c.behaviour == "drain" || c.behaviour == "late-drain" {
				c.behaviour = "listen" // stays pending while the others are answered
			}
		}
		if c.behaviour == "single" {
			c.endBy = "return"
			if c.role == "void" {
				c.endBy = "parent" // no reply ever: only its context ends SendWithReply
			}
		}
		callers[i] = c
		mu.Lock()
		reqKind[c.id] = c.kind
		mu.Unlock()
	}
	lateCancel := make(chan struct{})
	count := func(c *mcaller) int {
		mu.Lock()
		defer mu.Unlock()
		return len(c.got) + len(c.foreign) + c.unattrib
	}
	for _, c := range callers {
		go func(c *mcaller) {
			defer close(c.done)
			var ctx context.Context
			var cancelCtx context.CancelFunc
			if c.ctxKind == "far" {
				ctx, cancelCtx = context.WithTimeout(context.Background(), farDeadline)
			} else {
				ctx, cancelCtx = context.WithCancel(context.Background())
			}
			mu.Lock()
			c.cancelCtx = cancelCtx
			k := kinds[c.kind]
			mu.Unlock()
			cmd := &MCmd{ID: c.id, Kind: c.kind, Role: c.role, Fails: c.fails, InnerKind: c.innerKind, InnerFails: c.innerFails}
			setClosed := func() {
				mu.Lock()
				c.closed = true
				mu.Unlock()
			}
			if c.behaviour == "single" {
				if c.endBy == "parent" {
					go func() {
						select {
						case <-lateCancel:
							cancelCtx()
						case <-c.done:
						}
					}()
				}
				rep, err := k.one(ctx, bus, cmd)
				if err != nil {
					mu.Lock()
					c.sendErr = err.Error()
					mu.Unlock()
					return
				}
				classify(&c.mreq, rep)
				setClosed()
				return
			}
			st, cancel, err := k.many(ctx, bus, cmd)
			if err != nil {
				mu.Lock()
				c.sendErr = err.Error()
				mu.Unlock()
				return
			}
			mu.Lock()
			c.st, c.cancel = st, cancel
			mu.Unlock()
			end := func() {
				if c.endBy == "parent" {
					cancelCtx()
				} else {
					cancel()
				}
			}
			drainRest := func() {
				for {
					rep, ok, _ := st.recv(nil)
					if !ok {
						setClosed()
						return
					}
					classify(&c.mreq, rep)
				}
			}
			switch c.behaviour {
			case "drain", "late-drain":
				if c.behaviour == "late-drain" {
					<-lateCancel
				}
				for count(c) < c.expect {
					rep, ok, _ := st.recv(nil)
					if !ok {
						setClosed()
						return
					}
					classify(&c.mreq, rep)
				}
				end()
				drainRest()
			case "listen":
				// reads whatever arrives until the harness has seen everything happen, ends the request only then
				for {
					rep, ok, stopped := st.recv(lateCancel)
					if stopped {
						break
					}
					if !ok {
						setClosed()
						return
					}
					classify(&c.mreq, rep)
				}
				end()
				drainRest()
			case "never-read":
				<-lateCancel
				end()
			}
		}(c)
	}
	// with the gate no handler answers before every top-level request is listening: all of them are pending at the same time
	if gated {
		if oc, _ := vlib.WaitUntil(func() bool {
			mu.Lock()
			defer mu.Unlock()
			for _, c := range callers {
				if started[c.id] == 0 {
					return false
				}
			}
			return true
		}, wo); oc == vlib.Inconclusive {
			res.Inconclusive("the requests were not started")
		}
	}
	close(gate)
	// let everything happen - unless a redelivery loop shows up (it never settles)
	if oc, _ := vlib.WaitUntil(func() bool { return runawayCmd.Load() != nil }, wo); oc == vlib.Inconclusive {
		res.Inconclusive("not quiescent")
	}
	finish := func() vlib.Result {
		res.Events = int(events.Load())
		res.Hooks = ctl.Counts()
		mu.Lock()
		defer mu.Unlock()
		res.Count("mix_cases", 1)
		res.Count("mix_requests", n)
		res.Count("mix_backends_sharing_reply_topic", len(kindNames))
		res.Count("mix_nested_requests", nestedMade)
		res.Count("mix_onsend_"+hook, 1)
		res.Count("mix_onsend_edits", hookEdits)
		res.Count("mix_onsend_wrote_operation_id_key", hookWroteOpID)
		res.Count("mix_foreign_notifications_seen_by_listeners", foreignSeen)
		res.Count("mix_foreign_notifications_undecodable_with_listeners_type", foreignUndecodable)
		replies, nreplies := 0, 0
		for _, c := range callers {
			replies += len(c.got)
			res.Count("mix_behaviour_"+c.behaviour, 1)
			res.Count("mix_role_"+c.role, 1)
		}
		for _, q := range nesteds {
			nreplies += len(q.got)
			if q.kind != cmdKind[q.parent] {
				res.Count("mix_nested_requests_on_another_backend", 1)
			}
		}
		res.Count("mix_replies_received", replies)
		res.Count("mix_nested_replies_received", nreplies)
		res.NonTrivial = foreignUndecodable > 0 || hookEdits > 0 || nestedMade > 0 || (n >= 2 && foreignSeen > 0)
		shape := spec
		for _, c := range callers {
			shape += fmt.Sprintf("|%s:%s:%s:%d:%s:%s", c.kind, c.role, c.behaviour, c.fails, c.ctxKind, c.endBy)
			if c.role == "outer" {
				shape += fmt.Sprintf(":%s:%d", c.innerKind, c.innerFails)
			}
		}
		res.Sig = vlib.Sig(shape, ctl.Fingerprint())
		res.Sample = map[string]any{"spec": spec, "callers": len(callers), "nested_requests": nestedMade, "foreign_notifications_seen": foreignSeen, "undecodable_for_listener": foreignUndecodable, "onsend_edits": hookEdits}
		return res
	}
	if c := runawayCmd.Load(); c != nil {
		mu.Lock()
		calls := handlerCalls[*c]
		mu.Unlock()
		res.Fail("runaway-redelivery", "command %s was handed to its handler %d times and is still being redelivered although no script nacks a command that often (its handler returned without error at the latest from attempt 3 on); %s", *c, calls, spec)
		close(lateCancel)
		mu.Lock()
		for _, c := range callers {
			if c.cancelCtx != nil {
				c.cancelCtx()
			}
			if c.cancel != nil {
				c.cancel()
			}
		}
		mu.Unlock()
		teardown()
		return finish()
	}
	// quiescent: a nested request that has not returned never will (no time-out, no deadline, its context is open)
	mu.Lock()
	for _, q := range nesteds {
		if !q.done {
			res.Fail("nested-reply-missing", "the handler of command %s made the nested request %s (backend %s) with SendWithReply on the same bus and waits for its reply for ever (quiescent; no time-out, context open); replies the nested request's handler produced: %d; %s", q.parent, q.id, q.kind, len(deliveries[q.id]), spec)
			break
		}
	}
	mu.Unlock()
	close(lateCancel)
	allDone := make(chan struct{})
	go func() {
		for _, c := range callers {
			<-c.done
		}
		close(allDone)
	}()
	if oc, d := vlib.WaitClosed(allDone, wo); oc == vlib.Stuck {
		mu.Lock()
		for _, c := range callers {
			if vlib.IsClosed(c.done) {
				continue
			}
			switch {
			case c.behaviour == "never-read":
				res.Fail("caller-stuck", "caller %s (never-read) did not return; %s", c.id, spec)
			case len(c.got) < minInt(c.expect, 1) || (c.behaviour != "single" && len(c.got) < c.expect):
				res.Fail("reply-missing", "caller %s (%s, backend %s, %s command) received %d of the %d replies its command's handler produced %v and waits for the rest for ever (quiescent; no time-out, no deadline, not cancelled); handler calls for the command: %d; replies of other commands it received: %v; %s", c.id, c.behaviour, c.kind, c.role, len(c.got), c.expect, c.got, handlerCalls[c.id], c.foreign, spec)
			default:
				res.Fail("reply-channel-not-closed", "caller %s (%s) ended its request by %s and reads its reply channel, which is never closed (quiescent); %s", c.id, c.behaviour, c.endBy, spec)
			}
		}
		mu.Unlock()
		res.Witness = d
	} else if oc == vlib.Inconclusive {
		res.Inconclusive("callers neither finished nor quiescent")
	}
	if oc, _ := vlib.Settle(wo); oc == vlib.Inconclusive {
		res.Inconclusive("not quiescent")
	}
	if res.Verdict == "" {
		mu.Lock()
		if ownUndecodable > 0 {
			res.Inconclusive("%d notification(s) do not decode into the Result type of the backend that produced them: unmarshal errors cannot be attributed", ownUndecodable)
		}
		judge := func(q *mreq, who string) {
			if len(q.badDecode) > 0 {
				res.Fail("foreign-unmarshal-error", "%s of command %s (backend %s) received %d ReplyUnmarshalError repl(y/ies) %v although every reply produced for its own command decodes into its Result type: the notification of another request on the shared reply topic was handed to it (replies of its own command received: %v); %s", who, q.id, q.kind, len(q.badDecode), q.badDecode, q.got, spec)
			}
			if len(q.foreign) > 0 {
				res.Fail("foreign-reply", "%s of command %s received replies that were produced for other commands: %v (own: %v); %s", who, q.id, q.foreign, q.got, spec)
			}
			if q.unattrib > 0 {
				res.Inconclusive("%s of command %s received %d repl(y/ies) without a notification the harness saw being built", who, q.id, q.unattrib)
			}
			for _, m := range q.mismatch {
				clause, text, _ := strings.Cut(m, "\x00")
				res.Fail(clause, "%s; %s; %s", text, who, spec)
			}
		}
		for _, c := range callers {
			voidEnd := c.role == "void" && strings.Contains(c.sendErr, "context")
			if c.sendErr != "" && !voidEnd {
				res.Fail("send-error", "request for command %s failed: %s (%s)", c.id, c.sendErr, spec)
			}
			judge(&c.mreq, "caller ("+c.behaviour+")")
			want := c.expect
			if c.behaviour == "single" && want > 1 {
				want = 1
			}
			if c.behaviour != "never-read" && len(c.got) < want {
				res.Fail("reply-missing", "caller %s (%s, backend %s) received %d of %d expected replies: %v (%d time-out replies, %d unmarshal errors; nothing but the caller could end the listening); %s", c.id, c.behaviour, c.kind, len(c.got), want, c.got, c.timeouts, len(c.badDecode), spec)
			}
			if c.role == "void" && len(c.got) > 0 {
				res.Fail("foreign-reply", "caller %s sent a command nobody handles and received %v; %s", c.id, c.got, spec)
			}
			if finished[c.id] != 1 || started[c.id] != 1 {
				res.Fail("listener-not-finished", "OnListenForReplyFinished ran %d times for command %s (%d listener(s) started; caller behaviour %s, ended by %s) at quiescence, want exactly 1; %s", finished[c.id], c.id, started[c.id], c.behaviour, c.endBy, spec)
			}
		}
		for _, q := range nesteds {
			if q.sendErr != "" {
				res.Fail("send-error", "nested request %s made by the handler of %s failed: %s (%s)", q.id, q.parent, q.sendErr, spec)
			}
			judge(&q.mreq, "nested request made by the handler of "+q.parent+",")
			if q.done && q.sendErr == "" && len(q.got) < 1 && q.timeouts == 0 {
				res.Fail("reply-missing", "nested request %s returned without a reply of its own command; %s", q.id, spec)
			}
			if q.done && q.timeouts > 0 {
				res.Fail("reply-missing", "nested request %s (handler of %s) returned a ReplyTimeoutError although no time-out exists and its context was open; %s", q.id, q.parent, spec)
			}
			if finished[q.id] != 1 {
				res.Fail("listener-not-finished", "OnListenForReplyFinished ran %d times for the nested request %s (SendWithReply returned) at quiescence, want exactly 1; %s", finished[q.id], q.id, spec)
			}
		}
		for _, s := range settledEarly {
			res.Fail("settled-before-reply-published", "%s; %s", s, spec)
		}
		// every delivery is settled as AckCommandErrors of its backend says (every reply was published: no publish faults here)
		for cmd, copies := range deliveries {
			for i, cp := range copies {
				o := byDelivery[cp]
				if o == nil {
					continue
				}
				events.Add(1)
				want := "ack"
				if o.hasErr && !ackOf[cmdKind[cmd]] {
					want = "nack"
				}
				if st := vlib.Settled(cp); st != want {
					res.Fail("command-settlement", "command %s, delivery #%d (handler failed=%v, backend %s AckCommandErrors=%v) is %q at quiescence, want %s (its reply was published); %s", cmd, i+1, o.hasErr, cmdKind[cmd], ackOf[cmdKind[cmd]], st, want, spec)
				}
			}
		}
		mu.Unlock()
		if !res.Failed() {
			if after, dump := vlib.CountGoroutines(listenerLeak); after > leakBefore {
				res.Fail("listener-goroutine-leak", "%d reply-listener goroutine(s) still exist after every request was ended (quiescent); %s", after-leakBefore, spec)
				res.Witness = dump
			}
		}
	}
	// the reply channels of callers that never read must be closed
	if res.Verdict == "" {
		for _, c := range callers {
			mu.Lock()
			st, closed := c.st, c.closed
			mu.Unlock()
			if st == nil || closed {
				continue
			}
			ended := make(chan struct{})
			go func() {
				for {
					if _, ok, _ := st.recv(nil); !ok {
						close(ended)
						return
					}
				}
			}()
			if oc, d := vlib.WaitClosed(ended, wo); oc == vlib.Stuck {
				res.Fail("reply-channel-not-closed", "reply channel of command %s (caller %s, ended by %s) was never closed (quiescent); %s", c.id, c.behaviour, c.endBy, spec)
				res.Witness = d
				break
			}
		}
	}
	mu.Lock()
	for _, c := range callers {
		if c.cancel != nil {
			c.cancel()
		}
		if c.cancelCtx != nil {
			c.cancelCtx()
		}
	}
	mu.Unlock()
	teardown()
	return finish()
}

func clipStr(s string) string {
	if len(s) > 120 {
		return fmt.Sprintf("%s...(%d bytes)", s[:120], len(s))
	}
	return s
}

func minInt(a, b int) int {
	if a < b {
		return a
	}
	return b
}
