package c18

// Third workload class of C18 ("undec"): replies of the caller's OWN command that do not decode with the caller's Result type.
//
// The first two classes only ever produce replies that decode into the Result type of the request they answer (an undecodable
// notification there always belongs to somebody else and is filtered by operation id before it is unmarshaled). Here 1..3 of the
// replies of a request carry the caller's own operation id but cannot be unmarshaled by the listening side:
//
//   - "type":      the handler is registered with a backend of another Result type than the one the caller listens with (the id
//                  of the handler's result is `any`: a string decodes into the caller's type, a number does not);
//   - "marshaler": the caller's backend has a custom BackendPubsubMarshaler whose UnmarshalReply fails on chosen replies;
//   - "decorator": a decorator of the reply publisher alters the payload of chosen replies (truncated JSON, empty, array, ...);
//   - "modify":    PubSubBackendConfig.ModifyNotificationMessage alters the payload of chosen replies.
//
// Such a reply is reported to the caller as a Reply whose Error is a ReplyUnmarshalError (godoc of Reply.Error: "Error contains the
// error returned by the command handler or the Backend when handling notification fails. Handling the notification can fail, for
// example, when unmarshaling the message or if there's a timeout."). It takes the same way to the caller as every other reply, so
// the liveness half of the statement applies to it unchanged: whatever the caller does (drain, never read, read one and stop, drain
// late) and however the request ends (cancel function, the caller's context, ListenForReplyTimeout, a context deadline), the
// listener terminates: the reply channel is closed and OnListenForReplyFinished runs exactly once.

import (
	"context"
	"encoding/json"
	"errors"
	"fmt"
	"runtime"
	"strings"
	"sync"
	"sync/atomic"
	"time"

	"github.com/ThreeDotsLabs/watermill"
	"github.com/ThreeDotsLabs/watermill/components/cqrs"
	"github.com/ThreeDotsLabs/watermill/components/requestreply"
	"github.com/ThreeDotsLabs/watermill/message"
	"github.com/ThreeDotsLabs/watermill/pubsub/gochannel"

	"verifharness/vlib"
)

const (
	undecQuick, undecThorough = 400, 12000
	// quiescence is trusted this long after the last pending deadline of a case of this class
	undecDeadlineMargin = 80 * time.Millisecond
)

// UCmd is the command of the undec class.
type UCmd struct {
	ID    string `json:"id"`
	Fails int    `json:"fails"` // the handler fails this many times before succeeding
}

func (c *UCmd) cmdID() string { return c.ID }

// hRes is the Result type the handlers of a "split" case are registered with; the callers listen with Res (id is a string).
type hRes struct {
	ID      any `json:"id"`
	Attempt int `json:"attempt"`
}

// scriptedMarshaler is a custom BackendPubsubMarshaler of the caller's backend: UnmarshalReply fails on the replies fail() names.
type scriptedMarshaler struct {
	requestreply.BackendPubsubJSONMarshaler[Res]
	fail func(msg *message.Message) error
}

func (m scriptedMarshaler) UnmarshalReply(msg *message.Message) (requestreply.Reply[Res], error) {
	if err := m.fail(msg); err != nil {
		return requestreply.Reply[Res]{}, err
	}
	return m.BackendPubsubJSONMarshaler.UnmarshalReply(msg)
}

var undecSourceSets = [][]string{
	{"type"}, {"marshaler"}, {"decorator"}, {"modify"},
	{"type", "marshaler", "decorator", "modify"}, {"type", "marshaler", "decorator", "modify"},
}

// payloads that do not decode into Res (JSON "null" would: it is not among them)
var brokenPayloads = []string{`{"id": "trunc`, ``, `[1,2,3]`, `"just text"`, "\xff\xfe\x00", `{"id": {"nested": true}, "attempt": 1}`, `{"id":"x","attempt":"one"}`}

// uout is what a handler returned for one delivery of a command, and how the reply built for it is made undecodable ("" = it is not).
type uout struct {
	cmd     string
	h, att  int
	hasErr  bool
	errText string
	undec   string
	broken  string
	checked bool // the reply was seen on its way to the reply topic
	decodes bool // ... and its payload decodes into the callers' Result type
}

type ucaller struct {
	id         string
	fails      int
	behaviour  string // drain | never-read | one-stop | late-drain | single
	ctxKind    string // plain | far | near
	nearD      time.Duration
	endBy      string // cancel | parent | rely | return
	selfEnding bool
	produced   int               // replies the handlers produce for the command
	undecAt    map[string]string // "h#att" -> source that makes that reply undecodable
	brokenAt   map[string]string // "h#att" -> payload variant
	undecN     int
	got        []string
	foreign    []string
	foreignUE  []string
	passedOff  []string // replies whose notification does not decode, handed out as decoded replies
	mismatch   []string
	unmarshal  int // ReplyUnmarshalError replies received
	namedUE    int // ... of them naming this caller's command (marshaler source)
	timeouts   int
	unattrib   int
	decodedBad int // replies scripted undecodable that arrived decoded (harness problem)
	readBefore int // replies read before the caller stopped reading (one-stop)
	endCalled  bool
	closed     bool
	sendErr    string
	ch         <-chan requestreply.Reply[Res]
	cancel     func()
	cancelCtx  func()
	done       chan struct{}
}

func (c *ucaller) total() int {
	return len(c.got) + len(c.foreign) + c.unmarshal + c.unattrib + c.decodedBad
}

func runUndec(e *vlib.Env) vlib.Result {
	r := e.R
	id := e.ID()
	n := r.Range(1, 10)
	ackErrors := r.Chance(0.3)
	useTimeout := r.Chance(0.35)
	fanout := 1
	if r.Chance(0.4) || (ackErrors && r.Chance(0.6)) {
		fanout = r.Range(2, 3)
	}
	sources := undecSourceSets[r.Intn(len(undecSourceSets))]
	hasType := false
	for _, s := range sources {
		if s == "type" {
			hasType = true
		}
	}
	// split: the handlers are registered with a backend of their own (Result type hRes), the callers listen with another one (Res)
	split := hasType || r.Bool()
	customMarshaler := r.Bool()
	for _, s := range sources {
		if s == "marshaler" {
			customMarshaler = true
		}
	}
	useOnHandle := r.Bool()
	yieldP := []float64{0, 0.3, 0.6}[r.Intn(3)]
	timeout := listenTimeout
	spec := fmt.Sprintf("undec requests=%d ackCommandErrors=%v listenTimeout=%v handlers=%d sources=%v handlerBackendOfAnotherResultType=%v customMarshaler=%v onHandle=%v yield=%.1f", n, ackErrors, useTimeout, fanout, sources, split, customMarshaler, useOnHandle, yieldP)
	res := vlib.Result{Class: fmt.Sprintf("undec/%s/timeout=%v", strings.Join(sources, "+"), useTimeout), Spec: spec}
	if len(sources) > 1 {
		res.Class = fmt.Sprintf("undec/mixed/timeout=%v", useTimeout)
	}
	wo := vlib.WaitOpts{Watchdog: 40 * time.Second, NoTimerCheck: []string{wgtFrame}}

	ctl := vlib.NewCtl(r.Uint64(), yieldP, 60)
	defer ctl.Uninstall()
	listenerLeak := func(g vlib.Goroutine) bool {
		return g.Has("requestreply.PubSubBackend") && g.Has("ListenForNotifications")
	}
	leakBefore, _ := vlib.CountGoroutines(listenerLeak)

	logger := watermill.NopLogger{}
	ps := gochannel.NewGoChannel(gochannel.Config{}, logger)
	var mu sync.Mutex
	finished := map[string]int{}
	started := map[string]int{}
	deliveries := map[string][]*message.Message{}
	notifCmd := map[*message.Message]*message.Message{}
	byDelivery := map[*message.Message]*uout{}
	byNotif := map[string]*uout{}
	handlerCalls := map[string]int{}
	script := map[string]*ucaller{} // command id -> its caller (the undecodability script lives there)
	var settledEarly []string
	madeUndecodable := map[string]int{} // source -> replies made undecodable
	unmarshalCalls, unmarshalFailed := 0, 0
	var events atomic.Int64
	hkey := func(h int, cmd string) string { return fmt.Sprintf("%d#%s", h, cmd) }
	slot := func(h, att int) string { return fmt.Sprintf("%d#%d", h, att) }
	var runawayCmd atomic.Pointer[string]
	runaway := make(chan struct{})
	var runawayOnce sync.Once
	defer runawayOnce.Do(func() { close(runaway) })

	// pending context deadlines (invisible to the quiescence detector), read at the boundary (see deadlines.go)
	dw := &deadlineWatch{margin: undecDeadlineMargin}
	noteDeadline := dw.note
	waitT := func(cond func() bool) (vlib.Outcome, string) { return dw.wait(cond, wo) }

	// the reply publisher with its decorator: alters the payload of the replies scripted "decorator"
	replyPub := &samplingPub{inner: ps, before: func(msgs []*message.Message) error {
		mu.Lock()
		defer mu.Unlock()
		for _, m := range msgs {
			o := byDelivery[notifCmd[m]]
			if o == nil {
				continue
			}
			if o.undec == "decorator" {
				m.Payload = []byte(o.broken)
				madeUndecodable["decorator"]++
			}
			// what leaves for the reply topic: does it decode into the callers' Result type (as their JSON marshaler will try)?
			var probe Res
			o.checked, o.decodes = true, json.Unmarshal(m.Payload, &probe) == nil
		}
		return nil
	}, after: func(msgs []*message.Message) {
		mu.Lock()
		defer mu.Unlock()
		for _, m := range msgs {
			if cm := notifCmd[m]; cm != nil {
				events.Add(1)
				if st := vlib.Settled(cm); st != "" {
					cmd := "?"
					if o := byDelivery[cm]; o != nil {
						cmd = o.cmd
					}
					settledEarly = append(settledEarly, fmt.Sprintf("command %s was already %sed when the Publish of its reply returned", cmd, st))
				}
			}
		}
	}}
	bcfg := requestreply.PubSubBackendConfig{
		Publisher: replyPub,
		SubscriberConstructor: func(requestreply.PubSubBackendSubscribeParams) (message.Subscriber, error) {
			return &deadlineSub{inner: ps, note: noteDeadline}, nil
		},
		GenerateSubscribeTopic: func(requestreply.PubSubBackendSubscribeParams) (string, error) { return id + "/reply", nil },
		GeneratePublishTopic:   func(requestreply.PubSubBackendPublishParams) (string, error) { return id + "/reply", nil },
		Logger:                 logger,
		AckCommandErrors:       ackErrors,
		ModifyNotificationMessage: func(msg *message.Message, p requestreply.PubSubBackendOnCommandProcessedParams) error {
			mu.Lock()
			defer mu.Unlock()
			notifCmd[msg] = p.CommandMessage
			if o := byDelivery[p.CommandMessage]; o != nil {
				byNotif[msg.UUID] = o
				if o.undec == "modify" {
					msg.Payload = []byte(o.broken)
					madeUndecodable["modify"]++
				}
			}
			return nil
		},
		OnListenForReplyFinished: func(ctx context.Context, p requestreply.PubSubBackendSubscribeParams) {
			if c, ok := p.Command.(interface{ cmdID() string }); ok {
				mu.Lock()
				finished[c.cmdID()]++
				mu.Unlock()
			}
		},
	}
	if useTimeout {
		bcfg.ListenForReplyTimeout = &timeout
	}
	var callerMarshaler requestreply.BackendPubsubMarshaler[Res] = requestreply.BackendPubsubJSONMarshaler[Res]{}
	if customMarshaler {
		callerMarshaler = scriptedMarshaler{fail: func(msg *message.Message) error {
			mu.Lock()
			defer mu.Unlock()
			unmarshalCalls++
			if o := byNotif[msg.UUID]; o != nil && o.undec == "marshaler" {
				unmarshalFailed++
				madeUndecodable["marshaler"]++
				return fmt.Errorf("scripted marshaler: reply of handler %d attempt %d for command %s is not decodable", o.h, o.att, o.cmd)
			}
			return nil
		}}
	}
	callerBackend, err := requestreply.NewPubSubBackend[Res](bcfg, callerMarshaler)
	if err != nil {
		res.Verdict, res.Reason = vlib.HarnessError, err.Error()
		return res
	}
	var handlerBackend *requestreply.PubSubBackend[hRes]
	if split {
		if handlerBackend, err = requestreply.NewPubSubBackend[hRes](bcfg, requestreply.BackendPubsubJSONMarshaler[hRes]{}); err != nil {
			res.Verdict, res.Reason = vlib.HarnessError, err.Error()
			return res
		}
	}
	sendBackend := &recBackend{inner: callerBackend, note: func(cmd string, ch <-chan requestreply.Reply[Res]) {
		mu.Lock()
		started[cmd]++
		mu.Unlock()
	}}
	router, _ := message.NewRouter(message.RouterConfig{CloseTimeout: time.Hour}, logger)
	marshaler := cqrs.JSONMarshaler{}
	bus, err := cqrs.NewCommandBusWithConfig(ps, cqrs.CommandBusConfig{
		GeneratePublishTopic: func(cqrs.CommandBusGeneratePublishTopicParams) (string, error) { return id + "/ucommands", nil },
		Marshaler:            marshaler, Logger: logger,
	})
	if err != nil {
		res.Verdict, res.Reason = vlib.HarnessError, err.Error()
		return res
	}
	var onHandle cqrs.CommandProcessorOnHandleFn
	if useOnHandle {
		onHandle = func(params cqrs.CommandProcessorOnHandleParams) error {
			return params.Handler.Handle(params.Message.Context(), params.Command)
		}
	}
	for h := 0; h < fanout; h++ {
		h := h
		// body: the scripted handler; numeric = the result's id is returned as a number ("type" source)
		body := func(ctx context.Context, c *UCmd) (att int, numeric bool, herr error) {
			orig := cqrs.OriginalMessageFromCtx(ctx)
			mu.Lock()
			k := hkey(h, c.ID)
			handlerCalls[k]++
			att = handlerCalls[k]
			if att <= c.Fails {
				herr = fmt.Errorf("handler %d failed for %s attempt %d", h, c.ID, att)
			}
			o := &uout{cmd: c.ID, h: h, att: att, hasErr: herr != nil}
			if herr != nil {
				o.errText = herr.Error()
			}
			if cl := script[c.ID]; cl != nil {
				o.undec, o.broken = cl.undecAt[slot(h, att)], cl.brokenAt[slot(h, att)]
			}
			if o.undec == "type" {
				numeric = true
				madeUndecodable["type"]++
			}
			if orig != nil {
				deliveries[k] = append(deliveries[k], orig)
				byDelivery[orig] = o
			}
			mu.Unlock()
			events.Add(1)
			if att > 60 {
				cid := c.ID
				runawayOnce.Do(func() { runawayCmd.Store(&cid); close(runaway) })
			}
			return att, numeric, herr
		}
		proc, err := cqrs.NewCommandProcessorWithConfig(router, cqrs.CommandProcessorConfig{
			GenerateSubscribeTopic: func(cqrs.CommandProcessorGenerateSubscribeTopicParams) (string, error) { return id + "/ucommands", nil },
			SubscriberConstructor:  func(cqrs.CommandProcessorSubscriberConstructorParams) (message.Subscriber, error) { return ps, nil },
			Marshaler:              marshaler, Logger: logger,
			OnHandle: onHandle,
		})
		if err == nil {
			name := fmt.Sprintf("%s/uhandler%d", id, h)
			if split {
				err = proc.AddHandlers(requestreply.NewCommandHandlerWithResult[UCmd, hRes](name, handlerBackend, func(ctx context.Context, c *UCmd) (hRes, error) {
					att, numeric, herr := body(ctx, c)
					if numeric {
						return hRes{ID: 1000 + att, Attempt: att}, herr
					}
					return hRes{ID: c.ID, Attempt: att}, herr
				}))
			} else {
				err = proc.AddHandlers(requestreply.NewCommandHandlerWithResult[UCmd, Res](name, callerBackend, func(ctx context.Context, c *UCmd) (Res, error) {
					att, _, herr := body(ctx, c)
					return Res{ID: c.ID, Attempt: att}, herr
				}))
			}
		}
		if err != nil {
			res.Verdict, res.Reason = vlib.HarnessError, err.Error()
			return res
		}
	}
	runDone := make(chan struct{})
	go func() { defer close(runDone); router.Run(context.Background()) }()
	go func() {
		<-runaway
		if runawayCmd.Load() != nil {
			router.Close()
			ps.Close()
		}
	}()
	if oc, _ := vlib.WaitClosed(router.Running(), wo); oc != vlib.Done {
		res.Inconclusive("router did not start")
		return res
	}

	// callers
	behaviours := []string{"drain", "drain", "never-read", "never-read", "one-stop", "one-stop", "late-drain", "single"}
	callers := make([]*ucaller, n)
	nonReading, wedgeProne, undecTotal, producedTotal := 0, 0, 0, 0
	mu.Lock()
	for i := range callers {
		c := &ucaller{id: fmt.Sprintf("%s/u%d", id, i), behaviour: behaviours[r.Intn(len(behaviours))], done: make(chan struct{})}
		c.fails = []int{0, 1, 1, 2, 2, 3}[r.Intn(6)]
		switch x := r.Intn(20); {
		case x < 9:
			c.ctxKind = "plain"
		case x < 15:
			c.ctxKind = "far"
		default:
			c.ctxKind = "near"
			c.nearD = time.Duration(r.Range(3, 12)) * time.Millisecond
		}
		c.selfEnding = useTimeout || c.ctxKind == "near"
		c.endBy = "cancel"
		if r.Chance(0.35) {
			c.endBy = "parent"
		}
		relyDrain, lateEnds := r.Bool(), r.Bool()
		switch c.behaviour {
		case "never-read", "one-stop":
			nonReading++
			if c.selfEnding {
				// a caller that stopped reading does nothing at all any more: the time-out / its deadline has to end the listening
				c.endBy = "rely"
			}
		case "late-drain":
			nonReading++
			if c.selfEnding && !lateEnds {
				c.endBy = "rely"
			}
		case "drain":
			if c.selfEnding && relyDrain {
				c.endBy = "rely"
			}
		case "single":
			c.endBy = "return"
		}
		perHandler := c.fails + 1
		if ackErrors {
			perHandler = 1
		}
		c.produced = fanout * perHandler
		// which replies of the command do not decode: none (20%: a control that shares the reply topic with the others) or 1..3 of them
		c.undecAt, c.brokenAt = map[string]string{}, map[string]string{}
		k := 0
		if !r.Chance(0.2) {
			k = r.Range(1, minInt(3, c.produced))
		}
		perm := r.Perm(c.produced)
		for _, p := range perm[:k] {
			s := slot(p/perHandler, p%perHandler+1)
			src := sources[r.Intn(len(sources))]
			if src == "type" && !split {
				src = "modify"
			}
			c.undecAt[s] = src
			c.brokenAt[s] = brokenPayloads[r.Intn(len(brokenPayloads))]
		}
		c.undecN = k
		undecTotal += k
		producedTotal += c.produced
		if c.behaviour != "drain" && c.behaviour != "single" && c.produced >= 2 && k >= 1 {
			wedgeProne++
		}
		script[c.id] = c
		callers[i] = c
	}
	mu.Unlock()

	lateCancel := make(chan struct{})
	clip := func(s string) string {
		if len(s) > 120 {
			return fmt.Sprintf("%s...(%d bytes)", s[:120], len(s))
		}
		return s
	}
	classify := func(c *ucaller, rep requestreply.Reply[Res]) {
		events.Add(1)
		mu.Lock()
		defer mu.Unlock()
		var te requestreply.ReplyTimeoutError
		var ue requestreply.ReplyUnmarshalError
		if rep.Error != nil && errors.As(rep.Error, &te) {
			c.timeouts++
			return
		}
		if rep.Error != nil && errors.As(rep.Error, &ue) {
			c.unmarshal++
			// the scripted marshaler's error names the command whose reply it refused
			if text := rep.Error.Error(); strings.Contains(text, "scripted marshaler") {
				if strings.Contains(text, " "+c.id+" ") {
					c.namedUE++
				} else {
					c.foreignUE = append(c.foreignUE, clip(text))
				}
			}
			return
		}
		var exp *uout
		if rep.NotificationMessage != nil {
			exp = byNotif[rep.NotificationMessage.UUID]
		}
		desc := "result:" + rep.HandlerResult.ID
		if rep.Error != nil {
			desc = fmt.Sprintf("error:%q", clip(rep.Error.Error()))
		}
		switch {
		case exp == nil:
			c.unattrib++
			return
		case exp.cmd != c.id:
			c.foreign = append(c.foreign, fmt.Sprintf("%s (produced for command %s)", desc, exp.cmd))
			return
		case exp.undec != "":
			// the notification of this reply does not decode with the caller's Result type (its payload was seen not to on its
			// way to the reply topic / the caller's marshaler refused it), yet it is handed out as a decoded reply
			c.decodedBad++
			if exp.undec == "marshaler" || (exp.checked && !exp.decodes) {
				c.passedOff = append(c.passedOff, fmt.Sprintf("%s (handler %d attempt %d, made undecodable by %s)", desc, exp.h, exp.att, exp.undec))
			}
			return
		}
		c.got = append(c.got, desc)
		bad := func(clause, f string, a ...any) {
			c.mismatch = append(c.mismatch, clause+"\x00"+fmt.Sprintf(f, a...))
		}
		switch {
		case exp.hasErr && rep.Error == nil:
			bad("reply-error-lost", "the handler returned an error (text %q) for command %s; the reply the caller got reports success (result %+v)", clip(exp.errText), c.id, rep.HandlerResult)
		case !exp.hasErr && rep.Error != nil:
			bad("reply-error-invented", "the handler succeeded for command %s; the reply the caller got carries the error %q", c.id, clip(rep.Error.Error()))
		case exp.hasErr && rep.Error.Error() != exp.errText:
			bad("reply-error-text", "the handler's error text for command %s was %q; the reply carries %q", c.id, clip(exp.errText), clip(rep.Error.Error()))
		}
		if want := (Res{ID: c.id, Attempt: exp.att}); rep.HandlerResult != want {
			bad("reply-result", "the handler returned result %+v for command %s; the reply carries %+v", want, c.id, rep.HandlerResult)
		}
	}
	for _, c := range callers {
		go func(c *ucaller) {
			defer close(c.done)
			var ctx context.Context
			var cancelCtx context.CancelFunc
			switch c.ctxKind {
			case "far":
				ctx, cancelCtx = context.WithTimeout(context.Background(), farDeadline)
			case "near":
				ctx, cancelCtx = context.WithTimeout(context.Background(), c.nearD)
				noteDeadline(ctx)
			default:
				ctx, cancelCtx = context.WithCancel(context.Background())
			}
			mu.Lock()
			c.cancelCtx = cancelCtx
			mu.Unlock()
			cmd := &UCmd{ID: c.id, Fails: c.fails}
			if c.behaviour == "single" {
				rep, err := requestreply.SendWithReply[Res](ctx, bus, sendBackend, cmd)
				if err != nil {
					mu.Lock()
					c.sendErr = err.Error()
					mu.Unlock()
					return
				}
				classify(c, rep)
				mu.Lock()
				c.closed = true // SendWithReply cancels by itself; the channel is not visible
				mu.Unlock()
				return
			}
			ch, cancel, err := requestreply.SendWithReplies[Res](ctx, bus, sendBackend, cmd)
			if err != nil {
				mu.Lock()
				c.sendErr = err.Error()
				mu.Unlock()
				return
			}
			mu.Lock()
			c.ch, c.cancel = ch, cancel
			mu.Unlock()
			end := func() {
				mu.Lock()
				c.endCalled = true
				mu.Unlock()
				switch c.endBy {
				case "cancel":
					cancel()
				case "parent":
					cancelCtx()
				}
			}
			setClosed := func() {
				mu.Lock()
				c.closed = true
				mu.Unlock()
			}
			total := func() int {
				mu.Lock()
				defer mu.Unlock()
				return c.total()
			}
			switch c.behaviour {
			case "drain", "late-drain":
				if c.behaviour == "late-drain" {
					<-lateCancel
				}
				for total() < c.produced {
					rep, ok := <-ch
					if !ok {
						setClosed()
						return
					}
					classify(c, rep)
				}
				end()
				for rep := range ch {
					classify(c, rep)
				}
				setClosed()
			case "one-stop":
				select {
				case rep, ok := <-ch:
					if ok {
						classify(c, rep)
						mu.Lock()
						c.readBefore++
						mu.Unlock()
					}
				case <-lateCancel:
				}
				<-lateCancel
				end()
			case "never-read":
				<-lateCancel
				end()
			}
		}(c)
	}

	allHandled := func() bool {
		mu.Lock()
		defer mu.Unlock()
		for _, c := range callers {
			want := c.fails + 1
			if ackErrors {
				want = 1
			}
			for h := 0; h < fanout; h++ {
				if handlerCalls[hkey(h, c.id)] < want {
					return false
				}
			}
		}
		return true
	}
	finish := func() vlib.Result {
		res.Events = int(events.Load())
		res.Hooks = ctl.Counts()
		mu.Lock()
		defer mu.Unlock()
		res.Count("undec_cases", 1)
		res.Count("undec_requests", n)
		if fanout > 1 {
			res.Count("undec_fanout_cases", 1)
		}
		if split {
			res.Count("undec_cases_handler_backend_of_another_result_type", 1)
		}
		if customMarshaler {
			res.Count("undec_cases_custom_marshaler", 1)
		}
		res.Count("undec_replies_produced_scripted", producedTotal)
		res.Count("undec_own_replies_scripted_undecodable", undecTotal)
		for s, v := range madeUndecodable {
			res.Count("undec_replies_made_undecodable_by_"+s, v)
		}
		res.Count("undec_custom_marshaler_unmarshal_calls", unmarshalCalls)
		res.Count("undec_callers_that_stopped_reading", nonReading)
		res.Count("undec_nonreading_callers_with_2plus_replies_and_an_undecodable_one", wedgeProne)
		for _, c := range callers {
			res.Count("undec_behaviour_"+c.behaviour, 1)
			res.Count("undec_ctx_"+c.ctxKind, 1)
			res.Count("undec_end_by_"+c.endBy, 1)
			res.Count(fmt.Sprintf("undec_requests_with_%d_undecodable_replies", c.undecN), 1)
			res.Count("undec_unmarshal_error_replies_received", c.unmarshal)
			res.Count("undec_decoded_replies_received", len(c.got))
		}
		res.NonTrivial = undecTotal > 0
		shape := spec
		for _, c := range callers {
			shape += fmt.Sprintf("|%s:%d:%s:%s:%v", c.behaviour, c.fails, c.ctxKind, c.endBy, c.undecAt)
		}
		res.Sig = vlib.Sig(shape, ctl.Fingerprint())
		res.Sample = map[string]any{"spec": spec, "callers": len(callers), "replies_scripted": producedTotal, "own_replies_scripted_undecodable": undecTotal, "stopped_reading": nonReading}
		return res
	}
	teardown := func() {
		mu.Lock()
		for _, c := range callers {
			if c.cancel != nil {
				c.cancel()
			}
			if c.cancelCtx != nil {
				c.cancelCtx()
			}
			// whatever is still parked on a reply channel is let go (after the verdict)
			if c.ch != nil && !c.closed {
				go func(ch <-chan requestreply.Reply[Res]) {
					for range ch {
					}
				}(c.ch)
			}
		}
		mu.Unlock()
		cd := make(chan struct{})
		go func() { router.Close(); ps.Close(); close(cd) }()
		vlib.WaitClosed(cd, wo)
		vlib.WaitClosed(runDone, wo)
		for k := 0; k < 3; k++ {
			runtime.Gosched()
		}
	}

	waitT(func() bool { return allHandled() || runawayCmd.Load() != nil })
	// everything that can happen without the callers happens: every reply is produced, every time-out and near deadline passes
	oc1, dump1 := waitT(func() bool { return runawayCmd.Load() != nil })
	if c := runawayCmd.Load(); c != nil {
		res.Fail("runaway-redelivery", "command %s is still being redelivered after 60 handler calls (no script nacks a command that often); %s", *c, spec)
		close(lateCancel)
		teardown()
		return finish()
	}
	if oc1 == vlib.Inconclusive {
		res.Inconclusive("not quiescent")
	}
	// judgement, part 0 (quiescent, nobody has ended a request yet): "when ... the timeout passes, the listener always terminates ...
	// no matter how many replies arrived or whether the caller kept reading": every request with ListenForReplyTimeout or a near
	// context deadline is over by now - whatever its caller does, and before the harness touches any reply channel
	endedByTime := 0
	if res.Verdict == "" {
		mu.Lock()
		for _, c := range callers {
			if !c.selfEnding || started[c.id] == 0 {
				continue
			}
			what := fmt.Sprintf("ListenForReplyTimeout=%s", timeout)
			if c.ctxKind == "near" {
				what = fmt.Sprintf("the caller's context deadline of %s", c.nearD)
				if useTimeout {
					what += fmt.Sprintf(" and ListenForReplyTimeout=%s", timeout)
				}
			}
			if finished[c.id] != started[c.id] {
				res.Fail("listener-not-finished", "OnListenForReplyFinished ran %d times for command %s at quiescence although %s passed long ago (caller behaviour %s: it read %d repl(y/ies) so far; context %s; %d replies were produced for the command, %d of them not decodable with the caller's Result type %v); want exactly 1; %s", finished[c.id], c.id, what, c.behaviour, c.total(), c.ctxKind, c.produced, c.undecN, c.undecAt, spec)
				res.Witness = dump1
				break
			}
			if c.behaviour != "drain" && c.behaviour != "single" {
				endedByTime++
			}
		}
		mu.Unlock()
	}
	close(lateCancel)
	allDone := make(chan struct{})
	go func() {
		for _, c := range callers {
			<-c.done
		}
		close(allDone)
	}()
	if oc, d := waitT(func() bool { return vlib.IsClosed(allDone) }); oc == vlib.Stuck {
		mu.Lock()
		for _, c := range callers {
			if vlib.IsClosed(c.done) {
				continue
			}
			draining := c.behaviour == "drain" || c.behaviour == "late-drain"
			switch {
			case draining && !c.selfEnding && !c.endCalled && c.unmarshal < c.undecN:
				res.Fail("unmarshal-error-not-reported", "caller %s (%s) reads its reply channel: %d replies were produced for its command, %d of them not decodable with its Result type %v; it received %d decoded replies %v and %d ReplyUnmarshalError replies and waits for the rest for ever (quiescent; no time-out, no deadline, not cancelled): an undecodable reply of the caller's own command is not reported to it; %s", c.id, c.behaviour, c.produced, c.undecN, c.undecAt, len(c.got), c.got, c.unmarshal, spec)
			case draining && !c.selfEnding && !c.endCalled:
				res.Fail("reply-missing", "caller %s (%s) received %d decoded and %d ReplyUnmarshalError replies of the %d its command's handlers produced (%d undecodable) and waits for the rest for ever (quiescent; no time-out, no deadline, not cancelled); %s", c.id, c.behaviour, len(c.got), c.unmarshal, c.produced, c.undecN, spec)
			case c.selfEnding && useTimeout && c.ctxKind != "near":
				res.Fail("timeout-not-honoured", "caller %s (%s, context %s, ends by %s): ListenForReplyTimeout=%s passed long ago and the reply channel it reads is still open / SendWithReply has not returned (quiescent); %s", c.id, c.behaviour, c.ctxKind, c.endBy, timeout, spec)
			case (c.endBy == "parent" && c.endCalled) || c.ctxKind == "near":
				res.Fail("context-end-not-honoured", "caller %s (%s): its context ended but the reply channel is still open (quiescent); %s", c.id, c.behaviour, spec)
			case c.behaviour == "single":
				res.Fail("caller-stuck", "SendWithReply for command %s (%d replies produced, %d undecodable) has not returned (quiescent; context %s); %s", c.id, c.produced, c.undecN, c.ctxKind, spec)
			default:
				res.Fail("reply-channel-not-closed", "caller %s (%s) ended its request by %s and reads its reply channel, which is never closed (quiescent); %s", c.id, c.behaviour, c.endBy, spec)
			}
		}
		mu.Unlock()
		res.Witness = d
	} else if oc == vlib.Inconclusive {
		res.Inconclusive("callers neither finished nor quiescent")
	}
	oc2, dump2 := waitT(func() bool { return false })
	if oc2 == vlib.Inconclusive {
		res.Inconclusive("not quiescent")
	}
	// judgement, part 1: every request has been ended (cancel function / the caller's context / time-out / deadline); the reply
	// channels of callers that stopped reading have not been touched
	if res.Verdict == "" {
		mu.Lock()
		for _, c := range callers {
			ctxMayEnd := c.ctxKind == "near"
			if c.sendErr != "" && !(ctxMayEnd && strings.Contains(c.sendErr, "context")) {
				res.Fail("send-error", "request for command %s failed: %s (%s)", c.id, c.sendErr, spec)
			}
			if len(c.passedOff) > 0 {
				res.Fail("undecodable-reply-not-flagged", "caller of command %s (%s) received %v: the notification of such a reply does not decode with the caller's Result type, the reply must carry a ReplyUnmarshalError, not a result; %s", c.id, c.behaviour, c.passedOff, spec)
			}
			if c.decodedBad > len(c.passedOff) {
				res.Inconclusive("%d repl(y/ies) of command %s scripted undecodable arrived decoded", c.decodedBad, c.id)
			}
			if c.unattrib > 0 {
				res.Inconclusive("caller of command %s received %d repl(y/ies) without a notification the harness saw being built", c.id, c.unattrib)
			}
			if len(c.foreign) > 0 {
				res.Fail("foreign-reply", "caller of command %s received replies that were produced for other commands: %v (own: %v); %s", c.id, c.foreign, c.got, spec)
			}
			if len(c.foreignUE) > 0 {
				res.Fail("foreign-unmarshal-error", "caller of command %s received ReplyUnmarshalError replies for notifications of other commands: %v; %s", c.id, c.foreignUE, spec)
			}
			// "only replies produced for its own command": no more unmarshal errors than undecodable replies were produced for it
			if c.unmarshal > c.undecN {
				res.Fail("foreign-unmarshal-error", "caller of command %s (%s) received %d ReplyUnmarshalError replies although only %d of the %d replies produced for its command do not decode with its Result type %v (decoded replies received: %v): a reply that is not its own, or one that does decode, was reported as undecodable; %s", c.id, c.behaviour, c.unmarshal, c.undecN, c.produced, c.undecAt, c.got, spec)
			}
			if !c.selfEnding && c.sendErr == "" {
				switch c.behaviour {
				case "drain", "late-drain":
					// nothing but the caller ends the request, and it does so only after it has read as many replies as were produced
					if c.unmarshal < c.undecN {
						res.Fail("unmarshal-error-not-reported", "caller %s (%s) received %d ReplyUnmarshalError replies, %d of the %d replies produced for its command do not decode with its Result type %v (decoded replies received: %d %v); nothing but the caller could end the listening; %s", c.id, c.behaviour, c.unmarshal, c.undecN, c.produced, c.undecAt, len(c.got), c.got, spec)
					}
					if len(c.got) < c.produced-c.undecN {
						res.Fail("reply-missing", "caller %s (%s) received %d of the %d decodable replies of its command: %v (%d ReplyUnmarshalError, %d time-out replies; nothing but the caller could end the listening); %s", c.id, c.behaviour, len(c.got), c.produced-c.undecN, c.got, c.unmarshal, c.timeouts, spec)
					}
				case "single":
					if c.total() < 1 {
						res.Fail("reply-missing", "SendWithReply for command %s returned neither a reply of its command nor a ReplyUnmarshalError (%d time-out replies; no time-out, no deadline exists); %s", c.id, c.timeouts, spec)
					}
				}
			}
			for _, m := range c.mismatch {
				clause, text, _ := strings.Cut(m, "\x00")
				res.Fail(clause, "%s; caller %s; %s", text, c.behaviour, spec)
			}
			wantStarted := 1
			if c.sendErr != "" {
				wantStarted = started[c.id] // the listener may or may not have been started; what was started has to finish
			}
			if finished[c.id] != started[c.id] || started[c.id] != wantStarted {
				res.Fail("listener-not-finished", "OnListenForReplyFinished ran %d times for command %s (%d listener(s) started; caller behaviour %s: it read %d repl(y/ies); context %s, ended by %s; %d replies produced for the command, %d of them not decodable with the caller's Result type %v) at quiescence, want exactly 1; %s", finished[c.id], c.id, started[c.id], c.behaviour, c.total(), c.ctxKind, c.endBy, c.produced, c.undecN, c.undecAt, spec)
				res.Witness = dump2
			}
		}
		for _, s := range settledEarly {
			res.Fail("settled-before-reply-published", "%s; %s", s, spec)
		}
		// whether the requester can decode a reply is nothing the handler side knows: every delivery is settled as AckCommandErrors says
		for _, cl := range callers {
			for h := 0; h < fanout; h++ {
				for i, cp := range deliveries[hkey(h, cl.id)] {
					o := byDelivery[cp]
					if o == nil {
						continue
					}
					events.Add(1)
					want := "ack"
					if o.hasErr && !ackErrors {
						want = "nack"
					}
					if st := vlib.Settled(cp); st != want {
						res.Fail("command-settlement", "command %s, delivery #%d to handler %d (handler failed=%v, AckCommandErrors=%v, reply made undecodable by %q) is %q at quiescence, want %s (its reply was published); %s", cl.id, i+1, h, o.hasErr, ackErrors, o.undec, st, want, spec)
					}
				}
			}
		}
		mu.Unlock()
		if !res.Failed() {
			if after, dump := vlib.CountGoroutines(listenerLeak); after > leakBefore {
				res.Fail("listener-goroutine-leak", "%d reply-listener goroutine(s) still exist after every request was ended (quiescent); %s", after-leakBefore, spec)
				res.Witness = dump
			}
		}
	}
	// part 2: the reply channels of callers that stopped reading must be closed
	if res.Verdict == "" {
		for _, c := range callers {
			mu.Lock()
			ch, closed := c.ch, c.closed
			mu.Unlock()
			if ch == nil || closed {
				continue
			}
			ended := make(chan struct{})
			go func() {
				for rep := range ch {
					classify(c, rep)
				}
				close(ended)
			}()
			if oc, d := waitT(func() bool { return vlib.IsClosed(ended) }); oc == vlib.Stuck {
				res.Fail("reply-channel-not-closed", "reply channel of command %s (caller %s, context %s, ended by %s) was never closed (quiescent); %s", c.id, c.behaviour, c.ctxKind, c.endBy, spec)
				res.Witness = d
				break
			} else if oc == vlib.Done {
				mu.Lock()
				c.closed = true
				if len(c.foreign) > 0 {
					res.Fail("foreign-reply", "the reply channel of command %s (caller %s) held replies that were produced for other commands: %v; %s", c.id, c.behaviour, c.foreign, spec)
				}
				if c.unmarshal > c.undecN {
					res.Fail("foreign-unmarshal-error", "caller of command %s (%s) found %d ReplyUnmarshalError replies in all although only %d replies of its command do not decode; %s", c.id, c.behaviour, c.unmarshal, c.undecN, spec)
				}
				mu.Unlock()
			}
		}
	}
	res.Count("undec_listeners_ended_by_timeout_or_deadline_while_caller_not_reading", endedByTime)
	teardown()
	return finish()
}
