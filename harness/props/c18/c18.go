// Package c18: request-reply — replies reach only their requester and listeners always finish.
package c18

import (
	"context"
	"errors"
	"fmt"
	"runtime"
	"strings"
	"sync"
	"sync/atomic"
	"time"

	"github.com/ThreeDotsLabs/watermill"
	"github.com/ThreeDotsLabs/watermill/components/cqrs"
	"github.com/ThreeDotsLabs/watermill/components/requestreply"
	"github.com/ThreeDotsLabs/watermill/message"
	"github.com/ThreeDotsLabs/watermill/pubsub/gochannel"

	"verifharness/vlib"
)

// Cmd is the command type of the workload.
type Cmd struct {
	ID    string `json:"id"`
	Fails int    `json:"fails"` // the handler fails this many times before succeeding (99 = always)
}

// Void is a command nobody handles (it is published to a topic without subscriber): no reply ever arrives.
type Void struct {
	ID string `json:"id"`
}

// Res is the handler result.
type Res struct {
	ID      string `json:"id"`
	Attempt int    `json:"attempt"`
}

const wgtFrame = "pubsub/sync.WaitGroupTimeout"

const (
	listenTimeout = 25 * time.Millisecond // ListenForReplyTimeout when configured
	farDeadline   = time.Hour             // caller context deadline far later than the time-out: never fires within a case
	// a context deadline is invisible in goroutine dumps: quiescence is only trusted this long after the last pending one
	deadlineMargin = 40 * time.Millisecond
)

func init() {
	vlib.Register(&vlib.Prop{
		ID:    "C18",
		Level: "exploration",
		Cases: func(tier string) int { return vlib.TierN(tier, 480, 48000) },
		Rule: "each case: one GoChannel, Router, cqrs.CommandProcessor with a requestreply handler and a PubSubBackend whose reply topic is shared by all requests; 1..32 concurrent SendWithReplies / SendWithReply calls; " +
			"handler outcomes per command {result, error, error k times then success (k+1 replies when AckCommandErrors=false), no reply at all (command published to a topic nobody handles)}; in 30% of the cases 2..3 command processors consume the command topic (fan-out: every handler replies, also with AckCommandErrors=true a command then has several replies; <=16 requests then); AckCommandErrors on/off; optional ListenForReplyTimeout (25 ms); " +
			"caller behaviours {drain then end, late-drain: read nothing until every reply of the case has been produced and the process is quiescent - the listener is then parked on its full reply channel with further replies queued behind it - and only then read everything, read one and end late, never read then end, end right away, SendWithReply}; " +
			"caller context {no deadline, deadline 1 h (far later than ListenForReplyTimeout), deadline 3..12 ms (sooner than ListenForReplyTimeout)}; the request is ended by {the cancel function, cancelling the caller's own context, nothing at all: the caller relies on ListenForReplyTimeout / its context deadline - always so for callers that stopped reading when one of the two exists, half of the draining callers}; yield injection at the listener/router/gochannel hook points. " +
			"Oracle: every reply a caller receives carries its own command id (result id or error text); a caller that reads until it has them (promptly or late) gets every reply produced for its command as long as neither a time-out nor a context deadline can end the listening first (reply-missing / reply-lost-while-not-reading when it waits for ever at quiescence); the command message is unsettled when its reply is published and afterwards settled as AckCommandErrors says; " +
			"after cancel / cancellation of the caller's context (or, when ListenForReplyTimeout is configured or the caller's context has a near deadline, after that alone: such callers never end the request themselves; a reading caller must then see the channel closed - timeout-not-honoured / context-end-not-honoured when it reads for ever at quiescence, the 1 h deadline still pending) and at quiescence OnListenForReplyFinished ran exactly once per request and no listener goroutine remains - checked before the harness touches the reply channel of callers that stopped reading - and then the reply channel is observed closed. " +
			"Non-trivial: >=2 concurrent requests shared the reply topic, or a caller stopped reading with replies pending. Distinct = (program shape incl. per-caller behaviour/context/ending, hook fingerprint).",
		Assumptions: []string{
			"replies after cancel/timeout may be ReplyTimeoutError values; they are not attributed to a command",
			"quiescence is judged only after every pending context deadline below 10 min has passed by 40 ms (context deadlines are invisible in goroutine dumps); the deadlines are read at the boundary: from the context the backend hands to the reply subscriber's Subscribe and from the caller contexts the harness creates; the 1 h deadline never fires within a case, so 'still listening at quiescence' is final",
			"reply completeness is demanded only when neither ListenForReplyTimeout nor a near context deadline is in play (under load those may legitimately end the listening before a reply arrives)",
			"GoChannel may reorder the replies of one command: a late-draining caller counts replies, it does not stop at the successful one",
		},
		Run: run,
	})
}

type caller struct {
	id         string
	fails      int
	replyFault bool   // the first Publish of a reply for this command is rejected by the reply publisher
	behaviour  string // drain | late-drain | one-late | never-read | cancel-now | single
	ctxKind    string // plain (no deadline) | far (deadline 1 h) | near (deadline sooner than ListenForReplyTimeout)
	nearD      time.Duration
	endBy      string // cancel (the returned cancel function) | parent (the caller's own context is cancelled) | rely (nothing: time-out / deadline must end it)
	noReply    bool   // Void command: nobody handles it
	selfEnding bool   // ListenForReplyTimeout or a near context deadline ends the listening without the caller
	endCalled  bool   // the caller has ended the request (cancel function / its context)
	expect     int    // replies the handler will produce
	got        []string
	foreign    []string
	timeouts   int
	closed     bool
	sendErr    string
	ch         <-chan requestreply.Reply[Res]
	cancel     func()
	cancelCtx  func()
	done       chan struct{}
}

func run(e *vlib.Env) vlib.Result {
	r := e.R
	id := e.ID()
	n := r.Range(1, 32)
	ackErrors := r.Bool()
	useTimeout := r.Chance(0.2)
	useOnHandle := r.Bool()
	yieldP := []float64{0, 0.3, 0.6}[r.Intn(3)]
	timeout := listenTimeout
	// fan-out: several command processors consume the command topic, every one of them handles (and replies to) each command
	fanout := 1
	if r.Chance(0.3) {
		fanout = r.Range(2, 3)
		if n > 16 {
			n = 16 // every listener sees every reply of the case: keep the quadratic traffic bounded
		}
	}
	spec := fmt.Sprintf("requests=%d ackCommandErrors=%v listenTimeout=%v onHandle=%v yield=%.1f handlers=%d", n, ackErrors, useTimeout, useOnHandle, yieldP, fanout)
	res := vlib.Result{Class: fmt.Sprintf("ackErrors=%v/timeout=%v", ackErrors, useTimeout), Spec: spec}
	wo := vlib.WaitOpts{Watchdog: 40 * time.Second, NoTimerCheck: []string{wgtFrame}}

	ctl := vlib.NewCtl(r.Uint64(), yieldP, 60)
	defer ctl.Uninstall()
	listenerLeak := func(g vlib.Goroutine) bool {
		return g.Has("requestreply.PubSubBackend") && g.Has("ListenForNotifications")
	}
	leakBefore, _ := vlib.CountGoroutines(listenerLeak)

	logger := watermill.NopLogger{}
	ps := gochannel.NewGoChannel(gochannel.Config{}, logger)
	var mu sync.Mutex
	finished := map[string]int{}                        // command id -> OnListenForReplyFinished calls
	deliveries := map[string][]*message.Message{}       // handler#command id -> the command messages handed to that handler, in order
	notifCmd := map[*message.Message]*message.Message{} // reply notification -> the command delivery it answers
	cmdOf := map[string]string{}                        // operation id -> command id
	var settledEarly []string
	handlerCalls := map[string]int{} // handler#command id -> calls
	hkey := func(h int, cmd string) string { return fmt.Sprintf("%d#%s", h, cmd) }
	var events atomic.Int64
	runaway := make(chan struct{})
	var runawayOnce sync.Once
	var runawayCmd atomic.Pointer[string]
	defer runawayOnce.Do(func() { close(runaway) })

	// Pending context deadlines (invisible to the quiescence detector): the latest one below 10 min, read at the boundary.
	var deadlineMax time.Time
	noteDeadline := func(ctx context.Context) {
		if d, ok := ctx.Deadline(); ok && time.Until(d) < 10*time.Minute {
			mu.Lock()
			if d.After(deadlineMax) {
				deadlineMax = d
			}
			mu.Unlock()
		}
	}
	deadlineBound := func() time.Time {
		mu.Lock()
		defer mu.Unlock()
		if deadlineMax.IsZero() {
			return time.Time{}
		}
		return deadlineMax.Add(deadlineMargin)
	}
	// waitT: WaitUntil that trusts "stuck" only after every deadline known by then has passed
	waitT := func(cond func() bool) (vlib.Outcome, string) {
		for {
			o := wo
			o.NotBefore = deadlineBound()
			oc, d := vlib.WaitUntil(cond, o)
			if oc != vlib.Stuck {
				return oc, d
			}
			if b := deadlineBound(); b.IsZero() || time.Now().After(b) {
				return oc, d
			}
		}
	}

	replyFaults := map[string]bool{}    // command id -> reject its first reply publish
	replyFaultFired := map[string]int{} // command id -> rejected reply publishes so far
	failedCopies := map[*message.Message]bool{}
	replyPub := &samplingPub{inner: ps, before: func(msgs []*message.Message) error {
		mu.Lock()
		defer mu.Unlock()
		for _, m := range msgs {
			op := m.Metadata.Get(requestreply.OperationIDMetadataKey)
			c := cmdOf[op]
			if replyFaults[c] && replyFaultFired[c] == 0 {
				replyFaultFired[c]++
				if cm := notifCmd[m]; cm != nil {
					failedCopies[cm] = true
				}
				return errors.New("scripted reply publisher failure")
			}
		}
		return nil
	}, after: func(msgs []*message.Message) {
		mu.Lock()
		defer mu.Unlock()
		for _, m := range msgs {
			op := m.Metadata.Get(requestreply.OperationIDMetadataKey)
			if cm := notifCmd[m]; cm != nil {
				events.Add(1)
				if st := vlib.Settled(cm); st != "" {
					settledEarly = append(settledEarly, fmt.Sprintf("command %s was already %sed when the Publish of its reply returned", cmdOf[op], st))
				}
			}
		}
	}}
	bcfg := requestreply.PubSubBackendConfig{
		Publisher: replyPub,
		SubscriberConstructor: func(requestreply.PubSubBackendSubscribeParams) (message.Subscriber, error) {
			return &deadlineSub{inner: ps, note: noteDeadline}, nil
		},
		GenerateSubscribeTopic: func(requestreply.PubSubBackendSubscribeParams) (string, error) { return id + "/reply", nil },
		GeneratePublishTopic:   func(requestreply.PubSubBackendPublishParams) (string, error) { return id + "/reply", nil },
		Logger:                 logger,
		AckCommandErrors:       ackErrors,
		ModifyNotificationMessage: func(msg *message.Message, p requestreply.PubSubBackendOnCommandProcessedParams) error {
			mu.Lock()
			notifCmd[msg] = p.CommandMessage
			if c, ok := p.Command.(*Cmd); ok {
				cmdOf[string(p.OperationID)] = c.ID
			}
			mu.Unlock()
			return nil
		},
		OnListenForReplyFinished: func(ctx context.Context, p requestreply.PubSubBackendSubscribeParams) {
			cid := ""
			switch c := p.Command.(type) {
			case *Cmd:
				cid = c.ID
			case *Void:
				cid = c.ID
			}
			if cid != "" {
				mu.Lock()
				finished[cid]++
				mu.Unlock()
			}
		},
	}
	if useTimeout {
		bcfg.ListenForReplyTimeout = &timeout
	}
	backend, err := requestreply.NewPubSubBackend[Res](bcfg, requestreply.BackendPubsubJSONMarshaler[Res]{})
	if err != nil {
		res.Verdict, res.Reason = vlib.HarnessError, err.Error()
		return res
	}
	router, _ := message.NewRouter(message.RouterConfig{CloseTimeout: time.Hour}, logger)
	marshaler := cqrs.JSONMarshaler{}
	bus, err := cqrs.NewCommandBusWithConfig(ps, cqrs.CommandBusConfig{
		GeneratePublishTopic: func(p cqrs.CommandBusGeneratePublishTopicParams) (string, error) {
			if _, void := p.Command.(*Void); void {
				return id + "/nobody-listens", nil
			}
			return id + "/commands", nil
		},
		Marshaler: marshaler, Logger: logger,
	})
	if err != nil {
		res.Verdict, res.Reason = vlib.HarnessError, err.Error()
		return res
	}
	var onHandle cqrs.CommandProcessorOnHandleFn
	if useOnHandle {
		// the documented pass-through form
		onHandle = func(params cqrs.CommandProcessorOnHandleParams) error {
			return params.Handler.Handle(params.Message.Context(), params.Command)
		}
	}
	for h := 0; h < fanout; h++ {
		h := h
		proc, err := cqrs.NewCommandProcessorWithConfig(router, cqrs.CommandProcessorConfig{
			GenerateSubscribeTopic: func(cqrs.CommandProcessorGenerateSubscribeTopicParams) (string, error) { return id + "/commands", nil },
			SubscriberConstructor:  func(cqrs.CommandProcessorSubscriberConstructorParams) (message.Subscriber, error) { return ps, nil },
			Marshaler:              marshaler, Logger: logger,
			OnHandle: onHandle,
		})
		if err != nil {
			res.Verdict, res.Reason = vlib.HarnessError, err.Error()
			return res
		}
		err = proc.AddHandlers(requestreply.NewCommandHandlerWithResult[Cmd, Res](fmt.Sprintf("%s/handler%d", id, h), backend, func(ctx context.Context, c *Cmd) (Res, error) {
			orig := cqrs.OriginalMessageFromCtx(ctx)
			mu.Lock()
			k := hkey(h, c.ID)
			handlerCalls[k]++
			att := handlerCalls[k]
			if orig != nil {
				deliveries[k] = append(deliveries[k], orig)
			}
			mu.Unlock()
			events.Add(1)
			if att > 60 {
				// no script redelivers a command that often: a redelivery loop (it would never become quiescent)
				id := c.ID
				runawayOnce.Do(func() { runawayCmd.Store(&id); close(runaway) })
			}
			if att <= c.Fails {
				return Res{ID: c.ID, Attempt: att}, fmt.Errorf("handler failed for %s attempt %d", c.ID, att)
			}
			return Res{ID: c.ID, Attempt: att}, nil
		}))
		if err != nil {
			res.Verdict, res.Reason = vlib.HarnessError, err.Error()
			return res
		}
	}
	runDone := make(chan struct{})
	go func() { defer close(runDone); router.Run(context.Background()) }()
	go func() {
		// end a redelivery loop at once (the case is then judged as a violation below)
		<-runaway
		if runawayCmd.Load() != nil {
			router.Close()
			ps.Close()
		}
	}()
	if oc, _ := vlib.WaitClosed(router.Running(), wo); oc != vlib.Done {
		res.Inconclusive("router did not start")
		return res
	}

	// callers
	behaviours := []string{"drain", "drain", "late-drain", "late-drain", "one-late", "never-read", "cancel-now", "single"}
	callers := make([]*caller, n)
	stoppedReading := 0
	for i := range callers {
		c := &caller{id: fmt.Sprintf("%s/c%d", id, i), behaviour: behaviours[r.Intn(len(behaviours))], done: make(chan struct{})}
		switch r.Intn(4) {
		case 0:
			c.fails = 0
		case 1:
			c.fails = r.Range(1, 3)
		case 2:
			c.fails = 1
		default:
			c.fails = 0
		}
		if ackErrors {
			// an error is acked: exactly one reply per handler whatever the outcome
			c.expect = fanout
		} else {
			c.expect = fanout * (c.fails + 1)
		}
		if c.fails == 0 && fanout == 1 && r.Chance(0.25) {
			// the reply publisher rejects the first reply: the command must be nacked and redelivered, the second reply arrives
			c.replyFault = true
			replyFaults[c.id] = true
		}
		// the caller's context
		switch x := r.Intn(20); {
		case x < 9:
			c.ctxKind = "plain"
		case x < 16:
			c.ctxKind = "far"
		default:
			c.ctxKind = "near"
			c.nearD = time.Duration(r.Range(3, 12)) * time.Millisecond
		}
		c.selfEnding = useTimeout || c.ctxKind == "near"
		// nobody handles the command: no reply ever arrives
		if r.Chance(0.08) {
			c.noReply = true
			c.fails, c.expect, c.replyFault = 0, 0, false
			delete(replyFaults, c.id)
		}
		// what ends the request
		c.endBy = "cancel"
		if r.Chance(0.35) {
			c.endBy = "parent"
		}
		switch c.behaviour {
		case "late-drain", "one-late", "never-read":
			stoppedReading++
			if c.selfEnding {
				// a caller that stopped reading does nothing at all any more: the time-out / its deadline has to end the listening
				c.endBy = "rely"
			}
			if c.behaviour == "late-drain" && c.selfEnding && r.Bool() {
				c.endBy = []string{"cancel", "parent"}[r.Intn(2)]
			}
		case "drain":
			if c.selfEnding && r.Bool() {
				c.endBy = "rely"
			}
		case "single":
			// SendWithReply hides the cancel function: without a reply only the time-out or the caller's context ends it
			c.endBy = "rely"
			if c.noReply && !c.selfEnding {
				c.endBy = "parent"
			}
		}
		callers[i] = c
	}
	lateCancel := make(chan struct{}) // closed by the harness once every command has been fully handled
	classify := func(c *caller, rep requestreply.Reply[Res]) {
		events.Add(1)
		mu.Lock()
		defer mu.Unlock()
		var te requestreply.ReplyTimeoutError
		if rep.Error != nil && errors.As(rep.Error, &te) {
			c.timeouts++
			return
		}
		desc := ""
		own := false
		if rep.Error != nil {
			desc = "error:" + rep.Error.Error()
			own = strings.Contains(rep.Error.Error(), " "+c.id+" ")
		} else {
			desc = "result:" + rep.HandlerResult.ID
			own = rep.HandlerResult.ID == c.id
		}
		// a reply carries the result even with an error: both must name this caller's command
		if rep.HandlerResult.ID != "" && rep.HandlerResult.ID != c.id {
			own = false
		}
		if own {
			c.got = append(c.got, desc)
		} else {
			c.foreign = append(c.foreign, desc)
		}
	}
	for _, c := range callers {
		go func(c *caller) {
			defer close(c.done)
			// the caller's own context is never cancelled before the judgement unless that is how this caller ends its request: a caller
			// that stopped reading and relies on ListenForReplyTimeout / its deadline does nothing at all any more (released at teardown)
			var ctx context.Context
			var cancelCtx context.CancelFunc
			switch c.ctxKind {
			case "far":
				ctx, cancelCtx = context.WithTimeout(context.Background(), farDeadline)
			case "near":
				ctx, cancelCtx = context.WithTimeout(context.Background(), c.nearD)
				noteDeadline(ctx)
			default:
				ctx, cancelCtx = context.WithCancel(context.Background())
			}
			mu.Lock()
			c.cancelCtx = cancelCtx
			mu.Unlock()
			var cmd any = &Cmd{ID: c.id, Fails: c.fails}
			if c.noReply {
				cmd = &Void{ID: c.id}
			}
			if c.behaviour == "single" {
				if c.endBy == "parent" {
					go func() {
						select {
						case <-lateCancel:
							mu.Lock()
							c.endCalled = true
							mu.Unlock()
							cancelCtx()
						case <-c.done:
						}
					}()
				}
				rep, err := requestreply.SendWithReply[Res](ctx, bus, backend, cmd)
				if err != nil {
					mu.Lock()
					c.sendErr = err.Error()
					mu.Unlock()
					return
				}
				classify(c, rep)
				mu.Lock()
				c.closed = true // SendWithReply cancels by itself; the channel is not visible
				mu.Unlock()
				return
			}
			ch, cancel, err := requestreply.SendWithReplies[Res](ctx, bus, backend, cmd)
			if err != nil {
				mu.Lock()
				c.sendErr = err.Error()
				mu.Unlock()
				return
			}
			mu.Lock()
			c.ch, c.cancel = ch, cancel
			mu.Unlock()
			end := func() {
				mu.Lock()
				c.endCalled = true
				mu.Unlock()
				switch c.endBy {
				case "cancel":
					cancel()
				case "parent":
					cancelCtx()
				}
			}
			setClosed := func() {
				mu.Lock()
				c.closed = true
				mu.Unlock()
			}
			switch c.behaviour {
			case "drain", "late-drain":
				if c.behaviour == "late-drain" {
					// not reading while the replies arrive: the first one sits in the channel, the listener is parked with the
					// second one, the others wait behind it
					<-lateCancel
				}
				for len(c.got)+len(c.foreign) < c.expect {
					rep, ok := <-ch
					if !ok {
						setClosed()
						return
					}
					classify(c, rep)
				}
				end()
				for rep := range ch {
					classify(c, rep)
				}
				setClosed()
			case "one-late":
				select {
				case rep, ok := <-ch:
					if ok {
						classify(c, rep)
					}
				case <-lateCancel:
				}
				<-lateCancel
				end()
			case "never-read":
				<-lateCancel
				end()
			case "cancel-now":
				end()
				for rep := range ch {
					classify(c, rep)
				}
				setClosed()
			}
		}(c)
	}
	// wait until every command has been handled as often as it will be (or nothing moves any more)
	allHandled := func() bool {
		mu.Lock()
		defer mu.Unlock()
		for _, c := range callers {
			want := 1
			if !ackErrors {
				want = c.fails + 1
			}
			if c.replyFault {
				want++
			}
			if c.noReply {
				want = 0
			}
			for h := 0; h < fanout; h++ {
				if handlerCalls[hkey(h, c.id)] < want {
					return false
				}
			}
		}
		return true
	}
	waitT(func() bool { return allHandled() || runawayCmd.Load() != nil })
	// let everything settle - unless a redelivery loop shows up (it never settles)
	waitT(func() bool { return runawayCmd.Load() != nil })
	if c := runawayCmd.Load(); c != nil {
		mu.Lock()
		calls := 0
		for h := 0; h < fanout; h++ {
			if handlerCalls[hkey(h, *c)] > calls {
				calls = handlerCalls[hkey(h, *c)]
			}
		}
		mu.Unlock()
		res.Fail("runaway-redelivery", "command %s was handed to the handler %d times and is still being redelivered (no script nacks a command that often); %s", *c, calls, spec)
		close(lateCancel)
		mu.Lock()
		for _, c := range callers {
			if c.cancelCtx != nil {
				c.cancelCtx()
			}
		}
		mu.Unlock()
		vlib.WaitClosed(runDone, wo)
		res.Events = int(events.Load())
		res.NonTrivial = true
		res.Sig = vlib.Sig(spec, "runaway")
		return res
	}
	// which listeners are parked on a full reply channel right now (quiescent: every reply of the case has been produced)?
	parkedUnread, lateMulti := 0, 0
	mu.Lock()
	for _, c := range callers {
		if (c.behaviour == "late-drain" || c.behaviour == "never-read") && c.expect >= 2 {
			parkedUnread++
		}
		if c.behaviour == "late-drain" && !c.selfEnding && c.expect >= 3 {
			lateMulti++
		}
	}
	mu.Unlock()
	close(lateCancel)
	allDone := make(chan struct{})
	go func() {
		for _, c := range callers {
			<-c.done
		}
		close(allDone)
	}()
	if oc, d := waitT(func() bool { return vlib.IsClosed(allDone) }); oc == vlib.Stuck {
		mu.Lock()
		for _, c := range callers {
			if vlib.IsClosed(c.done) {
				continue
			}
			reading := c.behaviour == "drain" || c.behaviour == "late-drain" || c.behaviour == "cancel-now" || c.behaviour == "single"
			switch {
			case c.behaviour == "late-drain" && !c.selfEnding && len(c.got)+len(c.foreign) < c.expect:
				res.Fail("reply-lost-while-not-reading", "caller %s read nothing while the %d replies of its command were produced, then drained: it received %d of them %v and waits for the rest for ever (quiescent; no time-out, no deadline, not cancelled); %s", c.id, c.expect, len(c.got), c.got, spec)
			case reading && c.endBy == "rely" && useTimeout && c.ctxKind != "near":
				res.Fail("timeout-not-honoured", "caller %s (%s, context %s) relies on ListenForReplyTimeout=%s: the time-out passed long ago and the reply channel is still open / SendWithReply has not returned (quiescent); %s", c.id, c.behaviour, c.ctxKind, timeout, spec)
			case reading && ((c.endBy == "parent" && c.endCalled) || (c.endBy == "rely" && c.ctxKind == "near")):
				res.Fail("context-end-not-honoured", "caller %s (%s): its context ended (%s) but the reply channel is still open / SendWithReply has not returned (quiescent); %s", c.id, c.behaviour, map[bool]string{true: "deadline " + c.nearD.String(), false: "cancelled"}[c.ctxKind == "near"], spec)
			default:
				res.Fail("caller-stuck", "caller %s (%s, ended by %s) that drains its reply channel never saw it closed / never got its replies: %d of %d (quiescent): %s", c.id, c.behaviour, c.endBy, len(c.got), c.expect, spec)
			}
		}
		mu.Unlock()
		res.Witness = d
	} else if oc == vlib.Inconclusive {
		res.Inconclusive("callers neither finished nor quiescent")
	}
	if oc, _ := waitT(func() bool { return false }); oc == vlib.Inconclusive {
		res.Inconclusive("not quiescent")
	}

	// judgement, part 1: before touching the channels of callers that stopped reading
	readLate, relyFar := 0, 0
	if res.Verdict == "" {
		mu.Lock()
		for _, c := range callers {
			ctxMayEnd := c.ctxKind == "near" || (c.behaviour == "single" && c.endBy == "parent")
			if c.sendErr != "" && !(ctxMayEnd && strings.Contains(c.sendErr, "context")) {
				res.Fail("send-error", "SendWithReplies failed: %s (%s)", c.sendErr, spec)
			}
			if len(c.foreign) > 0 {
				res.Fail("foreign-reply", "caller of command %s received replies that do not belong to it: %v (own: %v); %s", c.id, c.foreign, c.got, spec)
			}
			// with ListenForReplyTimeout or a near deadline the listening may legitimately end before the last reply (slow machine):
			// completeness is demanded only when nothing but the caller itself ends the request - and these callers do so only
			// after they have got everything
			want := c.expect
			if c.behaviour == "single" && want > 1 {
				want = 1
			}
			if !c.selfEnding && (c.behaviour == "drain" || c.behaviour == "late-drain" || c.behaviour == "single") && len(c.got) < want {
				res.Fail("reply-missing", "caller %s (%s) received %d of %d expected replies: %v (%d time-out replies; nothing but the caller could end the listening); %s", c.id, c.behaviour, len(c.got), want, c.got, c.timeouts, spec)
			}
			if c.behaviour == "late-drain" {
				readLate += len(c.got)
			}
			if c.endBy == "rely" && useTimeout && c.ctxKind == "far" {
				relyFar++
			}
			if finished[c.id] != 1 {
				res.Fail("listener-not-finished", "OnListenForReplyFinished ran %d times for command %s (caller behaviour %s, context %s, ended by %s, %d replies produced) at quiescence, want exactly 1; %s", finished[c.id], c.id, c.behaviour, c.ctxKind, c.endBy, c.expect, spec)
			}
		}
		for _, s := range settledEarly {
			res.Fail("settled-before-reply-published", "%s; %s", s, spec)
		}
		for _, cl := range callers {
			for h := 0; h < fanout && !cl.noReply; h++ {
				c := cl.id
				calls := handlerCalls[hkey(h, c)]
				copies := deliveries[hkey(h, c)]
				if len(copies) == 0 {
					continue
				}
				// the outcome of the last delivery to this handler decides the expected final settlement
				st := vlib.Settled(copies[len(copies)-1])
				events.Add(1)
				if ackErrors {
					// handler errors are acked: no redelivery, so exactly one handler call and no nacked delivery
					wantCalls := 1
					if cl.replyFault {
						wantCalls = 2
					}
					if calls != wantCalls {
						res.Fail("command-settlement", "command %s: AckCommandErrors=true, %d reply publish failure(s): handler %d ran %d times, want %d; %s", c, wantCalls-1, h, calls, wantCalls, spec)
					}
					for i, cp := range copies {
						if s := vlib.Settled(cp); s != "ack" && !failedCopies[cp] {
							res.Fail("command-settlement", "command %s: AckCommandErrors=true but delivery #%d of the command to handler %d is %q; %s", c, i+1, h, s, spec)
						}
					}
				}
				// a delivery whose reply could not be published must never be acked ("only after the reply was published")
				for i, cp := range copies {
					if failedCopies[cp] && vlib.Settled(cp) == "ack" {
						res.Fail("acked-without-reply", "command %s: delivery #%d was acked although the Publish of its reply failed; %s", c, i+1, spec)
					}
				}
				wantAck := ackErrors || calls > cl.fails
				if wantAck && st != "ack" {
					res.Fail("command-settlement", "command %s: last delivery to handler %d is %q, want ack (AckCommandErrors=%v, handler calls %d, fails %d); %s", c, h, st, ackErrors, calls, cl.fails, spec)
				}
				if !wantAck && st != "nack" {
					res.Fail("command-settlement", "command %s: last delivery to handler %d is %q, want nack; %s", c, h, st, spec)
				}
			}
		}
		mu.Unlock()
		if !res.Failed() {
			if after, dump := vlib.CountGoroutines(listenerLeak); after > leakBefore {
				res.Fail("listener-goroutine-leak", "%d reply-listener goroutine(s) still exist after every request was cancelled (quiescent); %s", after-leakBefore, spec)
				res.Witness = dump
			}
		}
	}
	// part 2: the reply channels of callers that stopped reading must be closed
	if res.Verdict == "" {
		for _, c := range callers {
			mu.Lock()
			ch, closed := c.ch, c.closed
			mu.Unlock()
			if ch == nil || closed {
				continue
			}
			ended := make(chan struct{})
			go func() {
				for range ch {
				}
				close(ended)
			}()
			if oc, d := waitT(func() bool { return vlib.IsClosed(ended) }); oc == vlib.Stuck {
				res.Fail("reply-channel-not-closed", "reply channel of command %s (caller %s, context %s, ended by %s) was never closed (quiescent); %s", c.id, c.behaviour, c.ctxKind, c.endBy, spec)
				res.Witness = d
				break
			}
		}
	}
	// teardown
	mu.Lock()
	for _, c := range callers {
		if c.cancel != nil {
			c.cancel()
		}
		if c.cancelCtx != nil {
			c.cancelCtx()
		}
	}
	mu.Unlock()
	cd := make(chan struct{})
	go func() { router.Close(); ps.Close(); close(cd) }()
	vlib.WaitClosed(cd, wo)
	vlib.WaitClosed(runDone, wo)
	for k := 0; k < 3; k++ {
		runtime.Gosched()
	}
	res.Events = int(events.Load())
	res.Hooks = ctl.Counts()
	res.Count("requests", n)
	if fanout > 1 {
		res.Count("fanout_cases", 1)
	}
	res.Count("callers_that_stopped_reading", stoppedReading)
	res.Count("listeners_parked_on_full_channel", parkedUnread)
	res.Count("late_drainers_with_3plus_replies", lateMulti)
	res.Count("replies_read_late", readLate)
	res.Count("relying_on_timeout_with_far_deadline", relyFar)
	kinds := map[string]int{}
	for _, c := range callers {
		kinds["ctx_"+c.ctxKind]++
		kinds["end_by_"+c.endBy]++
		if c.noReply {
			kinds["no_reply_requests"]++
		}
	}
	for k, v := range kinds {
		res.Count(k, v)
	}
	res.NonTrivial = n >= 2 || stoppedReading > 0
	shape := spec
	for _, c := range callers {
		shape += fmt.Sprintf("|%s:%d:%s:%s:%v", c.behaviour, c.fails, c.ctxKind, c.endBy, c.noReply)
	}
	res.Sig = vlib.Sig(shape, ctl.Fingerprint())
	res.Sample = map[string]any{"spec": spec, "callers": len(callers), "stopped_reading": stoppedReading, "late_drainers_with_3plus_replies": lateMulti, "relying_on_timeout_with_far_deadline": relyFar}
	return res
}

// deadlineSub is the reply subscriber handed to the backend: it notes the deadline of the context the listener subscribes with.
type deadlineSub struct {
	inner message.Subscriber
	note  func(context.Context)
}

func (d *deadlineSub) Subscribe(ctx context.Context, topic string) (<-chan *message.Message, error) {
	d.note(ctx)
	return d.inner.Subscribe(ctx, topic)
}

func (d *deadlineSub) Close() error { return nil }

type samplingPub struct {
	inner  message.Publisher
	before func([]*message.Message) error
	after  func([]*message.Message)
}

func (p *samplingPub) Publish(topic string, msgs ...*message.Message) error {
	if p.before != nil {
		if err := p.before(msgs); err != nil {
			return err
		}
	}
	err := p.inner.Publish(topic, msgs...)
	p.after(msgs)
	return err
}

func (p *samplingPub) Close() error { return nil }
