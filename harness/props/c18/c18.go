// Package c18: request-reply — replies reach only their requester and listeners always finish.
package c18

import (
	"context"
	"errors"
	"fmt"
	"io"
	"os"
	"runtime"
	"strings"
	"sync"
	"sync/atomic"
	"time"

	"github.com/ThreeDotsLabs/watermill"
	"github.com/ThreeDotsLabs/watermill/components/cqrs"
	"github.com/ThreeDotsLabs/watermill/components/requestreply"
	"github.com/ThreeDotsLabs/watermill/message"
	"github.com/ThreeDotsLabs/watermill/pubsub/gochannel"
	pkgerrors "github.com/pkg/errors"

	"verifharness/vlib"
)

// Cmd is the command type of the workload.
type Cmd struct {
	ID      string `json:"id"`
	Fails   int    `json:"fails"`    // the handler fails this many times before succeeding (99 = always)
	ErrKind string `json:"err_kind"` // which error value the handler returns when it fails (see handlerError)
	ErrLen  int    `json:"err_len"`  // length of the "long" error text
	ErrText string `json:"err_text,omitempty"` // the text of the "hostile" error kind (see hostileText)
	ZeroRes bool   `json:"zero_res"` // the handler returns the zero Res (with and without an error)
}

// Bad is a command that cannot be marshalled (JSON has no encoding for a func): sending it always fails.
type Bad struct {
	ID string `json:"id"`
	F  func() `json:"f"`
}

func (c *Cmd) cmdID() string  { return c.ID }
func (c *Void) cmdID() string { return c.ID }
func (c *Bad) cmdID() string  { return c.ID }

// emptyErr is an error type whose text is empty (a status/sentinel type without message).
type emptyErr struct{ code int }

func (emptyErr) Error() string { return "" }

// error values a failing handler returns
var errKinds = []string{"named", "named", "named", "named", "empty", "empty", "typed-empty", "space", "blank", "long", "one", "true", "zero"}

// Error VALUES a failing handler returns (dimension "error values", drawn from its own PRNG stream): what the error is - which
// sentinel it is or wraps, what its Is / Unwrap / Timeout methods say, whether it is a typed nil pointer - must not matter: the
// handler returned a non-nil error, so one reply with that error text is published for the invocation and the command is settled
// as AckCommandErrors says. The command message's context is alive in every one of these cases.
var errValueKinds = []string{
	"ctx-canceled", "wrap-ctx-canceled", "wrap-ctx-canceled", "pkg-wrap-ctx-canceled", "joined-ctx-canceled", "empty-wrap-ctx-canceled",
	"ctx-deadline", "wrap-ctx-deadline", "os-deadline", "io-eof", "wrap-io-eof", "wrap-closed-pipe",
	"is-anything", "is-anything", "as-anything", "typed-nil", "reply-timeout-value", "reply-unmarshal-value", "handler-error-value",
}

// isAnything claims to be every error (an over-eager Is method).
type isAnything struct{ text string }

func (e isAnything) Error() string { return e.text }
func (isAnything) Is(error) bool   { return true }
func (isAnything) Timeout() bool   { return true }
func (isAnything) Temporary() bool { return true }
func (e isAnything) Unwrap() []error {
	return []error{context.Canceled, context.DeadlineExceeded, io.EOF}
}

// silentWrap wraps an error and has an empty text.
type silentWrap struct{ inner error }

func (silentWrap) Error() string   { return "" }
func (e silentWrap) Unwrap() error { return e.inner }

// ptrErr is an error type with pointer receiver: a typed nil pointer of it is a non-nil error.
type ptrErr struct{ text string }

func (e *ptrErr) Error() string {
	if e == nil {
		return "typed nil error"
	}
	return e.text
}

// asAnything lets errors.As fill in a context / time-out flavoured target.
type asAnything struct{ text string }

func (e asAnything) Error() string { return e.text }
func (e asAnything) As(target any) bool {
	switch t := target.(type) {
	case *requestreply.ReplyTimeoutError:
		*t = requestreply.ReplyTimeoutError{Err: context.Canceled}
		return true
	case *requestreply.ReplyUnmarshalError:
		*t = requestreply.ReplyUnmarshalError{Err: io.EOF}
		return true
	}
	return false
}

func handlerErrorValue(c *Cmd, att int) error {
	text := fmt.Sprintf("handler failed for %s attempt %d", c.ID, att)
	switch c.ErrKind {
	case "ctx-canceled":
		return context.Canceled
	case "wrap-ctx-canceled":
		return fmt.Errorf("%s : stock lookup gave up: %w", text, context.Canceled)
	case "pkg-wrap-ctx-canceled":
		return pkgerrors.Wrap(context.Canceled, text+" ")
	case "joined-ctx-canceled":
		return errors.Join(errors.New(text+" "), context.Canceled, io.ErrUnexpectedEOF)
	case "empty-wrap-ctx-canceled":
		return silentWrap{inner: context.Canceled}
	case "ctx-deadline":
		return context.DeadlineExceeded
	case "wrap-ctx-deadline":
		return fmt.Errorf("%s : downstream call: %w", text, context.DeadlineExceeded)
	case "os-deadline":
		return fmt.Errorf("%s : %w", text, os.ErrDeadlineExceeded)
	case "io-eof":
		return io.EOF
	case "wrap-io-eof":
		return fmt.Errorf("%s : reading the body: %w", text, io.EOF)
	case "wrap-closed-pipe":
		return fmt.Errorf("%s : %w", text, io.ErrClosedPipe)
	case "is-anything":
		return isAnything{text: text + " (claims to be every error)"}
	case "as-anything":
		return asAnything{text: text + " (fills every errors.As target)"}
	case "typed-nil":
		return (*ptrErr)(nil)
	case "reply-timeout-value":
		// what a handler that made a request of its own may pass on
		return requestreply.ReplyTimeoutError{Duration: time.Second, Err: fmt.Errorf("%s : %w", text, context.Canceled)}
	case "reply-unmarshal-value":
		return requestreply.ReplyUnmarshalError{Err: errors.New(text + " ")}
	case "handler-error-value":
		return requestreply.CommandHandlerError{Err: fmt.Errorf("%s : %w", text, context.Canceled)}
	}
	return nil
}

func handlerError(c *Cmd, att int) error {
	if e := handlerErrorValue(c, att); e != nil {
		return e
	}
	switch c.ErrKind {
	case "empty":
		return errors.New("")
	case "typed-empty":
		return emptyErr{code: att}
	case "space":
		return errors.New(" ")
	case "blank":
		return errors.New(" \t\n")
	case "long":
		return fmt.Errorf("%s handler failed for %s attempt %d", strings.Repeat("e", c.ErrLen), c.ID, att)
	case "one": // the value of the has-error flag
		return errors.New("1")
	case "true":
		return errors.New("true")
	case "zero": // the value of the has-error flag of a success
		return errors.New("0")
	case "hostile": // text some layer between handler and caller might re-interpret; it is data, the caller must get it verbatim
		return errors.New(c.ErrText)
	}
	return fmt.Errorf("handler failed for %s attempt %d", c.ID, att)
}

// Fragments of error texts that a layer between the handler and the caller could re-interpret instead of carrying them as data:
// printf verbs and what fmt prints for a bad verb, url-escapes, SQL LIKE patterns, template / shell placeholders, escapes written
// out, entities, header separators, quotes. Real handler errors contain such text ("disk 100% full", a quoted URL, a query,
// text that embeds the output of another formatter).
var reinterpretable = []string{
	"%", "%%", "%s", "%d", "%v", "%+v", "%w", "%q", "%x", "%T", "%[1]s", "%[2]d", "%-8.3f", "%*d", "%!", "%!s(MISSING)", "%!(EXTRA string=x)", "%!(NOVERB)",
	"%20", "%2F", "%c3%a9", "% ", "0%", " LIKE '%ab_%' ", "{}", "{0}", "{{.}}", "${HOME}", "$1", "\\n", "\\x00", "\\u00e9", "\\", "&amp;", "&#37;", "\r\n", "\x00", ": ", "\"", "`", "'",
}

// hostileText composes the error text of the "hostile" error kind: 1..4 segments, each drawn from vlib's hostile-string
// generator (valid UTF-8 mixing control, ASCII punctuation incl. '%', multi-byte runes and printf / escape fragments) or from
// reinterpretable; half of the texts also name the command the way the plain kind does (in front, in the middle or at the end).
func hostileText(r *vlib.Rand, cmd string) string {
	var segs []string
	for i, n := 0, r.Range(1, 4); i < n; i++ {
		if r.Chance(0.55) {
			segs = append(segs, r.UTF8(24))
		} else {
			segs = append(segs, reinterpretable[r.Intn(len(reinterpretable))])
		}
	}
	if r.Bool() {
		at := r.Intn(len(segs) + 1)
		segs = append(segs[:at], append([]string{" handler failed for " + cmd + " "}, segs[at:]...)...)
	}
	text := strings.Join(segs, "")
	if text == "" { // the empty text is the "empty" kind
		text = reinterpretable[r.Intn(len(reinterpretable))]
	}
	return text
}

// outcome is what a handler returned for one delivery of a command.
type outcome struct {
	cmd     string
	h, att  int // which handler (fan-out) and its how-manieth call for this command
	res     Res
	hasErr  bool
	errText string
}

// faults in the command-sending path (the listener has been started by then)
var sendFaults = []string{"pub-error", "pub-error", "pub-panic", "closed-pubsub", "closed-pubsub", "onsend-error", "onsend-panic", "marshal-error", "topic-error", "bus-error"}

// failingBus is a user-side CommandBus whose send fails.
type failingBus struct{}

func (failingBus) SendWithModifiedMessage(context.Context, any, func(*message.Message) error) error {
	return errors.New("scripted command bus failure")
}

// recBackend decorates the backend handed to SendWithReply / SendWithReplies: it records every listener that was started
// (ListenForNotifications returned without error) and the reply channel of it - the only place where the channel of a
// request whose send failed is visible.
type recBackend struct {
	inner requestreply.Backend[Res]
	note  func(cmd string, ch <-chan requestreply.Reply[Res])
}

func (b *recBackend) ListenForNotifications(ctx context.Context, p requestreply.BackendListenForNotificationsParams) (<-chan requestreply.Reply[Res], error) {
	ch, err := b.inner.ListenForNotifications(ctx, p)
	if err == nil {
		if c, ok := p.Command.(interface{ cmdID() string }); ok {
			b.note(c.cmdID(), ch)
		}
	}
	return ch, err
}

func (b *recBackend) OnCommandProcessed(ctx context.Context, p requestreply.BackendOnCommandProcessedParams[Res]) error {
	return b.inner.OnCommandProcessed(ctx, p)
}

// Void is a command nobody handles (it is published to a topic without subscriber): no reply ever arrives.
type Void struct {
	ID string `json:"id"`
}

// Res is the handler result.
type Res struct {
	ID      string `json:"id"`
	Attempt int    `json:"attempt"`
}

const wgtFrame = "pubsub/sync.WaitGroupTimeout"

const (
	listenTimeout = 25 * time.Millisecond // ListenForReplyTimeout when configured
	farDeadline   = time.Hour             // caller context deadline far later than the time-out: never fires within a case
	// a context deadline is invisible in goroutine dumps: quiescence is only trusted this long after the last pending one
	deadlineMargin = 40 * time.Millisecond
)

func init() {
	vlib.Register(&vlib.Prop{
		ID:    "C18",
		Level: "exploration",
		Cases: allCases,
		Rule: "each case: one GoChannel, Router, cqrs.CommandProcessor with a requestreply handler and a PubSubBackend whose reply topic is shared by all requests; 1..32 concurrent SendWithReplies / SendWithReply calls; " +
			"handler outcomes per command {result, error, error k times then success (k+1 replies when AckCommandErrors=false), no reply at all (command published to a topic nobody handles)}; " +
			"the error value of a failing handler is one of {text naming the command, errors.New(\"\"), an error type whose Error() is empty, \" \", blank (space tab newline), 2..20 kB text, \"1\" and \"0\" (the values of the has-error flag), \"true\"}; in 25% of the commands the handler returns the zero Res (with and without an error); in 30% of the cases 2..3 command processors consume the command topic (fan-out: every handler replies, also with AckCommandErrors=true a command then has several replies; <=16 requests then); AckCommandErrors on/off; optional ListenForReplyTimeout (25 ms); " +
			"caller behaviours {drain then end, late-drain: read nothing until every reply of the case has been produced and the process is quiescent - the listener is then parked on its full reply channel with further replies queued behind it - and only then read everything, read one and end late, never read then end, end right away, SendWithReply}; " +
			"caller context {no deadline, deadline 1 h (far later than ListenForReplyTimeout), deadline 3..12 ms (sooner than ListenForReplyTimeout)}; the request is ended by {the cancel function, cancelling the caller's own context, nothing at all: the caller relies on ListenForReplyTimeout / its context deadline - always so for callers that stopped reading when one of the two exists, half of the draining callers}; yield injection at the listener/router/gochannel hook points. " +
			"Send faults (40% of the cases, there each request with p=0.3, at least one): the first send of the command fails after the listener has been started - {the command publisher returns an error, the command publisher panics, the command bus publishes to a closed GoChannel (the reply topic lives on the open one), OnSend returns an error, OnSend panics, the command cannot be marshalled, GeneratePublishTopic fails, a user CommandBus whose send fails} - through SendWithReply or SendWithReplies as the caller's behaviour says, with every caller context / time-out combination; " +
			"the caller then does nothing at all (an error: SendWithReply gives it nothing to cancel, with SendWithReplies it ignores the other results by convention), or (30%) sends the command again without fault and goes on as scripted; after a panic it recovers and ends its context late (no retry) or when it is done (retry). " +
			"Reply-publish faults x ReplyPublishErrorHandler x handler outcome x AckCommandErrors (own PRNG stream derived from (seed, case index), so the earlier dimensions of a case are unchanged): half of the cases configure PubSubBackendConfig.ReplyPublishErrorHandler; the reply publisher rejects the reply of scripted handler attempts (35% of the handled commands: attempt 1 with p=0.7, 2 with p=0.4, 3 with p=0.2, at least one; per handler with fan-out; plus the earlier 'first reply of a succeeding command' fault), so that the rejected reply is that of a failed or of a successful handler call; " +
			"the ReplyPublishErrorHandler answers per (command, attempt) nil (the lost reply is tolerated) or an error (the publish error itself or an unrelated one); expected handler calls and replies per command follow from simulating the script (a command whose every reply is lost and tolerated has no reply at all: its caller ends by its context / the time-out). " +
			"Error values x AckCommandErrors (own PRNG stream derived from (seed, case index)): 35% of the handled commands have a failing handler (1..3 failures, or - with AckCommandErrors=true, 30% of them - a failure on EVERY invocation) whose error VALUE is one of {context.Canceled, %w / pkg/errors.Wrap / errors.Join around context.Canceled, an error with empty text that unwraps to context.Canceled, context.DeadlineExceeded plain and wrapped, wrapped os.ErrDeadlineExceeded, io.EOF plain and wrapped, wrapped io.ErrClosedPipe, an error whose Is method answers true for every target (and that has Timeout/Temporary/Unwrap []error), an error whose As method fills ReplyTimeoutError / ReplyUnmarshalError targets, " +
			"a typed nil pointer of an error type, requestreply.ReplyTimeoutError / ReplyUnmarshalError / CommandHandlerError values} while the command message's context is alive: what the error is must not matter - one reply per invocation carrying that error text, settlement as AckCommandErrors says (the clauses below; a command redelivered more than 60 times is runaway-redelivery, which is how a nack of an always-failing command under AckCommandErrors=true shows up). " +
			"Hostile error texts (own PRNG stream derived from (seed, case index)): 30% of the handled commands have a failing handler (1..2 failures if it had none) whose error TEXT is 1..4 segments drawn from vlib's hostile-string generator Rand.UTF8 (control characters, NUL, quotes, '%', multi-byte runes, printf / escape fragments) and from a pool of fragments a layer between handler and caller could re-interpret instead of carrying them as data {printf verbs incl. indexed / width forms and fmt's bad-verb output, url-escapes, a trailing '%', SQL LIKE pattern, template / shell placeholders, written-out escapes, entities, CRLF, NUL, quotes}, with or without the command's name in it; the reply must carry that text byte for byte (reply-error-text; counters error_replies_with_hostile_text_received / ..._percent_sign_...). " +
			"Oracle: every reply a caller receives belongs to its own command (the notification the reply exposes is the one the backend published for a delivery of that command; result id / error text when they name a command) and carries exactly what the handler returned for that delivery: error present iff the handler returned one (reply-error-lost / reply-error-invented), the same error text (reply-error-text), the same result (reply-result); a caller that reads until it has them (promptly or late) gets every reply produced for its command as long as neither a time-out nor a context deadline can end the listening first (reply-missing / reply-lost-while-not-reading when it waits for ever at quiescence); the command message is unsettled when its reply is published (settled-before-reply-published) and at quiescence every single delivery of every command is settled cell by cell as the statement and the godoc of PubSubBackendConfig say: reply published -> ack, nack iff the handler failed and AckCommandErrors=false (command-settlement); reply publish failed and no ReplyPublishErrorHandler configured ('Command will be nacked by default when sending reply fails') or it returned an error ('If it returns an error the command will be nacked') -> nack, never ack (acked-without-reply); " +
			"reply publish failed and the ReplyPublishErrorHandler returned nil -> the lost reply decides nothing, the delivery is acked or nacked as AckCommandErrors says for the handler's outcome (tolerated-reply-loss-settlement); with AckCommandErrors=true the handler runs exactly 1 + (untolerated reply-publish failures) times; when callers wait for ever at quiescence the settlements are judged first (a wrongly acked command explains the missing replies of its redeliveries); " +
			"after cancel / cancellation of the caller's context (or, when ListenForReplyTimeout is configured or the caller's context has a near deadline, after that alone: such callers never end the request themselves; a reading caller must then see the channel closed - timeout-not-honoured / context-end-not-honoured when it reads for ever at quiescence, the 1 h deadline still pending) and at quiescence OnListenForReplyFinished ran exactly once per request and no listener goroutine remains - checked before the harness touches the reply channel of callers that stopped reading - and then the reply channel is observed closed; for a request whose send failed the same is demanded per started listener (a decorator around the backend handed to SendWith* counts the listeners started and keeps their reply channels): OnListenForReplyFinished ran as often as listeners were started (listener-not-finished-after-failed-send) and the channel the caller never got is closed (reply-channel-not-closed-after-failed-send). " +
			"Non-trivial: >=2 concurrent requests shared the reply topic, or a caller stopped reading with replies pending. Distinct = (program shape incl. per-caller behaviour/context/ending, hook fingerprint). " +
			"Second class 'mix' (case indices after those of the first class: 240 quick / 9600 thorough; file mix.go; no time-out and no near deadline exists in it, every 'never' is decided at quiescence): 1..6 PubSubBackends with DIFFERENT Result types {string, struct whose id is a string, struct whose id is a number, [3]string, int64, NoResult with NewCommandHandler} and their own AckCommandErrors share one reply topic, one Pub/Sub, one Router and one cqrs.CommandBus; most of their notifications do not decode into each other's Result type; 2..12 concurrent top-level requests, each on a backend of the case, " +
			"in 70% of the cases held pending together (the handlers wait until every top-level listener has been started, so every listener is offered every notification of the case); CommandBusConfig.OnSend hook of the case that edits the metadata of every outgoing command {none, copy-parent: copies all metadata of the message being handled (cqrs.OriginalMessageFromCtx of the outgoing message's context) incl. its operation id, copy-last: copies all metadata of the command published last incl. its (foreign) operation id, replace-map: assigns a new Metadata map, delete-keys: deletes every key but the command name, add-keys, stale-opid: writes a stale value under the operation-id key}; " +
			"nested requests (60% of the cases, 45% of the commands there): the request-reply handler of an 'outer' command makes, with its handler context, a SendWithReply on the same bus for a fresh 'leaf' command on its own backend or on another backend of the case and returns a result derived from the nested reply (one nested request per redelivery); handler outcomes {result, error 1..2 times then success}; 7% of the commands are handled by nobody and stay pending; caller behaviours {drain, listen: read everything until the whole case is quiescent and end only then, late-drain, never-read, SendWithReply}, context {no deadline, 1 h}, ended by {cancel, the caller's context}. " +
			"Oracle of the mix class: every reply a top-level caller or a nested request receives is attributed through the notification it exposes to the command delivery it was built for (foreign-reply) and must carry that delivery's result - compared as JSON after decoding with the caller's own Result type - and error (reply-result, reply-error-*); a ReplyUnmarshalError reply is a violation (foreign-unmarshal-error): every notification of the workload decodes into the Result type of the backend that produced it (checked per notification, else inconclusive), so such a reply can only stem from another request's notification; " +
			"every reading caller gets all replies of its command, a SendWithReply the first (reply-missing, also when it waits for ever at quiescence); a nested SendWithReply that has not returned at quiescence never will (nested-reply-missing); a command handed to its handler more than 60 times is a redelivery loop (runaway-redelivery); settled-before-reply-published, command-settlement per backend, listener-not-finished (exactly one OnListenForReplyFinished per top-level and per nested request), listener-goroutine-leak, reply-channel-not-closed as in the first class. Non-trivial (mix): a listener was offered a foreign notification (counted at the requestreply.listen.notification hook point; how many of them its Result type cannot decode is a counter), the OnSend hook edited a command, or a nested request was made. " +
			"Third class 'undec' (case indices after those of the mix class: 400 quick / 12000 thorough; file undec.go): replies of the caller's OWN command that do not decode with the caller's Result type. 1..10 concurrent SendWithReplies / SendWithReply calls on one shared reply topic, 1..3 command processors (fan-out), AckCommandErrors on (30%) / off, handler fails 0..3 times then succeeds: 1..12 replies per request; 80% of the requests have 1..3 of their replies (chosen per (handler, attempt)) made undecodable for the listening side by one of the case's sources " +
			"{type: the handlers are registered with a PubSubBackend of another Result type (id is `any`: returned as a number it does not decode into the callers' Result type whose id is a string), marshaler: the callers' backend has a custom BackendPubsubMarshaler whose UnmarshalReply fails on the chosen replies (its error names the command), decorator: a decorator of the reply publisher replaces the payload {truncated JSON, empty, array, string, invalid bytes, object with fields of the wrong type}, modify: ModifyNotificationMessage replaces the payload; a case uses one source or all four mixed}; the other 20% are controls sharing the reply topic; " +
			"caller behaviours {drain, never-read, one-stop: read one reply then stop, late-drain, SendWithReply}; caller context {no deadline, 1 h, deadline 3..12 ms}; optional ListenForReplyTimeout (25 ms, 35% of the cases); ended by {cancel function, the caller's context, nothing: time-out / deadline} - callers that stopped reading never end a request that a time-out or near deadline ends. " +
			"Oracle of the undec class: (part 0) once every reply has been produced and the process is quiescent after the last time-out / near deadline, every request with ListenForReplyTimeout or a near deadline has had its OnListenForReplyFinished exactly once, whatever its caller does and before anyone ended a request or touched a channel (listener-not-finished); (part 1) after the remaining callers ended their requests, at quiescence: exactly one OnListenForReplyFinished per request (listener-not-finished), no listener goroutine left (listener-goroutine-leak), " +
			"reading callers saw their channel closed (timeout-not-honoured / context-end-not-honoured / reply-channel-not-closed / caller-stuck); (part 2) the untouched reply channels of callers that stopped reading are closed (reply-channel-not-closed). A caller that drains (promptly or late) with nothing but itself ending the request receives every decodable reply of its command with the handler's result and error text (reply-missing, reply-result, reply-error-*) and one ReplyUnmarshalError reply per undecodable reply of its command (unmarshal-error-not-reported; godoc of Reply.Error: 'Error contains the error returned by the command handler or the Backend when handling notification fails. Handling the notification can fail, for example, when unmarshaling the message'); " +
			"no caller receives more ReplyUnmarshalError replies than undecodable replies were produced for its own command, nor one whose (marshaler) text names another command (foreign-unmarshal-error), nor a reply of another command (foreign-reply); a reply whose notification was seen not to decode into the caller's Result type on its way to the reply topic (or that the caller's marshaler refused) must not be handed out as a result (undecodable-reply-not-flagged); settled-before-reply-published and command-settlement as in the first class (whether the requester can decode a reply does not influence the settlement). Non-trivial (undec): at least one own undecodable reply was scripted.",
		Assumptions: []string{
			"replies after cancel/timeout may be ReplyTimeoutError values; they are not attributed to a command",
			"quiescence is judged only after every pending context deadline below 10 min has passed by 40 ms AND the context carrying it was observed done (ctx.Err() != nil) before the quiescence detector took the snapshots it uses - on a loaded machine the runtime may fire an expired context timer late, so no verdict assumes when a timer fires (context deadlines are invisible in goroutine dumps); the deadlines are read at the boundary: from the context the backend hands to the reply subscriber's Subscribe and from the caller contexts the harness creates; the 1 h deadline never fires within a case, so 'still listening at quiescence' is final",
			"reply completeness is demanded only when neither ListenForReplyTimeout nor a near context deadline is in play (under load those may legitimately end the listening before a reply arrives)",
			"GoChannel may reorder the replies of one command: a late-draining caller counts replies, it does not stop at the successful one",
			"a send that panics leaves the listener running until the caller's context ends (the statement names cancel, context end and time-out as the triggers; after a panic the caller holds only its context): such listeners are judged after the caller ended its context; how many were still running at quiescence before that is reported as a counter only",
			"a ReplyPublishErrorHandler that returns nil is the documented opt-out of 'only after the reply was published' for that delivery ('you can control this behaviour with the ReplyPublishErrorHandler config option'): such a delivery may be acked without a reply; what is demanded is that the handler's outcome and AckCommandErrors alone decide then. Whether the ReplyPublishErrorHandler is invoked when no publish failed is only counted (its scripted answer would show up as a wrong settlement)",
			"GoChannel redelivers a nacked command to the same subscriber at once and hands every (re)delivery out as a fresh copy: deliveries are told apart by message pointer, attempts are counted per (handler, command)",
			"a failed send that returns an error must end its listener by itself: the caller is left without anything to cancel (SendWithReply) - judged at quiescence with the caller's context still open",
			"mix class: an OnSend hook may write any metadata key of the outgoing command, the operation-id key included: SendWithReplies stamps the operation id through the modify argument of SendWithModifiedMessage, which the bus applies to the message after OnSend (on the message OnSend left behind, also when OnSend assigned a new Metadata map); hooks never alias the metadata map of another message and never copy the command-name key",
			"mix class: the nested request is sent to a handler other than the one that makes it (GoChannel hands a subscriber its next message only after the previous one was settled, so a handler waiting for a command queued behind its own delivery would wait for ever by construction); a nested SendWithReply whose first reply is an error reply (leaf handler fails once, AckCommandErrors=false) returns that reply, later replies of the leaf command find no listener",
			"mix class: foreign notifications offered to listeners are counted at the hook point in front of the listener's filter (counters and non-triviality only, no verdict depends on it)",
			"undec class: an own reply that the listening side cannot unmarshal is reported as a Reply whose Error is a ReplyUnmarshalError (godoc of Reply.Error) and travels to the caller like every other reply; completeness (one ReplyUnmarshalError per undecodable own reply, every decodable reply) is demanded only from draining callers whose request nothing but themselves can end; a ReplyUnmarshalError carries no NotificationMessage, so such replies are attributed by count (never more than undecodable replies of the caller's own command) and, for the custom marshaler, by the command its error text names",
			"undec class: quiescence is judged only after every pending deadline (ListenForReplyTimeout read from the context handed to the reply subscriber's Subscribe, near caller deadlines) has passed by 80 ms and its context was observed done, as in the first class; undecodability of a scripted reply is confirmed at the boundary (the payload leaving for the reply topic is probed with encoding/json against the callers' Result type; the custom marshaler returns the error itself)",
		},
		Run: dispatch,
	})
}

type caller struct {
	id         string
	fails      int
	replyFault bool         // the first Publish of a reply for this command is rejected by the reply publisher
	pubFaultAt map[int]bool // handler attempts (1-based, per handler) whose reply Publish is rejected by the reply publisher
	tolerate   []bool       // what the ReplyPublishErrorHandler (when configured) answers for attempt i+1: true = nil (tolerate the lost reply), false = an error
	wantCalls  int          // handler calls (per handler) the script leads to
	behaviour  string       // drain | late-drain | one-late | never-read | cancel-now | single
	ctxKind    string       // plain (no deadline) | far (deadline 1 h) | near (deadline sooner than ListenForReplyTimeout)
	nearD      time.Duration
	endBy      string // cancel (the returned cancel function) | parent (the caller's own context is cancelled) | rely (nothing: time-out / deadline must end it)
	noReply    bool   // Void command: nobody handles it
	selfEnding bool   // ListenForReplyTimeout or a near context deadline ends the listening without the caller
	endCalled  bool   // the caller has ended the request (cancel function / its context)
	expect     int    // replies the handler will produce
	got        []string
	foreign    []string
	timeouts   int
	closed     bool
	sendErr    string
	errKind    string   // error value of a failing handler
	errLen     int      // length of the long error text
	errText    string   // text of the hostile error kind
	unsent     bool     // the only send of this command fails: no handler ever sees it
	zeroRes    bool     // the handler returns the zero Res
	sendFault  string   // fault in the command-sending path of the first attempt ("" = none)
	retry      bool     // after the failed send the caller sends the command again (no fault then) and behaves as scripted
	faultErr   string   // error returned by the faulted attempt
	faultPanic string   // panic that came out of the faulted attempt
	faultMiss  bool     // the faulted attempt reported neither
	mismatch   []string // "clause\x00text": replies that do not carry what the handler returned
	errReplies int      // error replies received (not time-outs)
	ch         <-chan requestreply.Reply[Res]
	cancel     func()
	cancelCtx  func()
	done       chan struct{}
}

func run(e *vlib.Env) vlib.Result {
	r := e.R
	id := e.ID()
	n := r.Range(1, 32)
	ackErrors := r.Bool()
	useTimeout := r.Chance(0.2)
	useOnHandle := r.Bool()
	yieldP := []float64{0, 0.3, 0.6}[r.Intn(3)]
	timeout := listenTimeout
	// fan-out: several command processors consume the command topic, every one of them handles (and replies to) each command
	fanout := 1
	if r.Chance(0.3) {
		fanout = r.Range(2, 3)
		if n > 16 {
			n = 16 // every listener sees every reply of the case: keep the quadratic traffic bounded
		}
	}
	// The reply-fault dimension (added later) has its own PRNG stream, derived from the same (run seed, case index) as e.R: every
	// earlier choice of the case stays what it was for a given seed, and the ReplyPublishErrorHandler has to be decided before the
	// backend is built.
	rNew := vlib.NewRand(e.Seed, "C18/reply-faults", e.Idx)
	rpehConfigured := rNew.Bool()
	spec := fmt.Sprintf("requests=%d ackCommandErrors=%v listenTimeout=%v onHandle=%v yield=%.1f handlers=%d replyPublishErrorHandler=%v", n, ackErrors, useTimeout, useOnHandle, yieldP, fanout, rpehConfigured)
	res := vlib.Result{Class: fmt.Sprintf("ackErrors=%v/timeout=%v", ackErrors, useTimeout), Spec: spec}
	wo := vlib.WaitOpts{Watchdog: 40 * time.Second, NoTimerCheck: []string{wgtFrame}}

	ctl := vlib.NewCtl(r.Uint64(), yieldP, 60)
	defer ctl.Uninstall()
	listenerLeak := func(g vlib.Goroutine) bool {
		return g.Has("requestreply.PubSubBackend") && g.Has("ListenForNotifications")
	}
	leakBefore, _ := vlib.CountGoroutines(listenerLeak)

	logger := watermill.NopLogger{}
	ps := gochannel.NewGoChannel(gochannel.Config{}, logger)
	var mu sync.Mutex
	finished := map[string]int{}                        // command id -> OnListenForReplyFinished calls
	deliveries := map[string][]*message.Message{}       // handler#command id -> the command messages handed to that handler, in order
	notifCmd := map[*message.Message]*message.Message{} // reply notification -> the command delivery it answers
	cmdOf := map[string]string{}                        // operation id -> command id
	var settledEarly []string
	started := map[string]int{}                             // command id -> listeners started (ListenForNotifications returned a channel)
	lchans := map[string][]<-chan requestreply.Reply[Res]{} // command id -> the reply channels of its listeners, in order
	byDelivery := map[*message.Message]*outcome{}           // command delivery -> what the handler returned for it
	byNotif := map[string]*outcome{}                        // reply notification UUID -> the handler outcome it has to carry
	sendFault := map[string]string{}                        // command id -> fault scripted for its first send
	sendTry := map[string]int{}                             // command id -> sends attempted so far
	faultMsgs := map[*message.Message]string{}              // command message -> what the command publisher does with it
	faultsFired := map[string]int{}                         // fault kind -> times it fired
	handlerCalls := map[string]int{}                        // handler#command id -> calls
	hkey := func(h int, cmd string) string { return fmt.Sprintf("%d#%s", h, cmd) }
	var events atomic.Int64
	runaway := make(chan struct{})
	var runawayOnce sync.Once
	var runawayCmd atomic.Pointer[string]
	defer runawayOnce.Do(func() { close(runaway) })

	// Pending context deadlines (invisible to the quiescence detector), read at the boundary: "stuck" is trusted only after every
	// deadline known by then has passed and the contexts carrying them were observed done (see deadlines.go)
	dw := &deadlineWatch{margin: deadlineMargin}
	noteDeadline := dw.note
	waitT := func(cond func() bool) (vlib.Outcome, string) { return dw.wait(cond, wo) }

	replyFaultAt := map[string]map[int]bool{}   // command id -> handler attempts whose reply publish is rejected
	tolerateAt := map[string][]bool{}           // command id -> answer of the ReplyPublishErrorHandler per attempt (true = nil)
	failedCopies := map[*message.Message]bool{} // command delivery -> the Publish of its reply was rejected
	rpehCalls := map[*message.Message]int{}     // command delivery -> invocations of the ReplyPublishErrorHandler for its reply
	rpehAnswer := map[*message.Message]string{} // command delivery -> "nil" | "error": what the ReplyPublishErrorHandler returned
	rpehUnknown, rpehSpurious, replyFaultsFired := 0, 0, 0
	// tolerates: the scripted answer of the ReplyPublishErrorHandler for the reply of attempt att of command cmd (mu held)
	tolerates := func(cmd string, att int) bool {
		t := tolerateAt[cmd]
		if len(t) == 0 {
			return false
		}
		if att > len(t) {
			att = len(t)
		}
		return t[att-1]
	}
	replyPub := &samplingPub{inner: ps, before: func(msgs []*message.Message) error {
		mu.Lock()
		defer mu.Unlock()
		for _, m := range msgs {
			cm := notifCmd[m]
			if cm == nil {
				continue
			}
			o := byDelivery[cm]
			if o != nil && replyFaultAt[o.cmd][o.att] && !failedCopies[cm] {
				failedCopies[cm] = true
				replyFaultsFired++
				return errors.New("scripted reply publisher failure")
			}
		}
		return nil
	}, after: func(msgs []*message.Message) {
		mu.Lock()
		defer mu.Unlock()
		for _, m := range msgs {
			op := m.Metadata.Get(requestreply.OperationIDMetadataKey)
			if cm := notifCmd[m]; cm != nil {
				events.Add(1)
				if st := vlib.Settled(cm); st != "" {
					settledEarly = append(settledEarly, fmt.Sprintf("command %s was already %sed when the Publish of its reply returned", cmdOf[op], st))
				}
			}
		}
	}}
	bcfg := requestreply.PubSubBackendConfig{
		Publisher: replyPub,
		SubscriberConstructor: func(requestreply.PubSubBackendSubscribeParams) (message.Subscriber, error) {
			return &deadlineSub{inner: ps, note: noteDeadline}, nil
		},
		GenerateSubscribeTopic: func(requestreply.PubSubBackendSubscribeParams) (string, error) { return id + "/reply", nil },
		GeneratePublishTopic:   func(requestreply.PubSubBackendPublishParams) (string, error) { return id + "/reply", nil },
		Logger:                 logger,
		AckCommandErrors:       ackErrors,
		ModifyNotificationMessage: func(msg *message.Message, p requestreply.PubSubBackendOnCommandProcessedParams) error {
			mu.Lock()
			notifCmd[msg] = p.CommandMessage
			if c, ok := p.Command.(*Cmd); ok {
				cmdOf[string(p.OperationID)] = c.ID
			}
			if o := byDelivery[p.CommandMessage]; o != nil {
				byNotif[msg.UUID] = o
			}
			mu.Unlock()
			return nil
		},
		OnListenForReplyFinished: func(ctx context.Context, p requestreply.PubSubBackendSubscribeParams) {
			cid := ""
			if c, ok := p.Command.(interface{ cmdID() string }); ok {
				cid = c.cmdID()
			}
			if cid != "" {
				mu.Lock()
				finished[cid]++
				mu.Unlock()
			}
		},
	}
	if useTimeout {
		bcfg.ListenForReplyTimeout = &timeout
	}
	// The ReplyPublishErrorHandler (configured in half of the cases; decided by the last draw of the case, see below): it answers
	// per (command, attempt) as scripted - nil (the lost reply is tolerated) or an error (the publish error itself or an unrelated one).
	rpehFn := func(topic string, nm *message.Message, perr error) error {
		events.Add(1)
		mu.Lock()
		defer mu.Unlock()
		cm := notifCmd[nm]
		var o *outcome
		if cm != nil {
			o = byDelivery[cm]
		}
		if o == nil {
			rpehUnknown++ // not a notification the harness saw being built: cannot be attributed (the case becomes inconclusive)
			return perr
		}
		rpehCalls[cm]++
		if !failedCopies[cm] {
			rpehSpurious++ // invoked although the Publish of this reply was not rejected (counter; the answer is the scripted one)
		}
		if tolerates(o.cmd, o.att) {
			rpehAnswer[cm] = "nil"
			return nil
		}
		rpehAnswer[cm] = "error"
		if o.att%2 == 0 || perr == nil {
			return errors.New("scripted ReplyPublishErrorHandler: this reply is required")
		}
		return perr
	}
	if rpehConfigured {
		bcfg.ReplyPublishErrorHandler = rpehFn
	}
	backend, err := requestreply.NewPubSubBackend[Res](bcfg, requestreply.BackendPubsubJSONMarshaler[Res]{})
	if err != nil {
		res.Verdict, res.Reason = vlib.HarnessError, err.Error()
		return res
	}
	// what SendWithReply / SendWithReplies get: the backend, decorated to see which listeners were started
	sendBackend := &recBackend{inner: backend, note: func(cmd string, ch <-chan requestreply.Reply[Res]) {
		mu.Lock()
		started[cmd]++
		lchans[cmd] = append(lchans[cmd], ch)
		mu.Unlock()
	}}
	router, _ := message.NewRouter(message.RouterConfig{CloseTimeout: time.Hour}, logger)
	marshaler := cqrs.JSONMarshaler{}
	// the fault scripted for the send that is under way for this command (only its first send is faulted)
	faultNow := func(cmd any) string {
		c, ok := cmd.(interface{ cmdID() string })
		if !ok {
			return ""
		}
		mu.Lock()
		defer mu.Unlock()
		if sendTry[c.cmdID()] != 1 {
			return ""
		}
		return sendFault[c.cmdID()]
	}
	fired := func(kind string) {
		mu.Lock()
		faultsFired[kind]++
		mu.Unlock()
	}
	busConfig := cqrs.CommandBusConfig{
		GeneratePublishTopic: func(p cqrs.CommandBusGeneratePublishTopicParams) (string, error) {
			if faultNow(p.Command) == "topic-error" {
				fired("topic-error")
				return "", errors.New("scripted GeneratePublishTopic failure")
			}
			if _, void := p.Command.(*Void); void {
				return id + "/nobody-listens", nil
			}
			return id + "/commands", nil
		},
		OnSend: func(p cqrs.CommandBusOnSendParams) error {
			switch f := faultNow(p.Command); f {
			case "onsend-error":
				fired(f)
				return errors.New("scripted OnSend failure")
			case "onsend-panic":
				fired(f)
				panic("scripted OnSend panic")
			case "pub-error", "pub-panic":
				mu.Lock()
				faultMsgs[p.Message] = f
				mu.Unlock()
			}
			return nil
		},
		Marshaler: marshaler, Logger: logger,
	}
	// the command publisher: fails or panics on the scripted commands
	cmdPub := &samplingPub{inner: ps, before: func(msgs []*message.Message) error {
		for _, m := range msgs {
			mu.Lock()
			f := faultMsgs[m]
			delete(faultMsgs, m)
			mu.Unlock()
			switch f {
			case "pub-error":
				fired(f)
				return errors.New("scripted command publisher failure")
			case "pub-panic":
				fired(f)
				panic("scripted command publisher panic")
			}
		}
		return nil
	}, after: func([]*message.Message) {}}
	bus, err := cqrs.NewCommandBusWithConfig(cmdPub, busConfig)
	if err != nil {
		res.Verdict, res.Reason = vlib.HarnessError, err.Error()
		return res
	}
	// a command bus whose Pub/Sub has been closed (its own GoChannel: the reply topic lives on the open one, so the listener starts)
	deadPS := gochannel.NewGoChannel(gochannel.Config{}, logger)
	deadPS.Close()
	deadBus, err := cqrs.NewCommandBusWithConfig(deadPS, busConfig)
	if err != nil {
		res.Verdict, res.Reason = vlib.HarnessError, err.Error()
		return res
	}
	var onHandle cqrs.CommandProcessorOnHandleFn
	if useOnHandle {
		// the documented pass-through form
		onHandle = func(params cqrs.CommandProcessorOnHandleParams) error {
			return params.Handler.Handle(params.Message.Context(), params.Command)
		}
	}
	for h := 0; h < fanout; h++ {
		h := h
		proc, err := cqrs.NewCommandProcessorWithConfig(router, cqrs.CommandProcessorConfig{
			GenerateSubscribeTopic: func(cqrs.CommandProcessorGenerateSubscribeTopicParams) (string, error) { return id + "/commands", nil },
			SubscriberConstructor:  func(cqrs.CommandProcessorSubscriberConstructorParams) (message.Subscriber, error) { return ps, nil },
			Marshaler:              marshaler, Logger: logger,
			OnHandle: onHandle,
		})
		if err != nil {
			res.Verdict, res.Reason = vlib.HarnessError, err.Error()
			return res
		}
		err = proc.AddHandlers(requestreply.NewCommandHandlerWithResult[Cmd, Res](fmt.Sprintf("%s/handler%d", id, h), backend, func(ctx context.Context, c *Cmd) (Res, error) {
			orig := cqrs.OriginalMessageFromCtx(ctx)
			mu.Lock()
			k := hkey(h, c.ID)
			handlerCalls[k]++
			att := handlerCalls[k]
			out := Res{ID: c.ID, Attempt: att}
			if c.ZeroRes {
				out = Res{}
			}
			var herr error
			if att <= c.Fails {
				herr = handlerError(c, att)
			}
			if orig != nil {
				deliveries[k] = append(deliveries[k], orig)
				o := &outcome{cmd: c.ID, h: h, att: att, res: out, hasErr: herr != nil}
				if herr != nil {
					o.errText = herr.Error()
				}
				byDelivery[orig] = o
			}
			mu.Unlock()
			events.Add(1)
			if att > 60 {
				// no script redelivers a command that often: a redelivery loop (it would never become quiescent)
				id := c.ID
				runawayOnce.Do(func() { runawayCmd.Store(&id); close(runaway) })
			}
			return out, herr
		}))
		if err != nil {
			res.Verdict, res.Reason = vlib.HarnessError, err.Error()
			return res
		}
	}
	runDone := make(chan struct{})
	go func() { defer close(runDone); router.Run(context.Background()) }()
	go func() {
		// end a redelivery loop at once (the case is then judged as a violation below)
		<-runaway
		if runawayCmd.Load() != nil {
			router.Close()
			ps.Close()
		}
	}()
	if oc, _ := vlib.WaitClosed(router.Running(), wo); oc != vlib.Done {
		res.Inconclusive("router did not start")
		return res
	}

	// callers
	behaviours := []string{"drain", "drain", "late-drain", "late-drain", "one-late", "never-read", "cancel-now", "single"}
	callers := make([]*caller, n)
	stoppedReading := 0
	for i := range callers {
		c := &caller{id: fmt.Sprintf("%s/c%d", id, i), behaviour: behaviours[r.Intn(len(behaviours))], done: make(chan struct{})}
		switch r.Intn(4) {
		case 0:
			c.fails = 0
		case 1:
			c.fails = r.Range(1, 3)
		case 2:
			c.fails = 1
		default:
			c.fails = 0
		}
		if ackErrors {
			// an error is acked: exactly one reply per handler whatever the outcome
			c.expect = fanout
		} else {
			c.expect = fanout * (c.fails + 1)
		}
		if c.fails == 0 && fanout == 1 && r.Chance(0.25) {
			// the reply publisher rejects the first reply: the command must be nacked and redelivered, the second reply arrives
			c.replyFault = true
		}
		// the caller's context
		switch x := r.Intn(20); {
		case x < 9:
			c.ctxKind = "plain"
		case x < 16:
			c.ctxKind = "far"
		default:
			c.ctxKind = "near"
			c.nearD = time.Duration(r.Range(3, 12)) * time.Millisecond
		}
		c.selfEnding = useTimeout || c.ctxKind == "near"
		// nobody handles the command: no reply ever arrives
		if r.Chance(0.08) {
			c.noReply = true
			c.fails, c.expect, c.replyFault = 0, 0, false
		}
		// what ends the request
		c.endBy = "cancel"
		if r.Chance(0.35) {
			c.endBy = "parent"
		}
		switch c.behaviour {
		case "late-drain", "one-late", "never-read":
			stoppedReading++
			if c.selfEnding {
				// a caller that stopped reading does nothing at all any more: the time-out / its deadline has to end the listening
				c.endBy = "rely"
			}
			if c.behaviour == "late-drain" && c.selfEnding && r.Bool() {
				c.endBy = []string{"cancel", "parent"}[r.Intn(2)]
			}
		case "drain":
			if c.selfEnding && r.Bool() {
				c.endBy = "rely"
			}
		case "single":
			// SendWithReply hides the cancel function: without a reply only the time-out or the caller's context ends it
			c.endBy = "rely"
			if c.noReply && !c.selfEnding {
				c.endBy = "parent"
			}
		}
		callers[i] = c
	}
	// Dimensions added later; they are drawn after all earlier choices so that those stay what they were for a given seed:
	// the error value of failing handlers, zero-value results, faults in the command-sending path.
	faultCase := r.Chance(0.4)
	faulted, retried := 0, 0
	for i, c := range callers {
		c.errKind = errKinds[r.Intn(len(errKinds))]
		c.errLen = r.Range(2000, 20000)
		c.zeroRes = r.Chance(0.25)
		hit, kind, again := r.Chance(0.3), sendFaults[r.Intn(len(sendFaults))], r.Chance(0.3)
		if !faultCase || c.noReply || !(hit || (faulted == 0 && i == len(callers)-1)) {
			continue
		}
		faulted++
		c.sendFault = kind
		sendFault[c.id] = kind
		c.retry = again && kind != "marshal-error"
		if c.retry {
			retried++
			continue
		}
		// nothing is sent: no handler call, no reply; all the caller gets is the error (or the panic)
		c.unsent = true
		c.fails, c.expect, c.replyFault = 0, 0, false
		switch c.behaviour {
		case "late-drain", "one-late", "never-read":
			stoppedReading--
		}
		c.endBy = "nothing"
		if kind == "pub-panic" || kind == "onsend-panic" {
			c.endBy = "parent" // after recovering from the panic the caller ends its context (late)
		}
	}
	if faulted > 0 {
		res.Class += "/send-faults"
	}
	// Error VALUES (own PRNG stream derived from (seed, case index): the earlier dimensions of a case are unchanged): 35% of the
	// handled commands get a failing handler (if they had none: 1..2 failures) whose error is / wraps / claims to be a sentinel
	// (errValueKinds); with AckCommandErrors=true 30% of those fail on EVERY invocation (the error is acked: one invocation, one
	// error reply - were such an error nacked, the redelivery loop would never end: runaway-redelivery).
	rVal := vlib.NewRand(e.Seed, "C18/error-values", e.Idx)
	errValueCmds, alwaysFailing := 0, 0
	for _, c := range callers {
		pick, kind, addFails, always := rVal.Chance(0.35), errValueKinds[rVal.Intn(len(errValueKinds))], rVal.Range(1, 2), rVal.Chance(0.3)
		if !pick || c.noReply || c.unsent {
			continue
		}
		c.errKind = kind
		if c.fails == 0 {
			c.fails = addFails
		}
		if ackErrors && always {
			c.fails = 99
			alwaysFailing++
		}
		errValueCmds++
	}
	if errValueCmds > 0 {
		res.Class += "/error-values"
	}
	// Hostile error TEXTS (own PRNG stream derived from (seed, case index): the earlier dimensions of a case are unchanged): 30% of
	// the handled commands get a failing handler (if they had none: 1..2 failures) whose error text is data that a layer between
	// the handler and the caller might re-interpret (hostileText). "carrying the handler's ... error text": verbatim (reply-error-text).
	rTxt := vlib.NewRand(e.Seed, "C18/hostile-texts", e.Idx)
	hostileCmds, hostilePercent := 0, 0
	for _, c := range callers {
		pick, text, addFails := rTxt.Chance(0.3), hostileText(rTxt, c.id), rTxt.Range(1, 2)
		if !pick || c.noReply || c.unsent {
			continue
		}
		c.errKind, c.errText = "hostile", text
		if c.fails == 0 {
			c.fails = addFails
		}
		hostileCmds++
		if strings.Contains(text, "%") {
			hostilePercent++
		}
	}
	if hostileCmds > 0 {
		res.Class += "/hostile-texts"
	}
	// Reply-publish faults x ReplyPublishErrorHandler x handler outcome (drawn from the dimension's own stream): the reply publisher
	// rejects the reply of the scripted handler attempts (any of the first three, per handler with fan-out; the earlier dimension
	// "first reply of a command whose handler succeeds" is kept), the ReplyPublishErrorHandler - when the case configures one -
	// answers nil or an error per attempt. What the script leads to (handler calls, replies) follows from the godoc:
	//   "AckCommandErrors determines if the command should be acked or nacked when handler returns an error. Command will be
	//    nacked by default when sending reply fails, you can control this behaviour with the ReplyPublishErrorHandler config option."
	//   "ReplyPublishErrorHandler if not nil will be invoked when sending the reply fails. If it returns an error the command will be nacked."
	replyFaultCmds := 0
	mu.Lock()
	for _, c := range callers {
		extra := rNew.Chance(0.35)
		a := [3]bool{rNew.Chance(0.7), rNew.Chance(0.4), rNew.Chance(0.2)}
		tol := []bool{rNew.Bool(), rNew.Bool(), rNew.Bool(), rNew.Bool()}
		if c.noReply || c.unsent {
			continue
		}
		c.pubFaultAt = map[int]bool{}
		if c.replyFault {
			c.pubFaultAt[1] = true
		}
		if extra {
			for i, on := range a {
				if on {
					c.pubFaultAt[i+1] = true
				}
			}
			if len(c.pubFaultAt) == 0 {
				c.pubFaultAt[1] = true
			}
		}
		c.tolerate = tol
		if len(c.pubFaultAt) > 0 {
			replyFaultCmds++
		}
		replyFaultAt[c.id] = c.pubFaultAt
		tolerateAt[c.id] = tol
		// what the script leads to, per handler: a delivery is nacked (and redelivered) when its reply could not be published and
		// nobody tolerated that, or when the handler failed and AckCommandErrors=false; otherwise it is acked - the last one
		calls, replies := 0, 0
		for att := 1; ; att++ {
			calls++
			pubFail := c.pubFaultAt[att]
			if !pubFail {
				replies++
			}
			if pubFail && !(rpehConfigured && tolerates(c.id, att)) {
				continue
			}
			if att <= c.fails && !ackErrors {
				continue
			}
			break
		}
		c.wantCalls = calls
		c.expect = fanout * replies
		if c.behaviour == "single" && c.expect == 0 && !c.selfEnding {
			// every reply of the command is lost (tolerated): SendWithReply returns only when the caller's context ends
			c.endBy = "parent"
		}
	}
	mu.Unlock()
	if replyFaultCmds > 0 {
		res.Class += fmt.Sprintf("/reply-faults:handler=%v", rpehConfigured)
	}
	lateCancel := make(chan struct{}) // closed by the harness once every command has been fully handled
	clip := func(s string) string {
		if len(s) > 96 {
			return fmt.Sprintf("%s...(%d bytes)", s[:96], len(s))
		}
		return s
	}
	classify := func(c *caller, rep requestreply.Reply[Res]) {
		events.Add(1)
		mu.Lock()
		defer mu.Unlock()
		var te requestreply.ReplyTimeoutError
		if rep.Error != nil && errors.As(rep.Error, &te) {
			c.timeouts++
			return
		}
		desc := ""
		own := false
		if rep.Error != nil {
			desc = fmt.Sprintf("error:%q", clip(rep.Error.Error()))
			own = strings.Contains(rep.Error.Error(), " "+c.id+" ")
		} else {
			desc = "result:" + rep.HandlerResult.ID
			own = rep.HandlerResult.ID == c.id
		}
		// Which handler call produced this reply: the notification it arrived in (exposed by the reply) is the one the backend
		// published for one particular command delivery. Needed because neither an empty error text nor a zero result names a command.
		var exp *outcome
		if rep.NotificationMessage != nil {
			exp = byNotif[rep.NotificationMessage.UUID]
		}
		if exp != nil {
			own = exp.cmd == c.id
		}
		// a reply carries the result even with an error: both must name this caller's command
		if rep.HandlerResult.ID != "" && rep.HandlerResult.ID != c.id {
			own = false
		}
		if !own {
			c.foreign = append(c.foreign, desc)
			return
		}
		c.got = append(c.got, desc)
		if rep.Error != nil {
			c.errReplies++
		}
		if exp == nil {
			return
		}
		// "carrying the handler's result and error text"
		bad := func(clause, f string, a ...any) {
			c.mismatch = append(c.mismatch, clause+"\x00"+fmt.Sprintf(f, a...))
		}
		switch {
		case exp.hasErr && rep.Error == nil:
			bad("reply-error-lost", "the handler returned an error (text %q, error kind %s) and result %+v for command %s; the reply the caller got reports success (Error == nil, result %+v)", clip(exp.errText), c.errKind, exp.res, c.id, rep.HandlerResult)
		case !exp.hasErr && rep.Error != nil:
			bad("reply-error-invented", "the handler succeeded for command %s (result %+v); the reply the caller got carries the error %q", c.id, exp.res, clip(rep.Error.Error()))
		case exp.hasErr && rep.Error.Error() != exp.errText:
			bad("reply-error-text", "the handler's error text for command %s was %q (error kind %s); the reply carries %q", c.id, clip(exp.errText), c.errKind, clip(rep.Error.Error()))
		}
		if rep.HandlerResult != exp.res {
			bad("reply-result", "the handler returned result %+v for command %s (error: %v); the reply carries %+v", exp.res, c.id, exp.hasErr, rep.HandlerResult)
		}
	}
	// attempt is a send whose panic the caller recovers from
	attempt := func(ctx context.Context, single bool, b requestreply.CommandBus, cmd any) (ch <-chan requestreply.Reply[Res], cancel func(), err error, panicked string) {
		defer func() {
			if p := recover(); p != nil {
				panicked = fmt.Sprint(p)
			}
		}()
		if single {
			_, err = requestreply.SendWithReply[Res](ctx, b, sendBackend, cmd)
			return nil, nil, err, ""
		}
		ch, cancel, err = requestreply.SendWithReplies[Res](ctx, b, sendBackend, cmd)
		return ch, cancel, err, ""
	}
	for _, c := range callers {
		go func(c *caller) {
			defer close(c.done)
			// the caller's own context is never cancelled before the judgement unless that is how this caller ends its request: a caller
			// that stopped reading and relies on ListenForReplyTimeout / its deadline does nothing at all any more (released at teardown)
			var ctx context.Context
			var cancelCtx context.CancelFunc
			switch c.ctxKind {
			case "far":
				ctx, cancelCtx = context.WithTimeout(context.Background(), farDeadline)
			case "near":
				ctx, cancelCtx = context.WithTimeout(context.Background(), c.nearD)
				noteDeadline(ctx)
			default:
				ctx, cancelCtx = context.WithCancel(context.Background())
			}
			mu.Lock()
			c.cancelCtx = cancelCtx
			mu.Unlock()
			var cmd any = &Cmd{ID: c.id, Fails: c.fails, ErrKind: c.errKind, ErrLen: c.errLen, ErrText: c.errText, ZeroRes: c.zeroRes}
			if c.noReply {
				cmd = &Void{ID: c.id}
			}
			if c.sendFault != "" {
				// first attempt: the listener starts, then sending the command fails
				var b requestreply.CommandBus = bus
				fcmd := cmd
				switch c.sendFault {
				case "closed-pubsub":
					b = deadBus
				case "bus-error":
					b = failingBus{}
				case "marshal-error":
					fcmd = &Bad{ID: c.id, F: func() {}}
				}
				mu.Lock()
				sendTry[c.id]++
				mu.Unlock()
				fch, fcancel, ferr, fpanic := attempt(ctx, c.behaviour == "single", b, fcmd)
				events.Add(1)
				mu.Lock()
				switch {
				case fpanic != "":
					c.faultPanic = fpanic
				case ferr != nil:
					c.faultErr = ferr.Error()
				default:
					c.faultMiss = true
				}
				c.cancel = fcancel // used at teardown only
				mu.Unlock()
				if fpanic == "" && ferr == nil {
					// the fault was not reported (the case is inconclusive): release whatever was started
					if fcancel != nil {
						fcancel()
					}
					if fch != nil {
						for range fch {
						}
					}
					return
				}
				if !c.retry {
					// An error: the caller of SendWithReply holds nothing it could cancel, the caller of SendWithReplies follows the
					// convention to ignore the other results. It does nothing any more.
					// A panic: after recovering the caller can only end its context; it does so late.
					if fpanic != "" {
						<-lateCancel
						mu.Lock()
						c.endCalled = true
						mu.Unlock()
						cancelCtx()
					}
					return
				}
				if fpanic != "" {
					// the statement promises the end of a listener once the caller cancelled / its context ended / the time-out passed;
					// after a panic the caller holds only its context: it ends it when it is done with the second attempt
					defer cancelCtx()
				}
			}
			mu.Lock()
			sendTry[c.id]++
			mu.Unlock()
			if c.behaviour == "single" {
				if c.endBy == "parent" {
					go func() {
						select {
						case <-lateCancel:
							mu.Lock()
							c.endCalled = true
							mu.Unlock()
							cancelCtx()
						case <-c.done:
						}
					}()
				}
				rep, err := requestreply.SendWithReply[Res](ctx, bus, sendBackend, cmd)
				if err != nil {
					mu.Lock()
					c.sendErr = err.Error()
					mu.Unlock()
					return
				}
				classify(c, rep)
				mu.Lock()
				c.closed = true // SendWithReply cancels by itself; the channel is not visible
				mu.Unlock()
				return
			}
			ch, cancel, err := requestreply.SendWithReplies[Res](ctx, bus, sendBackend, cmd)
			if err != nil {
				mu.Lock()
				c.sendErr = err.Error()
				mu.Unlock()
				return
			}
			mu.Lock()
			c.ch, c.cancel = ch, cancel
			mu.Unlock()
			end := func() {
				mu.Lock()
				c.endCalled = true
				mu.Unlock()
				switch c.endBy {
				case "cancel":
					cancel()
				case "parent":
					cancelCtx()
				}
			}
			setClosed := func() {
				mu.Lock()
				c.closed = true
				mu.Unlock()
			}
			switch c.behaviour {
			case "drain", "late-drain":
				if c.behaviour == "late-drain" {
					// not reading while the replies arrive: the first one sits in the channel, the listener is parked with the
					// second one, the others wait behind it
					<-lateCancel
				}
				for len(c.got)+len(c.foreign) < c.expect {
					rep, ok := <-ch
					if !ok {
						setClosed()
						return
					}
					classify(c, rep)
				}
				end()
				for rep := range ch {
					classify(c, rep)
				}
				setClosed()
			case "one-late":
				select {
				case rep, ok := <-ch:
					if ok {
						classify(c, rep)
					}
				case <-lateCancel:
				}
				<-lateCancel
				end()
			case "never-read":
				<-lateCancel
				end()
			case "cancel-now":
				end()
				for rep := range ch {
					classify(c, rep)
				}
				setClosed()
			}
		}(c)
	}
	// wait until every command has been handled as often as it will be (or nothing moves any more)
	allHandled := func() bool {
		mu.Lock()
		defer mu.Unlock()
		for _, c := range callers {
			want := c.wantCalls
			if c.noReply || c.unsent {
				want = 0
			}
			for h := 0; h < fanout; h++ {
				if handlerCalls[hkey(h, c.id)] < want {
					return false
				}
			}
		}
		return true
	}
	waitT(func() bool { return allHandled() || runawayCmd.Load() != nil })
	// let everything settle - unless a redelivery loop shows up (it never settles)
	waitT(func() bool { return runawayCmd.Load() != nil })
	if c := runawayCmd.Load(); c != nil {
		mu.Lock()
		calls := 0
		for h := 0; h < fanout; h++ {
			if handlerCalls[hkey(h, *c)] > calls {
				calls = handlerCalls[hkey(h, *c)]
			}
		}
		mu.Unlock()
		res.Fail("runaway-redelivery", "command %s was handed to the handler %d times and is still being redelivered (no script nacks a command that often); %s", *c, calls, spec)
		close(lateCancel)
		mu.Lock()
		for _, c := range callers {
			if c.cancelCtx != nil {
				c.cancelCtx()
			}
		}
		mu.Unlock()
		vlib.WaitClosed(runDone, wo)
		res.Events = int(events.Load())
		res.NonTrivial = true
		res.Sig = vlib.Sig(spec, "runaway")
		return res
	}
	// judgeSettlement (mu held; quiescent): every delivery of a command is settled as the statement and the godoc of
	// PubSubBackendConfig say, cell by cell:
	//   reply published                                   -> ack; nack iff the handler failed and AckCommandErrors=false
	//   reply publish failed, no ReplyPublishErrorHandler -> nack ("Command will be nacked by default when sending reply fails")
	//   reply publish failed, handler returned an error   -> nack ("If it returns an error the command will be nacked")
	//   reply publish failed, handler returned nil        -> the lost reply does not decide: as AckCommandErrors says for the
	//                                                        handler's outcome ("you can control this behaviour with the ReplyPublishErrorHandler")
	cells := map[string]int{}
	judgeSettlement := func() {
		cells = map[string]int{}
		if rpehUnknown > 0 {
			res.Inconclusive("the ReplyPublishErrorHandler was invoked %d time(s) with a notification the harness did not see being built: deliveries cannot be attributed", rpehUnknown)
			return
		}
		for _, cl := range callers {
			for h := 0; h < fanout && !cl.noReply; h++ {
				c := cl.id
				calls := handlerCalls[hkey(h, c)]
				copies := deliveries[hkey(h, c)]
				if len(copies) == 0 {
					continue
				}
				for i, cp := range copies {
					o := byDelivery[cp]
					if o == nil {
						continue
					}
					events.Add(1)
					st := vlib.Settled(cp)
					byFlag := "ack"
					if o.hasErr && !ackErrors {
						byFlag = "nack"
					}
					hOut := map[bool]string{true: "failed", false: "ok"}[o.hasErr]
					failed := failedCopies[cp]
					tolerated := failed && rpehConfigured && tolerates(c, o.att)
					ctx := fmt.Sprintf("command %s, delivery #%d to handler %d (handler %s, AckCommandErrors=%v, ReplyPublishErrorHandler configured=%v, invoked %d time(s) for this reply, answered %q)", c, i+1, h, hOut, ackErrors, rpehConfigured, rpehCalls[cp], rpehAnswer[cp])
					switch {
					case failed && !tolerated:
						how := "absent"
						if rpehConfigured {
							how = "err"
						}
						cells[fmt.Sprintf("settlement_cell_ackErrors=%v_publish=failed_replyErrHandler=%s_handler=%s", ackErrors, how, hOut)]++
						// "only after the reply was published": the reply is lost and nobody tolerated that
						if st == "ack" {
							res.Fail("acked-without-reply", "%s was acked although the Publish of its reply failed and %s; %s", ctx, map[bool]string{true: "the ReplyPublishErrorHandler is scripted to return an error for it", false: "no ReplyPublishErrorHandler is configured"}[rpehConfigured], spec)
						} else if st != "nack" {
							res.Fail("command-settlement", "%s is %q at quiescence, want nack (the Publish of its reply failed); %s", ctx, st, spec)
						}
					case failed && tolerated:
						cells[fmt.Sprintf("settlement_cell_ackErrors=%v_publish=failed_replyErrHandler=nil_handler=%s", ackErrors, hOut)]++
						if st != byFlag {
							res.Fail("tolerated-reply-loss-settlement", "%s is %q, want %s: the Publish of its reply failed and the ReplyPublishErrorHandler is scripted to return nil for it, so the lost reply decides nothing and the command is acked or nacked as AckCommandErrors says for the handler's outcome; %s", ctx, st, byFlag, spec)
						}
					default:
						cells[fmt.Sprintf("settlement_cell_ackErrors=%v_publish=ok_replyErrHandler=%s_handler=%s", ackErrors, map[bool]string{true: "configured", false: "absent"}[rpehConfigured], hOut)]++
						if st != byFlag {
							res.Fail("command-settlement", "%s is %q, want %s (its reply was published); %s", ctx, st, byFlag, spec)
						}
					}
				}
				if ackErrors && calls != cl.wantCalls {
					// handler errors are acked: nothing but an untolerated reply-publish failure redelivers the command
					res.Fail("command-settlement", "command %s: AckCommandErrors=true, %d untolerated reply publish failure(s) scripted: handler %d ran %d times, want %d; %s", c, cl.wantCalls-1, h, calls, cl.wantCalls, spec)
				}
			}
		}
	}
	// which listeners are parked on a full reply channel right now (quiescent: every reply of the case has been produced)?
	parkedUnread, lateMulti, panicKept := 0, 0, 0
	mu.Lock()
	for _, c := range callers {
		// observation only (the statement promises termination once the caller's context ends, which has not happened yet): a listener
		// whose send panicked is still running although the caller holds nothing but its context
		if c.faultPanic != "" && !c.retry && !c.selfEnding && finished[c.id] < started[c.id] {
			panicKept++
		}
		if (c.behaviour == "late-drain" || c.behaviour == "never-read") && c.expect >= 2 {
			parkedUnread++
		}
		if c.behaviour == "late-drain" && !c.selfEnding && c.expect >= 3 {
			lateMulti++
		}
	}
	mu.Unlock()
	close(lateCancel)
	allDone := make(chan struct{})
	go func() {
		for _, c := range callers {
			<-c.done
		}
		close(allDone)
	}()
	if oc, d := waitT(func() bool { return vlib.IsClosed(allDone) }); oc == vlib.Stuck {
		mu.Lock()
		// quiescent: nothing will be settled any more. The settlements first - a wrongly acked command explains a caller that
		// waits for the replies of its redeliveries
		judgeSettlement()
		for _, c := range callers {
			if vlib.IsClosed(c.done) {
				continue
			}
			reading := c.behaviour == "drain" || c.behaviour == "late-drain" || c.behaviour == "cancel-now" || c.behaviour == "single"
			switch {
			case c.behaviour == "late-drain" && !c.selfEnding && len(c.got)+len(c.foreign) < c.expect:
				res.Fail("reply-lost-while-not-reading", "caller %s read nothing while the %d replies of its command were produced, then drained: it received %d of them %v and waits for the rest for ever (quiescent; no time-out, no deadline, not cancelled); %s", c.id, c.expect, len(c.got), c.got, spec)
			case reading && c.endBy == "rely" && useTimeout && c.ctxKind != "near":
				res.Fail("timeout-not-honoured", "caller %s (%s, context %s) relies on ListenForReplyTimeout=%s: the time-out passed long ago and the reply channel is still open / SendWithReply has not returned (quiescent); %s", c.id, c.behaviour, c.ctxKind, timeout, spec)
			case reading && ((c.endBy == "parent" && c.endCalled) || (c.endBy == "rely" && c.ctxKind == "near")):
				res.Fail("context-end-not-honoured", "caller %s (%s): its context ended (%s) but the reply channel is still open / SendWithReply has not returned (quiescent); %s", c.id, c.behaviour, map[bool]string{true: "deadline " + c.nearD.String(), false: "cancelled"}[c.ctxKind == "near"], spec)
			default:
				res.Fail("caller-stuck", "caller %s (%s, ended by %s) that drains its reply channel never saw it closed / never got its replies: %d of %d (quiescent): %s", c.id, c.behaviour, c.endBy, len(c.got), c.expect, spec)
			}
		}
		mu.Unlock()
		res.Witness = d
	} else if oc == vlib.Inconclusive {
		res.Inconclusive("callers neither finished nor quiescent")
	}
	if oc, _ := waitT(func() bool { return false }); oc == vlib.Inconclusive {
		res.Inconclusive("not quiescent")
	}

	// judgement, part 1: before touching the channels of callers that stopped reading
	readLate, relyFar, closedAfterFault := 0, 0, 0
	if res.Verdict == "" {
		mu.Lock()
		for _, c := range callers {
			ctxMayEnd := c.ctxKind == "near" || (c.behaviour == "single" && c.endBy == "parent")
			if c.sendErr != "" && !(ctxMayEnd && strings.Contains(c.sendErr, "context")) {
				res.Fail("send-error", "SendWithReplies failed: %s (%s)", c.sendErr, spec)
			}
			if len(c.foreign) > 0 {
				res.Fail("foreign-reply", "caller of command %s received replies that do not belong to it: %v (own: %v); %s", c.id, c.foreign, c.got, spec)
			}
			// with ListenForReplyTimeout or a near deadline the listening may legitimately end before the last reply (slow machine):
			// completeness is demanded only when nothing but the caller itself ends the request - and these callers do so only
			// after they have got everything
			want := c.expect
			if c.behaviour == "single" && want > 1 {
				want = 1
			}
			if !c.selfEnding && (c.behaviour == "drain" || c.behaviour == "late-drain" || c.behaviour == "single") && len(c.got) < want {
				res.Fail("reply-missing", "caller %s (%s) received %d of %d expected replies: %v (%d time-out replies; nothing but the caller could end the listening); %s", c.id, c.behaviour, len(c.got), want, c.got, c.timeouts, spec)
			}
			if c.behaviour == "late-drain" {
				readLate += len(c.got)
			}
			if c.endBy == "rely" && useTimeout && c.ctxKind == "far" {
				relyFar++
			}
			for _, m := range c.mismatch {
				clause, text, _ := strings.Cut(m, "\x00")
				res.Fail(clause, "%s; caller %s, AckCommandErrors=%v; %s", text, c.behaviour, ackErrors, spec)
			}
			if c.faultMiss {
				res.Inconclusive("the scripted fault %s in the send of command %s was reported neither as an error nor as a panic", c.sendFault, c.id)
			}
			if c.sendFault != "" {
				// every listener that was started has to finish, also the one whose command could not be sent: its caller got
				// nothing but an error, so nobody else will ever end it
				if finished[c.id] != started[c.id] {
					how := "returned the error " + fmt.Sprintf("%q", clip(c.faultErr))
					if c.faultPanic != "" {
						how = "panicked (" + c.faultPanic + "), the caller recovered and has cancelled its context since"
					}
					res.Fail("listener-not-finished-after-failed-send", "command %s: %d listener(s) were started, OnListenForReplyFinished ran %d times at quiescence; the first send (fault %s, %s, context %s) %s, retry=%v; %s", c.id, started[c.id], finished[c.id], c.sendFault, map[bool]string{true: "SendWithReply", false: "SendWithReplies"}[c.behaviour == "single"], c.ctxKind, how, c.retry, spec)
				}
			} else if finished[c.id] != 1 {
				res.Fail("listener-not-finished", "OnListenForReplyFinished ran %d times for command %s (caller behaviour %s, context %s, ended by %s, %d replies produced) at quiescence, want exactly 1; %s", finished[c.id], c.id, c.behaviour, c.ctxKind, c.endBy, c.expect, spec)
			}
		}
		for _, s := range settledEarly {
			res.Fail("settled-before-reply-published", "%s; %s", s, spec)
		}
		judgeSettlement()
		mu.Unlock()
		if !res.Failed() {
			if after, dump := vlib.CountGoroutines(listenerLeak); after > leakBefore {
				res.Fail("listener-goroutine-leak", "%d reply-listener goroutine(s) still exist after every request was cancelled (quiescent); %s", after-leakBefore, spec)
				res.Witness = dump
			}
		}
	}
	// part 2: the reply channels of callers that stopped reading must be closed
	if res.Verdict == "" {
		for _, c := range callers {
			mu.Lock()
			ch, closed := c.ch, c.closed
			mu.Unlock()
			if ch == nil || closed {
				continue
			}
			ended := make(chan struct{})
			go func() {
				for range ch {
				}
				close(ended)
			}()
			if oc, d := waitT(func() bool { return vlib.IsClosed(ended) }); oc == vlib.Stuck {
				res.Fail("reply-channel-not-closed", "reply channel of command %s (caller %s, context %s, ended by %s) was never closed (quiescent); %s", c.id, c.behaviour, c.ctxKind, c.endBy, spec)
				res.Witness = d
				break
			}
		}
	}
	// ... and so must the reply channel of a listener whose command could not be sent (the caller never got it: only the
	// decorated backend saw it)
	if res.Verdict == "" {
		for _, c := range callers {
			mu.Lock()
			var ch <-chan requestreply.Reply[Res]
			if c.sendFault != "" && !c.faultMiss && len(lchans[c.id]) > 0 {
				ch = lchans[c.id][0]
			}
			mu.Unlock()
			if ch == nil {
				continue
			}
			ended := make(chan struct{})
			go func() {
				for range ch {
				}
				close(ended)
			}()
			if oc, d := waitT(func() bool { return vlib.IsClosed(ended) }); oc == vlib.Stuck {
				res.Fail("reply-channel-not-closed-after-failed-send", "reply channel of the listener started for command %s was never closed although sending the command failed (fault %s, context %s; quiescent); %s", c.id, c.sendFault, c.ctxKind, spec)
				res.Witness = d
				break
			}
			closedAfterFault++
		}
	}
	// teardown
	mu.Lock()
	for _, c := range callers {
		if c.cancel != nil {
			c.cancel()
		}
		if c.cancelCtx != nil {
			c.cancelCtx()
		}
	}
	mu.Unlock()
	cd := make(chan struct{})
	go func() { router.Close(); ps.Close(); close(cd) }()
	vlib.WaitClosed(cd, wo)
	vlib.WaitClosed(runDone, wo)
	for k := 0; k < 3; k++ {
		runtime.Gosched()
	}
	res.Events = int(events.Load())
	res.Hooks = ctl.Counts()
	res.Count("requests", n)
	if fanout > 1 {
		res.Count("fanout_cases", 1)
	}
	res.Count("callers_that_stopped_reading", stoppedReading)
	res.Count("listeners_parked_on_full_channel", parkedUnread)
	res.Count("late_drainers_with_3plus_replies", lateMulti)
	res.Count("replies_read_late", readLate)
	res.Count("relying_on_timeout_with_far_deadline", relyFar)
	res.Count("send_faults_scripted", faulted)
	res.Count("commands_whose_handler_error_is_a_sentinel_value", errValueCmds)
	res.Count("commands_failing_on_every_invocation_with_AckCommandErrors", alwaysFailing)
	res.Count("commands_whose_handler_error_text_is_hostile", hostileCmds)
	res.Count("commands_whose_handler_error_text_contains_a_percent_sign", hostilePercent)
	res.Count("send_fault_retries", retried)
	res.Count("reply_channels_seen_closed_after_failed_send", closedAfterFault)
	res.Count("listeners_still_running_after_send_panic_until_context_end", panicKept)
	kinds := map[string]int{}
	mu.Lock()
	for k, v := range cells {
		kinds[k] += v
	}
	kinds["reply_publish_faults_fired"] = replyFaultsFired
	kinds["commands_with_reply_publish_faults"] = replyFaultCmds
	if rpehConfigured {
		kinds["cases_with_ReplyPublishErrorHandler"] = 1
	}
	kinds["ReplyPublishErrorHandler_invoked_without_publish_failure"] = rpehSpurious
	for _, a := range rpehAnswer {
		kinds["ReplyPublishErrorHandler_returned_"+a]++
	}
	for _, c := range callers {
		if len(c.pubFaultAt) > 0 && c.expect == 0 {
			kinds["commands_whose_every_reply_was_lost_and_tolerated"]++
		}
	}
	for k, v := range faultsFired {
		kinds["send_fault_fired_"+k] += v
	}
	for _, c := range callers {
		kinds["ctx_"+c.ctxKind]++
		kinds["end_by_"+c.endBy]++
		if c.noReply {
			kinds["no_reply_requests"]++
		}
		if c.faultErr != "" {
			kinds["failed_sends_reported_as_error"]++
			if c.sendFault == "closed-pubsub" || c.sendFault == "bus-error" || c.sendFault == "marshal-error" {
				kinds["send_fault_fired_"+c.sendFault]++
			}
			if c.behaviour == "single" {
				kinds["failed_sends_SendWithReply"]++
			}
			if !c.selfEnding && !c.retry {
				kinds["failed_sends_unbounded_context_no_timeout"]++
			}
		}
		if c.faultPanic != "" {
			kinds["failed_sends_panicked"]++
		}
		if c.sendFault != "" {
			kinds["listeners_started_by_faulted_callers"] += started[c.id]
		}
		if c.fails > 0 && !c.noReply && !c.unsent {
			kinds["failing_handler_error_kind_"+c.errKind]++
		}
		if c.zeroRes && !c.noReply && !c.unsent {
			kinds["commands_with_zero_value_result"]++
		}
		kinds["error_replies_received"] += c.errReplies
		if c.errKind == "empty" || c.errKind == "typed-empty" {
			kinds["error_replies_with_empty_text_received"] += c.errReplies
		}
		if c.errKind == "hostile" {
			kinds["error_replies_with_hostile_text_received"] += c.errReplies
			if strings.Contains(c.errText, "%") {
				kinds["error_replies_with_percent_sign_in_text_received"] += c.errReplies
			}
		}
	}
	mu.Unlock()
	for k, v := range kinds {
		res.Count(k, v)
	}
	res.NonTrivial = n >= 2 || stoppedReading > 0
	shape := spec
	for _, c := range callers {
		shape += fmt.Sprintf("|%s:%d:%s:%s:%v", c.behaviour, c.fails, c.ctxKind, c.endBy, c.noReply)
		if c.fails > 0 {
			shape += ":" + c.errKind
		}
		if c.zeroRes {
			shape += ":zero"
		}
		if c.sendFault != "" {
			shape += fmt.Sprintf(":%s:%v", c.sendFault, c.retry)
		}
		if len(c.pubFaultAt) > 0 {
			shape += fmt.Sprintf(":rf%v%v%v", c.pubFaultAt[1], c.pubFaultAt[2], c.pubFaultAt[3])
			if rpehConfigured {
				shape += fmt.Sprintf(":tol%v", c.tolerate)
			}
		}
	}
	res.Sig = vlib.Sig(shape, ctl.Fingerprint())
	res.Sample = map[string]any{"spec": spec, "callers": len(callers), "send_faults": faulted, "stopped_reading": stoppedReading, "late_drainers_with_3plus_replies": lateMulti, "relying_on_timeout_with_far_deadline": relyFar}
	return res
}

// deadlineSub is the reply subscriber handed to the backend: it notes the deadline of the context the listener subscribes with.
type deadlineSub struct {
	inner message.Subscriber
	note  func(context.Context)
}

func (d *deadlineSub) Subscribe(ctx context.Context, topic string) (<-chan *message.Message, error) {
	d.note(ctx)
	return d.inner.Subscribe(ctx, topic)
}

func (d *deadlineSub) Close() error { return nil }

type samplingPub struct {
	inner  message.Publisher
	before func([]*message.Message) error
	after  func([]*message.Message)
}

func (p *samplingPub) Publish(topic string, msgs ...*message.Message) error {
	if p.before != nil {
		if err := p.before(msgs); err != nil {
			return err
		}
	}
	err := p.inner.Publish(topic, msgs...)
	p.after(msgs)
	return err
}

func (p *samplingPub) Close() error { return nil }
