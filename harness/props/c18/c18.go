// Package c18: request-reply — replies reach only their requester and listeners always finish.
package c18

import (
	"context"
	"errors"
	"fmt"
	"runtime"
	"strings"
	"sync"
	"sync/atomic"
	"time"

	"github.com/ThreeDotsLabs/watermill"
	"github.com/ThreeDotsLabs/watermill/components/cqrs"
	"github.com/ThreeDotsLabs/watermill/components/requestreply"
	"github.com/ThreeDotsLabs/watermill/message"
	"github.com/ThreeDotsLabs/watermill/pubsub/gochannel"

	"verifharness/vlib"
)

// Cmd is the command type of the workload.
type Cmd struct {
	ID    string `json:"id"`
	Fails int    `json:"fails"` // the handler fails this many times before succeeding (99 = always)
}

// Res is the handler result.
type Res struct {
	ID      string `json:"id"`
	Attempt int    `json:"attempt"`
}

const wgtFrame = "pubsub/sync.WaitGroupTimeout"

func init() {
	vlib.Register(&vlib.Prop{
		ID:    "C18",
		Level: "exploration",
		Cases: func(tier string) int { return vlib.TierN(tier, 320, 42000) },
		Rule: "each case: one GoChannel, Router, cqrs.CommandProcessor with a requestreply handler and a PubSubBackend whose reply topic is shared by all requests; 1..32 concurrent SendWithReplies / SendWithReply calls; " +
			"handler outcomes per command {result, error, error k times then success (k+1 replies when AckCommandErrors=false)}; AckCommandErrors on/off; optional ListenForReplyTimeout; caller behaviours {drain then cancel, read one and cancel late, never read then cancel, cancel right away}; yield injection at the listener/router/gochannel hook points. " +
			"Oracle: every reply a caller receives carries its own command id (result id or error text), draining callers get all their replies; the command message is unsettled when its reply is published and afterwards settled as AckCommandErrors says; " +
			"after cancel (or, when ListenForReplyTimeout is configured, after the time-out alone: callers that stopped reading then never call cancel) and at quiescence OnListenForReplyFinished ran exactly once per request and no listener goroutine remains - checked before the harness touches the reply channel of callers that stopped reading - and then the reply channel is observed closed. " +
			"Non-trivial: >=2 concurrent requests shared the reply topic, or a caller stopped reading with replies pending. Distinct = (program shape, hook fingerprint).",
		Assumptions: []string{
			"replies after cancel/timeout may be ReplyTimeoutError values; they are not attributed to a command",
			"for ListenForReplyTimeout cases quiescence is judged only after the harness-known deadline has passed (context deadlines are invisible in goroutine dumps)",
		},
		Run: run,
	})
}

type caller struct {
	id         string
	fails      int
	replyFault bool   // the first Publish of a reply for this command is rejected by the reply publisher
	behaviour  string // drain | one-late | never-read | cancel-now | single
	expect     int    // replies the handler will produce
	got        []string
	foreign    []string
	timeouts   int
	closed     bool
	sendErr    string
	ch         <-chan requestreply.Reply[Res]
	cancel     func()
	cancelCtx  func()
	done       chan struct{}
}

func run(e *vlib.Env) vlib.Result {
	r := e.R
	id := e.ID()
	n := r.Range(1, 32)
	ackErrors := r.Bool()
	useTimeout := r.Chance(0.2)
	useOnHandle := r.Bool()
	yieldP := []float64{0, 0.3, 0.6}[r.Intn(3)]
	timeout := 25 * time.Millisecond
	spec := fmt.Sprintf("requests=%d ackCommandErrors=%v listenTimeout=%v onHandle=%v yield=%.1f", n, ackErrors, useTimeout, useOnHandle, yieldP)
	res := vlib.Result{Class: fmt.Sprintf("ackErrors=%v/timeout=%v", ackErrors, useTimeout), Spec: spec}
	wo := vlib.WaitOpts{Watchdog: 40 * time.Second, NoTimerCheck: []string{wgtFrame}}

	ctl := vlib.NewCtl(r.Uint64(), yieldP, 60)
	defer ctl.Uninstall()
	listenerLeak := func(g vlib.Goroutine) bool {
		return g.Has("requestreply.PubSubBackend") && g.Has("ListenForNotifications")
	}
	leakBefore, _ := vlib.CountGoroutines(listenerLeak)

	logger := watermill.NopLogger{}
	ps := gochannel.NewGoChannel(gochannel.Config{}, logger)
	var mu sync.Mutex
	finished := map[string]int{}                 // command id -> OnListenForReplyFinished calls
	cmdMsgs := map[string]*message.Message{}     // operation id -> consumed command message (last delivery)
	cmdCopies := map[string][]*message.Message{} // operation id -> every delivered copy of the command
	cmdOf := map[string]string{}                 // operation id -> command id
	var settledEarly []string
	handlerCalls := map[string]int{}
	var events atomic.Int64
	runaway := make(chan struct{})
	var runawayOnce sync.Once
	var runawayCmd atomic.Pointer[string]
	defer runawayOnce.Do(func() { close(runaway) })

	replyFaults := map[string]bool{}    // command id -> reject its first reply publish
	replyFaultFired := map[string]int{} // command id -> rejected reply publishes so far
	failedCopies := map[*message.Message]bool{}
	replyPub := &samplingPub{inner: ps, before: func(msgs []*message.Message) error {
		mu.Lock()
		defer mu.Unlock()
		for _, m := range msgs {
			op := m.Metadata.Get(requestreply.OperationIDMetadataKey)
			c := cmdOf[op]
			if replyFaults[c] && replyFaultFired[c] == 0 {
				replyFaultFired[c]++
				if cm := cmdMsgs[op]; cm != nil {
					failedCopies[cm] = true
				}
				return errors.New("scripted reply publisher failure")
			}
		}
		return nil
	}, after: func(msgs []*message.Message) {
		mu.Lock()
		defer mu.Unlock()
		for _, m := range msgs {
			op := m.Metadata.Get(requestreply.OperationIDMetadataKey)
			if cm := cmdMsgs[op]; cm != nil {
				events.Add(1)
				if st := vlib.Settled(cm); st != "" {
					settledEarly = append(settledEarly, fmt.Sprintf("command %s was already %sed when the Publish of its reply returned", cmdOf[op], st))
				}
			}
		}
	}}
	bcfg := requestreply.PubSubBackendConfig{
		Publisher: replyPub,
		SubscriberConstructor: func(requestreply.PubSubBackendSubscribeParams) (message.Subscriber, error) {
			return ps, nil
		},
		GenerateSubscribeTopic: func(requestreply.PubSubBackendSubscribeParams) (string, error) { return id + "/reply", nil },
		GeneratePublishTopic:   func(requestreply.PubSubBackendPublishParams) (string, error) { return id + "/reply", nil },
		Logger:                 logger,
		AckCommandErrors:       ackErrors,
		ModifyNotificationMessage: func(msg *message.Message, p requestreply.PubSubBackendOnCommandProcessedParams) error {
			mu.Lock()
			cmdMsgs[string(p.OperationID)] = p.CommandMessage
			cmdCopies[string(p.OperationID)] = append(cmdCopies[string(p.OperationID)], p.CommandMessage)
			if c, ok := p.Command.(*Cmd); ok {
				cmdOf[string(p.OperationID)] = c.ID
			}
			mu.Unlock()
			return nil
		},
		OnListenForReplyFinished: func(ctx context.Context, p requestreply.PubSubBackendSubscribeParams) {
			if c, ok := p.Command.(*Cmd); ok {
				mu.Lock()
				finished[c.ID]++
				mu.Unlock()
			}
		},
	}
	if useTimeout {
		bcfg.ListenForReplyTimeout = &timeout
	}
	backend, err := requestreply.NewPubSubBackend[Res](bcfg, requestreply.BackendPubsubJSONMarshaler[Res]{})
	if err != nil {
		res.Verdict, res.Reason = vlib.HarnessError, err.Error()
		return res
	}
	router, _ := message.NewRouter(message.RouterConfig{CloseTimeout: time.Hour}, logger)
	marshaler := cqrs.JSONMarshaler{}
	bus, err := cqrs.NewCommandBusWithConfig(ps, cqrs.CommandBusConfig{
		GeneratePublishTopic: func(cqrs.CommandBusGeneratePublishTopicParams) (string, error) { return id + "/commands", nil },
		Marshaler:            marshaler, Logger: logger,
	})
	if err != nil {
		res.Verdict, res.Reason = vlib.HarnessError, err.Error()
		return res
	}
	var onHandle cqrs.CommandProcessorOnHandleFn
	if useOnHandle {
		// the documented pass-through form
		onHandle = func(params cqrs.CommandProcessorOnHandleParams) error {
			return params.Handler.Handle(params.Message.Context(), params.Command)
		}
	}
	proc, err := cqrs.NewCommandProcessorWithConfig(router, cqrs.CommandProcessorConfig{
		GenerateSubscribeTopic: func(cqrs.CommandProcessorGenerateSubscribeTopicParams) (string, error) { return id + "/commands", nil },
		SubscriberConstructor:  func(cqrs.CommandProcessorSubscriberConstructorParams) (message.Subscriber, error) { return ps, nil },
		Marshaler:              marshaler, Logger: logger,
		OnHandle: onHandle,
	})
	if err != nil {
		res.Verdict, res.Reason = vlib.HarnessError, err.Error()
		return res
	}
	err = proc.AddHandlers(requestreply.NewCommandHandlerWithResult[Cmd, Res](id+"/handler", backend, func(ctx context.Context, c *Cmd) (Res, error) {
		mu.Lock()
		handlerCalls[c.ID]++
		att := handlerCalls[c.ID]
		mu.Unlock()
		events.Add(1)
		if att > 60 {
			// no script redelivers a command that often: a redelivery loop (it would never become quiescent)
			id := c.ID
			runawayOnce.Do(func() { runawayCmd.Store(&id); close(runaway) })
		}
		if att <= c.Fails {
			return Res{ID: c.ID, Attempt: att}, fmt.Errorf("handler failed for %s attempt %d", c.ID, att)
		}
		return Res{ID: c.ID, Attempt: att}, nil
	}))
	if err != nil {
		res.Verdict, res.Reason = vlib.HarnessError, err.Error()
		return res
	}
	runDone := make(chan struct{})
	go func() { defer close(runDone); router.Run(context.Background()) }()
	go func() {
		// end a redelivery loop at once (the case is then judged as a violation below)
		<-runaway
		if runawayCmd.Load() != nil {
			router.Close()
			ps.Close()
		}
	}()
	if oc, _ := vlib.WaitClosed(router.Running(), wo); oc != vlib.Done {
		res.Inconclusive("router did not start")
		return res
	}

	// callers
	behaviours := []string{"drain", "drain", "one-late", "never-read", "cancel-now", "single"}
	callers := make([]*caller, n)
	stoppedReading := 0
	for i := range callers {
		c := &caller{id: fmt.Sprintf("%s/c%d", id, i), behaviour: behaviours[r.Intn(len(behaviours))], done: make(chan struct{})}
		switch r.Intn(4) {
		case 0:
			c.fails = 0
		case 1:
			c.fails = r.Range(1, 3)
		case 2:
			c.fails = 1
		default:
			c.fails = 0
		}
		if ackErrors {
			// an error is acked: exactly one reply whatever the outcome
			c.expect = 1
		} else {
			c.expect = c.fails + 1
		}
		if c.behaviour == "never-read" || c.behaviour == "one-late" {
			stoppedReading++
		}
		if c.fails == 0 && r.Chance(0.25) {
			// the reply publisher rejects the first reply: the command must be nacked and redelivered, the second reply arrives
			c.replyFault = true
			replyFaults[c.id] = true
		}
		callers[i] = c
	}
	lateCancel := make(chan struct{}) // closed by the harness once every command has been fully handled
	start := time.Now()
	classify := func(c *caller, rep requestreply.Reply[Res]) {
		events.Add(1)
		var te requestreply.ReplyTimeoutError
		if rep.Error != nil && errors.As(rep.Error, &te) {
			c.timeouts++
			return
		}
		desc := ""
		own := false
		if rep.Error != nil {
			desc = "error:" + rep.Error.Error()
			own = strings.Contains(rep.Error.Error(), " "+c.id+" ")
		} else {
			desc = "result:" + rep.HandlerResult.ID
			own = rep.HandlerResult.ID == c.id
		}
		// a reply carries the result even with an error: both must name this caller's command
		if rep.HandlerResult.ID != "" && rep.HandlerResult.ID != c.id {
			own = false
		}
		if own {
			c.got = append(c.got, desc)
		} else {
			c.foreign = append(c.foreign, desc)
		}
	}
	for _, c := range callers {
		go func(c *caller) {
			defer close(c.done)
			// the caller's own context is never cancelled before the judgement: a caller that stopped reading and relies on
			// ListenForReplyTimeout does nothing at all any more (the context is released at teardown)
			ctx, cancelCtx := context.WithCancel(context.Background())
			c.cancelCtx = cancelCtx
			cmd := &Cmd{ID: c.id, Fails: c.fails}
			if c.behaviour == "single" {
				rep, err := requestreply.SendWithReply[Res](ctx, bus, backend, cmd)
				if err != nil {
					c.sendErr = err.Error()
					return
				}
				classify(c, rep)
				c.closed = true // SendWithReply cancels by itself; the channel is not visible
				return
			}
			ch, cancel, err := requestreply.SendWithReplies[Res](ctx, bus, backend, cmd)
			if err != nil {
				c.sendErr = err.Error()
				return
			}
			c.ch, c.cancel = ch, cancel
			switch c.behaviour {
			case "drain":
				for len(c.got)+len(c.foreign) < c.expect {
					rep, ok := <-ch
					if !ok {
						c.closed = true
						return
					}
					classify(c, rep)
				}
				cancel()
				for rep := range ch {
					classify(c, rep)
				}
				c.closed = true
			case "one-late":
				if rep, ok := <-ch; ok {
					classify(c, rep)
				}
				<-lateCancel
				if !useTimeout { // with ListenForReplyTimeout the caller relies on the time-out: the listener must finish by itself
					cancel()
				}
			case "never-read":
				<-lateCancel
				if !useTimeout {
					cancel()
				}
			case "cancel-now":
				cancel()
				for rep := range ch {
					classify(c, rep)
				}
				c.closed = true
			}
		}(c)
	}
	// wait until every command has been handled as often as it will be (or nothing moves any more)
	allHandled := func() bool {
		mu.Lock()
		defer mu.Unlock()
		for _, c := range callers {
			want := 1
			if !ackErrors {
				want = c.fails + 1
			}
			if c.replyFault {
				want++
			}
			if handlerCalls[c.id] < want {
				return false
			}
		}
		return true
	}
	woT := wo
	if useTimeout {
		woT.NotBefore = start.Add(timeout + 20*time.Millisecond)
	}
	vlib.WaitUntil(func() bool { return allHandled() || runawayCmd.Load() != nil }, woT)
	// let everything settle - unless a redelivery loop shows up (it never settles)
	vlib.WaitUntil(func() bool { return runawayCmd.Load() != nil }, woT)
	if c := runawayCmd.Load(); c != nil {
		mu.Lock()
		calls := handlerCalls[*c]
		mu.Unlock()
		res.Fail("runaway-redelivery", "command %s was handed to the handler %d times and is still being redelivered (no script nacks a command that often); %s", *c, calls, spec)
		close(lateCancel)
		for _, c := range callers {
			if c.cancelCtx != nil {
				c.cancelCtx()
			}
		}
		vlib.WaitClosed(runDone, wo)
		res.Events = int(events.Load())
		res.NonTrivial = true
		res.Sig = vlib.Sig(spec, "runaway")
		return res
	}
	close(lateCancel)
	allDone := make(chan struct{})
	go func() {
		for _, c := range callers {
			<-c.done
		}
		close(allDone)
	}()
	if oc, d := vlib.WaitClosed(allDone, woT); oc == vlib.Stuck {
		res.Fail("caller-stuck", "a caller that drains its reply channel never saw it closed / never got its replies (quiescent): %s", spec)
		res.Witness = d
	} else if oc == vlib.Inconclusive {
		res.Inconclusive("callers neither finished nor quiescent")
	}
	if oc, _ := vlib.Settle(woT); oc == vlib.Inconclusive {
		res.Inconclusive("not quiescent")
	}

	// judgement, part 1: before touching the channels of callers that stopped reading
	if res.Verdict == "" {
		mu.Lock()
		for _, c := range callers {
			if c.sendErr != "" {
				res.Fail("send-error", "SendWithReplies failed: %s (%s)", c.sendErr, spec)
			}
			if len(c.foreign) > 0 {
				res.Fail("foreign-reply", "caller of command %s received replies that do not belong to it: %v (own: %v); %s", c.id, c.foreign, c.got, spec)
			}
			// with ListenForReplyTimeout the listening may legitimately end before the last reply (slow machine): completeness is
			// demanded only without a time-out
			if !useTimeout && (c.behaviour == "drain" || c.behaviour == "single") && len(c.got) < map[bool]int{true: 1, false: c.expect}[c.behaviour == "single"] && c.timeouts == 0 {
				res.Fail("reply-missing", "caller %s (%s) received %d of %d expected replies: %v; %s", c.id, c.behaviour, len(c.got), c.expect, c.got, spec)
			}
			if finished[c.id] != 1 {
				res.Fail("listener-not-finished", "OnListenForReplyFinished ran %d times for command %s (caller behaviour %s, %d replies produced) after cancel at quiescence, want exactly 1; %s", finished[c.id], c.id, c.behaviour, c.expect, spec)
			}
		}
		for _, s := range settledEarly {
			res.Fail("settled-before-reply-published", "%s; %s", s, spec)
		}
		for op, cm := range cmdMsgs {
			c := cmdOf[op]
			var cl *caller
			for _, x := range callers {
				if x.id == c {
					cl = x
				}
			}
			if cl == nil {
				continue
			}
			st := vlib.Settled(cm)
			events.Add(1)
			// cmdMsgs keeps the last delivered copy of the command: its outcome decides the expected settlement
			if ackErrors {
				// handler errors are acked: no redelivery, so exactly one handler call and no nacked delivery
				wantCalls := 1
				if cl.replyFault {
					wantCalls = 2
				}
				if handlerCalls[c] != wantCalls {
					res.Fail("command-settlement", "command %s: AckCommandErrors=true, %d reply publish failure(s): the handler ran %d times, want %d; %s", c, wantCalls-1, handlerCalls[c], wantCalls, spec)
				}
				for i, cp := range cmdCopies[op] {
					if s := vlib.Settled(cp); s != "ack" && !failedCopies[cp] {
						res.Fail("command-settlement", "command %s: AckCommandErrors=true but delivery #%d of the command is %q; %s", c, i+1, s, spec)
					}
				}
			}
			// a delivery whose reply could not be published must never be acked ("only after the reply was published")
			for i, cp := range cmdCopies[op] {
				if failedCopies[cp] && vlib.Settled(cp) == "ack" {
					res.Fail("acked-without-reply", "command %s: delivery #%d was acked although the Publish of its reply failed; %s", c, i+1, spec)
				}
			}
			wantAck := ackErrors || handlerCalls[c] > cl.fails
			if wantAck && st != "ack" {
				res.Fail("command-settlement", "command %s: last delivery is %q, want ack (AckCommandErrors=%v, handler calls %d, fails %d); %s", c, st, ackErrors, handlerCalls[c], cl.fails, spec)
			}
			if !wantAck && st != "nack" {
				res.Fail("command-settlement", "command %s: last delivery is %q, want nack; %s", c, st, spec)
			}
		}
		mu.Unlock()
		if !res.Failed() {
			if after, dump := vlib.CountGoroutines(listenerLeak); after > leakBefore {
				res.Fail("listener-goroutine-leak", "%d reply-listener goroutine(s) still exist after every request was cancelled (quiescent); %s", after-leakBefore, spec)
				res.Witness = dump
			}
		}
	}
	// part 2: the reply channels of callers that stopped reading must be closed
	if res.Verdict == "" {
		for _, c := range callers {
			if c.ch == nil || c.closed {
				continue
			}
			ended := make(chan struct{})
			go func(c *caller) {
				for range c.ch {
				}
				close(ended)
			}(c)
			if oc, d := vlib.WaitClosed(ended, woT); oc == vlib.Stuck {
				res.Fail("reply-channel-not-closed", "reply channel of command %s (caller %s) was never closed after cancel (quiescent); %s", c.id, c.behaviour, spec)
				res.Witness = d
				break
			}
		}
	}
	// teardown
	for _, c := range callers {
		if c.cancel != nil {
			c.cancel()
		}
		if c.cancelCtx != nil {
			c.cancelCtx()
		}
	}
	cd := make(chan struct{})
	go func() { router.Close(); ps.Close(); close(cd) }()
	vlib.WaitClosed(cd, wo)
	vlib.WaitClosed(runDone, wo)
	for k := 0; k < 3; k++ {
		runtime.Gosched()
	}
	res.Events = int(events.Load())
	res.Hooks = ctl.Counts()
	res.Count("requests", n)
	res.Count("callers_that_stopped_reading", stoppedReading)
	res.NonTrivial = n >= 2 || stoppedReading > 0
	shape := spec
	for _, c := range callers {
		shape += fmt.Sprintf("|%s:%d", c.behaviour, c.fails)
	}
	res.Sig = vlib.Sig(shape, ctl.Fingerprint())
	res.Sample = map[string]any{"spec": spec, "callers": len(callers), "stopped_reading": stoppedReading}
	return res
}

type samplingPub struct {
	inner  message.Publisher
	before func([]*message.Message) error
	after  func([]*message.Message)
}

func (p *samplingPub) Publish(topic string, msgs ...*message.Message) error {
	if p.before != nil {
		if err := p.before(msgs); err != nil {
			return err
		}
	}
	err := p.inner.Publish(topic, msgs...)
	p.after(msgs)
	return err
}

func (p *samplingPub) Close() error { return nil }
