package c18

import (
	"context"
	"sync"
	"time"

	"verifharness/vlib"
)

// deadlineWatch keeps the near context deadlines of a case (ListenForReplyTimeout as seen in the context the backend hands to the
// reply subscriber's Subscribe, near deadlines of caller contexts). A context deadline is invisible in goroutine dumps, and on a
// loaded machine the runtime may fire an expired context timer arbitrarily late: "quiescent" is therefore trusted only when
//
//   - every noted deadline has passed by `margin` (lower bound only; covers time-outs that are not context deadlines), and
//   - every noted context was OBSERVED done (ctx.Err() != nil: its Done channel is closed, its children are cancelled) before the
//     quiescence detector started the wait whose snapshot is used - no wall-clock assumption about when a timer fires.
//
// Deadlines of 10 min and more (the 1 h caller deadline) never fire within a case and are not noted.
type deadlineWatch struct {
	mu     sync.Mutex
	max    time.Time
	ctxs   []context.Context
	margin time.Duration
}

func (w *deadlineWatch) note(ctx context.Context) {
	if d, ok := ctx.Deadline(); ok && time.Until(d) < 10*time.Minute {
		w.mu.Lock()
		if d.After(w.max) {
			w.max = d
		}
		w.ctxs = append(w.ctxs, ctx)
		w.mu.Unlock()
	}
}

func (w *deadlineWatch) bound() time.Time {
	w.mu.Lock()
	defer w.mu.Unlock()
	if w.max.IsZero() {
		return time.Time{}
	}
	return w.max.Add(w.margin)
}

// fired: how many contexts have been noted, and whether every one of them is done
func (w *deadlineWatch) fired() (int, bool) {
	w.mu.Lock()
	cs := append([]context.Context(nil), w.ctxs...)
	w.mu.Unlock()
	for _, c := range cs {
		if c.Err() == nil {
			return len(cs), false
		}
	}
	return len(cs), true
}

// wait is vlib.WaitUntil that reports Stuck only under the two conditions above.
func (w *deadlineWatch) wait(cond func() bool, wo vlib.WaitOpts) (vlib.Outcome, string) {
	start := time.Now()
	for {
		nBefore, firedBefore := w.fired()
		o := wo
		o.NotBefore = w.bound()
		oc, d := vlib.WaitUntil(cond, o)
		if oc != vlib.Stuck {
			return oc, d
		}
		nAfter, _ := w.fired()
		b := w.bound()
		if firedBefore && nAfter == nBefore && (b.IsZero() || time.Now().After(b)) {
			return oc, d
		}
		if wo.Watchdog > 0 && time.Since(start) > wo.Watchdog {
			return vlib.Inconclusive, d
		}
	}
}
