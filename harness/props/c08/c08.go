// Package c08 is the runtime-monitoring check of property C08:
//
//	Router routes per handler: right function, right topic, unmodified outputs.
//
// Every case builds one real message.Router with 1..6 handlers over scripted subscribers and
// publishers (vlib.Sub / vlib.Pub, shared or private, Stringer or not), injects interleaved message
// streams into the individual subscriptions and judges, from what was recorded at the boundary
// (handler functions, every layer of the middleware chains, the arguments of every Publish call):
// which function ran for which emission, which middleware layers ran around it and what each of them
// received and handed on, what was published where, and what the five context accessors reported
// inside the handler and on the produced messages at Publish time.
//
// Handler names are unusual-but-legal on purpose (the empty string, prefixes / case and whitespace
// variants of each other, names equal to topics, arbitrary UTF-8, very long names with a long common
// prefix) and handlers carry chains of 0..3 handler-level middlewares with observable effects
// (adding, dropping, reordering, duplicating outputs, short-circuiting the function), interleaved at
// registration with router-level middlewares: anything that identifies a handler by less than its
// exact name and registration shows up as a foreign layer in another handler's chain.
//
// Output values are unusual-but-legal in half of the cases (empty UUIDs - "UUID can be empty" -, duplicate UUIDs
// among the outputs of one invocation, the consumed message's UUID, nil / empty payloads, objects built without
// NewMessage whose metadata map is nil, empty non-nil maps, empty metadata keys and values) and output objects are
// shared in every way an application can share them: the consumed message itself, one object twice in a result,
// and a long-lived object that a handler (or all handlers) returns on every call. Objects are identified by
// pointer, never by UUID; what the outermost stage of the chain returned is compared field by field (incl. the
// nil-ness of payload and metadata map) with what Publish received, and with the objects once the Router is done.
//
// Publishers and subscribers are registered as many kinds of Go value (pointer / value of named, anonymous, embedding
// and generic struct types; Stringers whose String() returns hostile-but-legal strings such as "*pkg.Type", "**x**",
// "", " *x "): the two type names in the context must be String() verbatim for a Stringer and the %T type name without
// the pointer marker otherwise. A fifth of the cases is brought up the hard way (start-up class): several handlers per
// RunHandlers round, router-level decorators, scripted transient Subscribe / decorator faults (also inside Run) and
// RunHandlers repeated until it returns nil; afterwards a probe message on every live subscription must reach every
// registered handler's function, "never" being decided by the quiescence detector.
package c08

import (
	"context"
	"fmt"
	"runtime"
	"sort"
	"strings"
	"sync"
	"sync/atomic"
	"time"

	"github.com/ThreeDotsLabs/watermill"
	"github.com/ThreeDotsLabs/watermill/message"

	"verifharness/vlib"
)

func init() {
	vlib.Register(&vlib.Prop{
		ID:    "C08",
		Level: "exploration",
		Cases: func(tier string) int { return vlib.TierN(tier, 3100, 390000) },
		Run:   run,
		Rule: "one random Router per case: 1..6 handlers, subscribe/publish topics from a pool of 3 (sharing allowed, occasionally the empty topic), " +
			"1..n scripted subscribers and publishers shared or private; every end is registered as one of 15 kinds of Go value (50% the scripted end itself, a Stringer; 10%+10% pointer / value of a named struct type; 10% other non-Stringer types: " +
			"value / pointer of an anonymous struct type, a named struct that gets its methods from an embedded one, a generic struct (incl. pointer of genSub[*int]), the value of a type whose String() has a pointer receiver; " +
			"20% Stringers with a scripted String() result - pointer receivers, value receivers as value and as pointer, Stringer through an embedded Stringer, pointer of the pointer-receiver-String() type - whose result is drawn from 17 shapes: " +
			"fmt.Sprintf(\"%T\", p) of the pointer (\"*c08.strSub\"), the bare type name, \"*pkg.Type\", \"pkg.Type\", \"**primary** x\", \"*\", the empty string, blanks, \" *x \", \"x*\", \"&x\" / \"&{x}\" / \"&*x\", 300..70000-byte names with a leading or a trailing '*', arbitrary UTF-8 with and without a leading '*', \"***x***\", a multi-line name); " +
			"expected type names are literals in the harness: String() verbatim for a Stringer, else the %T type name without the pointer marker; " +
			"handlers with a publisher / AddNoPublisherHandler / AddHandler with a nil publisher; " +
			"handler names: 40% of the cases the prefix chain <id>/h, <id>/ha, ...; the others mix unusual-but-legal names per handler - the empty string (forced on one handler in half of them), " +
			"a name equal to a topic of the pool, arbitrary valid UTF-8 (control characters, multi-byte), 300..70000-byte names that differ in the last byte only, variants of another handler's name " +
			"(+space, +NUL, upper-cased, minus the last byte, +'/'), blank names (' ', tab); " +
			"middleware layers: an observing router-level layer added first, in 40% of the cases 1..2 more router-level layers, and per handler (35%, 60% without publisher, 80% for the empty name) a chain of 1..3 " +
			"handler-level layers (Handler.AddMiddleware, one call per layer or one variadic call, right after AddHandler or deferred until the other handlers are registered); layer kinds: pass, add planned outputs, " +
			"drop first/last/all, reverse, duplicate the first, short-circuit (own fresh message / nothing / error without calling next; only where the handler of the subscription is known without the function running); " +
			"a per-emission bit mask decides which layers act, so one layer is observable for some emissions and transparent for others; router-level layers land at random positions of the registration program " +
			"(before / between / after handlers and their handler-level middlewares; all before Run); " +
			"handlers registered before Run or added later through RunHandlers; " +
			"start-up class (20% of the cases, suffix /startup, 2..6 handlers): the handlers added at run time come in batches of 1..n per RunHandlers round (also: every handler before Run, or a Router started without any handler), " +
			"60% of these cases install a router-level publisher and a subscriber decorator (they hand the end through unchanged), and 88% script 1..2 transient faults per round (round 0 = Run; probability 0.4 for Run, 0.75 per batch): " +
			"Subscribe fails once for one (subscriber, topic) or for the k-th Subscribe call of the round, or the k-th publisher- / subscriber-decorator call fails once; every failing RunHandlers call is repeated until it returns nil, " +
			"and when the fault makes Run itself fail, RunHandlers is called (and repeated) after Run returned; then one probe message is sent on every live subscription and every registered handler must be invoked for one (handler-not-routed, decided by the quiescence detector); the ordinary streams follow; " +
			"wrapping router-level decorators (35% of ALL cases, suffix /wrapdeco, drawn from a PRNG stream of their own so the rest of the case is unchanged): 1..2 publisher decorators, 1..2 subscriber decorators or both, added before Run (before or after the pass-through ones of the start-up class), " +
			"each of which wraps the end it is given in a value of another type that forwards every call unchanged - pointer / value of a named struct type, a Stringer whose String() is the empty string, the name of another end of the case, '*<id>/decorator' or arbitrary UTF-8, " +
			"or watermill's own MessageTransformPublisherDecorator / MessageTransformSubscriberDecorator with a transform that does nothing; a nil publisher is handed through as nil; they are applied again for late handlers and on every RunHandlers retry; " +
			"the oracle is unchanged: the type names in the context must be those of the ends the handler was registered with (ctx-in-handler, ctx-on-produced), and calls are still observed at the scripted ends behind the wrappers; " +
			"one message stream per subscription (0..4 emissions, optional failing first attempt + redelivery), " +
			"streams driven concurrently (pipelined or settle-before-next) or by one sequential interleaving; output shapes 0..n: fresh objects, the consumed message, one object twice, middleware-appended objects; " +
			"output values: in 50% of the cases (class suffix /oddvalues) every fresh output draws its UUID from {unique, empty, one UUID shared by several outputs of the invocation, the consumed message's UUID, a case-wide constant}, " +
			"is built by NewMessage or as a &message.Message{} literal (30%; 60% of those keep a nil Metadata map), carries nil / empty / random payload, metadata with empty keys and empty values, and in 40% no harness key at all (so empty non-nil maps occur); " +
			"emitted (consumed) messages of those cases have an empty UUID (35%) or all the same UUID (20% of the cases) and the same corner metadata - they are outputs wherever a chain returns the consumed message; " +
			"long-lived outputs: in 25% of the cases (suffix /longlived) every handler owns one message object created before Run (half of them without UUID, some constructor-less) that its function returns on every call in 60% of the emissions " +
			"(alone, twice, before/after fresh objects and the consumed message); those cases settle every emission before the next of the stream so that invocations returning one object never overlap; under the sequential drive, when every handler has a publisher and non-empty name/topics, one object may be shared by ALL handlers; " +
			"output objects are identified by pointer (Publish calls that carry long-lived objects only are attributed by the logical clock: latest chain return of that object before the call began); " +
			"schedule perturbation at watermill's verifhook points. Per emission the oracle checks: the layers entered are router-level ones and the handling handler's own (none foreign, none twice, none missing unless short-circuited: mw-wrong-handler), " +
			"every layer received from next() exactly what the stage inside it returned, from the function outwards (chain-link), and the outermost return values reach that handler's publisher/topic unmodified and in order, or cause the no-publisher Nack; unmodified = the same objects whose UUID, payload (bytes and nil-ness) and metadata (entries and nil-ness of the map) " +
			"at Publish equal the snapshot taken when the outermost stage returned (publish-modified), and which still have that value after Close/Run returned, a long-lived object having its original value at every return (output-object-modified: the Router may set the context of a produced message, nothing else). " +
			"A case is non-trivial when at least one Publish call or one no-publisher Nack was judged; " +
			"distinct = distinct (wiring shape incl. name kinds and layer kinds, registration program, output-shape multiset, drive mode, max handler overlap) signatures.",
		Assumptions: []string{
			"publishers always succeed and handlers that fail return no messages (publish errors / outputs together with an error are outside the statement)",
			"emitted messages carry a fresh context derived from the subscription context, as a broker would deliver them (no pre-existing router context keys)",
			"the publisher name reported in the context is not judged for handlers without a publisher (the statement defines no publisher type name for them)",
			"outputs of one invocation may reach the publisher in one or several Publish calls as long as their concatenation is the returned sequence (the statement does not fix the batching; the split is counted in split_publish)",
			"Ack after a successful Publish is not judged here (only the Nack of the no-publisher clause); an unsettled message that was handled correctly makes the case inconclusive",
			"the nesting order of the middlewares of one chain is not judged (the statement does not mention it): layers are matched by what they hand to each other, whatever order watermill composes them in",
			"every middleware is added before the handler it applies to is started (router-level ones before Run): a middleware added to an already running handler is outside the statement",
			"'unmodified' is read literally for the three public fields of an output (UUID, Payload, Metadata), including nil vs empty payload / metadata map, both at Publish time and after the Router has finished with the message; the scripted publishers and the middlewares of the harness never write to a message, so any difference is the Router's doing. output-object-modified is judged for handlers with a publisher only and only after Close and Run returned",
			"start-up faults are transient and scripted (a finite number of failing Subscribe / decorator calls); RunHandlers is retried until it returns nil and what it returns or does while a fault is pending is not judged; the routing demand starts when the last RunHandlers call has returned nil",
			"handlers that a failing Run call had already started are stopped by Run's own context cancellation: they are recognised by Handler.Started() being closed when Run returned and are exempt from handler-not-routed; subscriptions whose context is already cancelled when the bring-up is over receive no messages",
			"a publisher / subscriber whose String() returns the empty string sets no type name in the context; such handlers are treated like handlers with an empty name or topic (no emission that carries another hop's context, no object shared by all handlers)",
			"'that handler's Pub/Sub type names' are the names of the publisher / subscriber the handler was registered with (AddHandler arguments), also when router-level decorators wrap them in values of other types (godoc of PublisherNameFromCtx: 'the message publisher type that published the message ... for Kafka it will be kafka.Publisher'; components/metrics reads these values from inside such decorators to label its series); the harness's wrapping decorators forward every call unchanged and never touch a message",
			"invocations that return one and the same long-lived object never overlap (the application's obligation: the Router sets the context on produced messages), and an object shared by several handlers is only used where every handler sets all five context values",
		},
	})
}

// ---------------------------------------------------------------------------------------------
// The Pub/Sub type zoo. The rule for the two type names in the context (message/router_context.go: "the name of the
// message publisher type ... for Kafka it will be `kafka.Publisher`", TestRouter_Context_Stringer: "it's name is the
// result of String()"; internal.StructName): a Publisher / Subscriber value that implements fmt.Stringer is named by
// what its String() returns, verbatim; any other value by its Go type as %T prints it, without the pointer marker
// (*kafka.Publisher -> kafka.Publisher). The expected names are written down literally next to each type.

// subCore is what every subscriber wrapper forwards to: the scripted subscriber behind a gate that can make a
// Subscribe call fail (start-up faults). Wrappers hold a pointer to it, so they stay comparable.
type subCore struct {
	s    *vlib.Sub
	gate func(topic string) error
}

func (c *subCore) Subscribe(ctx context.Context, topic string) (<-chan *message.Message, error) {
	if c.gate != nil {
		if err := c.gate(topic); err != nil {
			return nil, err
		}
	}
	return c.s.Subscribe(ctx, topic)
}
func (c *subCore) Close() error { return c.s.Close() }

// pointer of a named struct type: "c08.plainSub"
type plainSub struct{ c *subCore }

func (p *plainSub) Subscribe(ctx context.Context, topic string) (<-chan *message.Message, error) {
	return p.c.Subscribe(ctx, topic)
}
func (p *plainSub) Close() error { return p.c.Close() }

// value of a named struct type: "c08.plainSubV"
type plainSubV struct{ c *subCore }

func (p plainSubV) Subscribe(ctx context.Context, topic string) (<-chan *message.Message, error) {
	return p.c.Subscribe(ctx, topic)
}
func (p plainSubV) Close() error { return p.c.Close() }

// named struct that gets its methods from an embedded non-Stringer: "c08.embSub" as a value and as a pointer
type embSub struct{ *plainSub }

// generic named struct: "c08.genSub[int]", "c08.genSub[*int]" (only the LEADING pointer marker goes)
type genSub[T any] struct{ c *subCore }

func (p genSub[T]) Subscribe(ctx context.Context, topic string) (<-chan *message.Message, error) {
	return p.c.Subscribe(ctx, topic)
}
func (p genSub[T]) Close() error { return p.c.Close() }

// String() on the pointer receiver only: the value is no Stringer ("c08.mixSub"), the pointer is (String())
type mixSub struct {
	c *subCore
	n string
}

func (p mixSub) Subscribe(ctx context.Context, topic string) (<-chan *message.Message, error) {
	return p.c.Subscribe(ctx, topic)
}
func (p mixSub) Close() error    { return p.c.Close() }
func (p *mixSub) String() string { return p.n }

// Stringer, pointer receivers: String()
type strSub struct {
	c *subCore
	n string
}

func (p *strSub) Subscribe(ctx context.Context, topic string) (<-chan *message.Message, error) {
	return p.c.Subscribe(ctx, topic)
}
func (p *strSub) Close() error   { return p.c.Close() }
func (p *strSub) String() string { return p.n }

// Stringer, value receivers (used as a value and as a pointer): String()
type strSubV struct {
	c *subCore
	n string
}

func (p strSubV) Subscribe(ctx context.Context, topic string) (<-chan *message.Message, error) {
	return p.c.Subscribe(ctx, topic)
}
func (p strSubV) Close() error   { return p.c.Close() }
func (p strSubV) String() string { return p.n }

// named struct that is a Stringer through an embedded one (promoted String()): String()
type embStrSub struct{ *strSub }

// the scripted subscriber itself (Stringer "vsub:<name>") behind the gate: Subscribe is overridden, String() promoted
type gateSub struct {
	*vlib.Sub
	c *subCore
}

func (p gateSub) Subscribe(ctx context.Context, topic string) (<-chan *message.Message, error) {
	return p.c.Subscribe(ctx, topic)
}

type plainPub struct{ p *vlib.Pub }

func (p *plainPub) Publish(topic string, msgs ...*message.Message) error {
	return p.p.Publish(topic, msgs...)
}
func (p *plainPub) Close() error { return p.p.Close() }

type plainPubV struct{ p *vlib.Pub }

func (p plainPubV) Publish(topic string, msgs ...*message.Message) error {
	return p.p.Publish(topic, msgs...)
}
func (p plainPubV) Close() error { return p.p.Close() }

type embPub struct{ *plainPub }

type genPub[T any] struct{ p *vlib.Pub }

func (p genPub[T]) Publish(topic string, msgs ...*message.Message) error {
	return p.p.Publish(topic, msgs...)
}
func (p genPub[T]) Close() error { return p.p.Close() }

type mixPub struct {
	p *vlib.Pub
	n string
}

func (p mixPub) Publish(topic string, msgs ...*message.Message) error {
	return p.p.Publish(topic, msgs...)
}
func (p mixPub) Close() error    { return p.p.Close() }
func (p *mixPub) String() string { return p.n }

type strPub struct {
	p *vlib.Pub
	n string
}

func (p *strPub) Publish(topic string, msgs ...*message.Message) error {
	return p.p.Publish(topic, msgs...)
}
func (p *strPub) Close() error   { return p.p.Close() }
func (p *strPub) String() string { return p.n }

type strPubV struct {
	p *vlib.Pub
	n string
}

func (p strPubV) Publish(topic string, msgs ...*message.Message) error {
	return p.p.Publish(topic, msgs...)
}
func (p strPubV) Close() error   { return p.p.Close() }
func (p strPubV) String() string { return p.n }

type embStrPub struct{ *strPub }

// kinds of Pub/Sub values (the same list for both ends)
const (
	ekVlib      = iota // the scripted end itself: Stringer, "vsub:<name>" / "vpub:<name>"
	ekPtr              // pointer of a named struct type
	ekVal              // value of a named struct type
	ekAnonVal          // value of an anonymous struct type (methods from an embedded interface)
	ekAnonPtr          // pointer of an anonymous struct type
	ekEmbVal           // named struct embedding a non-Stringer, value
	ekEmbPtr           // ... pointer
	ekGenVal           // generic named struct, value
	ekGenPtr           // generic named struct with a pointer type argument, pointer
	ekMixVal           // String() has a pointer receiver and the VALUE is registered: no Stringer
	ekMixPtr           // ... the pointer is registered: Stringer
	ekStrPtr           // Stringer with pointer receivers
	ekStrVal           // Stringer with value receivers, value
	ekStrValPtr        // Stringer with value receivers, pointer
	ekEmbStr           // Stringer through an embedded Stringer
)

var ekNames = []string{"vlib", "ptr", "val", "anon", "anonptr", "emb", "embptr", "gen", "genptr", "mixval", "mixptr", "strptr", "strval", "strvalptr", "embstr"}

// plainKinds / strKinds: the non-Stringer and the scripted-String() kinds
var plainKinds = []int{ekAnonVal, ekAnonPtr, ekEmbVal, ekEmbPtr, ekGenVal, ekGenPtr, ekMixVal}
var strKinds = []int{ekMixPtr, ekStrPtr, ekStrPtr, ekStrVal, ekStrValPtr, ekEmbStr}

// hostileName draws what a scripted String() returns: legal strings that a name rule must hand through verbatim.
// typeName is what fmt.Sprintf("%T", p) gives for the pointer ("*c08.strSub"), tag is unique per end and case.
func hostileName(r *vlib.Rand, typeName, tag string) (string, string) {
	switch r.Intn(18) {
	case 0, 1:
		return typeName, "%T-of-pointer" // the common `func (p *Pub) String() string { return fmt.Sprintf("%T", p) }`
	case 2:
		return strings.TrimLeft(typeName, "*"), "type-name"
	case 3:
		return "*pkg.Type", "*pkg.Type"
	case 4:
		return "pkg.Type", "pkg.Type"
	case 5:
		return "**primary** " + tag, "**label**"
	case 6:
		return "*", "star"
	case 7:
		return "", "empty"
	case 8:
		return []string{" ", "\t", "  "}[r.Intn(3)], "blank"
	case 9:
		return " *" + tag + " ", "space-star"
	case 10:
		return tag + "*", "trailing-star"
	case 11:
		return []string{"&" + tag, "&{" + tag + "}", "&*" + tag}[r.Intn(3)], "ampersand"
	case 12:
		return "*" + strings.Repeat("N", []int{300, 5000, 70000}[r.Intn(3)]) + tag, "*long"
	case 13:
		return strings.Repeat("N", []int{300, 5000, 70000}[r.Intn(3)]) + tag + "*", "long*"
	case 14:
		return r.UTF8(8), "utf8"
	case 15:
		return "*" + r.UTF8(6), "*utf8"
	case 16:
		return "***" + tag + "***", "***"
	default:
		return "*" + tag + "\n*x", "*multiline"
	}
}

// mkSub builds subscriber i of the case of the given kind around core.
func mkSub(r *vlib.Rand, kind int, core *subCore, tag string, gated bool) (iface message.Subscriber, name, nameKind string) {
	switch kind {
	case ekVlib:
		if gated {
			return gateSub{Sub: core.s, c: core}, "vsub:" + core.s.Name, ""
		}
		return core.s, "vsub:" + core.s.Name, ""
	case ekPtr:
		return &plainSub{c: core}, "c08.plainSub", ""
	case ekVal:
		return plainSubV{c: core}, "c08.plainSubV", ""
	case ekAnonVal:
		return struct{ message.Subscriber }{&plainSub{c: core}}, "struct { message.Subscriber }", ""
	case ekAnonPtr:
		return &struct{ message.Subscriber }{&plainSub{c: core}}, "struct { message.Subscriber }", ""
	case ekEmbVal:
		return embSub{&plainSub{c: core}}, "c08.embSub", ""
	case ekEmbPtr:
		return &embSub{&plainSub{c: core}}, "c08.embSub", ""
	case ekGenVal:
		return genSub[int]{c: core}, "c08.genSub[int]", ""
	case ekGenPtr:
		return &genSub[*int]{c: core}, "c08.genSub[*int]", ""
	case ekMixVal:
		return mixSub{c: core, n: "*never used: the value is no Stringer"}, "c08.mixSub", ""
	case ekMixPtr:
		n, nk := hostileName(r, "*c08.mixSub", tag)
		return &mixSub{c: core, n: n}, n, nk
	case ekStrPtr:
		n, nk := hostileName(r, "*c08.strSub", tag)
		return &strSub{c: core, n: n}, n, nk
	case ekStrVal:
		n, nk := hostileName(r, "c08.strSubV", tag)
		return strSubV{c: core, n: n}, n, nk
	case ekStrValPtr:
		n, nk := hostileName(r, "*c08.strSubV", tag)
		return &strSubV{c: core, n: n}, n, nk
	default:
		n, nk := hostileName(r, "*c08.embStrSub", tag)
		return embStrSub{&strSub{c: core, n: n}}, n, nk
	}
}

func mkPub(r *vlib.Rand, kind int, p *vlib.Pub, tag string) (iface message.Publisher, name, nameKind string) {
	switch kind {
	case ekVlib:
		return p, "vpub:" + p.Name, ""
	case ekPtr:
		return &plainPub{p: p}, "c08.plainPub", ""
	case ekVal:
		return plainPubV{p: p}, "c08.plainPubV", ""
	case ekAnonVal:
		return struct{ message.Publisher }{&plainPub{p: p}}, "struct { message.Publisher }", ""
	case ekAnonPtr:
		return &struct{ message.Publisher }{&plainPub{p: p}}, "struct { message.Publisher }", ""
	case ekEmbVal:
		return embPub{&plainPub{p: p}}, "c08.embPub", ""
	case ekEmbPtr:
		return &embPub{&plainPub{p: p}}, "c08.embPub", ""
	case ekGenVal:
		return genPub[int]{p: p}, "c08.genPub[int]", ""
	case ekGenPtr:
		return &genPub[*int]{p: p}, "c08.genPub[*int]", ""
	case ekMixVal:
		return mixPub{p: p, n: "*never used: the value is no Stringer"}, "c08.mixPub", ""
	case ekMixPtr:
		n, nk := hostileName(r, "*c08.mixPub", tag)
		return &mixPub{p: p, n: n}, n, nk
	case ekStrPtr:
		n, nk := hostileName(r, "*c08.strPub", tag)
		return &strPub{p: p, n: n}, n, nk
	case ekStrVal:
		n, nk := hostileName(r, "c08.strPubV", tag)
		return strPubV{p: p, n: n}, n, nk
	case ekStrValPtr:
		n, nk := hostileName(r, "*c08.strPubV", tag)
		return &strPubV{p: p, n: n}, n, nk
	default:
		n, nk := hostileName(r, "*c08.embStrPub", tag)
		return embStrPub{&strPub{p: p, n: n}}, n, nk
	}
}

// drawEndKind: 50% the scripted end itself, 10% each pointer / value wrapper (the kinds of the earlier rounds),
// 10% the other non-Stringer types, 20% a scripted String().
func drawEndKind(r *vlib.Rand) int {
	switch k := r.Intn(10); {
	case k == 0:
		return ekPtr
	case k == 1:
		return ekVal
	case k == 2:
		return plainKinds[r.Intn(len(plainKinds))]
	case k <= 4:
		return strKinds[r.Intn(len(strKinds))]
	}
	return ekVlib
}

// ---------------------------------------------------------------------------------------------
// configuration

const (
	pubReal  = 0 // AddHandler with a scripted publisher
	pubNoPub = 1 // AddNoPublisherHandler
	pubNil   = 2 // AddHandler with a nil publisher
)

var pubKindNames = []string{"pub", "nopub", "nilpub"}

type subEnd struct {
	s        *vlib.Sub
	core     *subCore
	iface    message.Subscriber
	kind     int    // ek*
	name     string // what SubscriberNameFromCtx must report (written down literally, not computed through watermill)
	nameKind string // scripted String(): which shape
}

type pubEnd struct {
	p        *vlib.Pub
	iface    message.Publisher
	kind     int
	name     string
	nameKind string
}

type hcfg struct {
	idx      int
	name     string
	sub      int
	subTopic string
	pubKind  int
	pub      int
	pubTopic string
	mws      []*layer // handler-level middlewares, in the order they are added to the handler
	late     bool
	nameKind int
	deferMW  bool // (early handlers) Handler.AddMiddleware is called after the other handlers were registered
}

// kinds of handler names
const (
	nkChain   = iota // <id>/h, <id>/ha, <id>/haa ... (each a prefix of the next)
	nkEmpty          // "" - legal: AddHandler only demands uniqueness
	nkTopic          // equal to a topic of the case's topic pool
	nkUnicode        // <id>/ + arbitrary valid UTF-8 (control characters, multi-byte, possibly nothing)
	nkLong           // <id>/L + 300..70000 identical bytes + one distinguishing last byte (long common prefix)
	nkVariant        // another handler's name + " " / + NUL / upper-cased / minus its last byte / + "/"
	nkBlank          // " " or a tab
)

var nkNames = []string{"chain", "empty", "topic", "unicode", "long", "variant", "blank"}

// kinds of middleware layers
const (
	lkPass      = iota // observes only
	lkAdd              // appends the emission's planned extra outputs (fresh objects, the consumed message, the first inner output again)
	lkDrop             // drops the first / the last / all inner outputs
	lkReverse          // reverses the inner outputs
	lkDup              // appends the first inner output a second time
	lkShort            // does not call next; returns one fresh message of its own
	lkShortNone        // does not call next; returns nothing
	lkShortErr         // does not call next; returns an error
)

var lkNames = []string{"pass", "add", "drop", "rev", "dup", "short", "short0", "shorterr"}

// layer is one middleware of the case. Whether it does anything for a given emission is decided by
// bit (id%32) of the emission's mwMask, so one layer is observable for some emissions and transparent for others.
type layer struct {
	id    int // index in caseState.layers; 0 = the observing layer added to the Router first
	owner int // handler index, -1 = router-level
	kind  int
	arg   int // lkDrop: 0 first, 1 last, 2 all
}

func (l *layer) String() string {
	if l.owner < 0 {
		return fmt.Sprintf("L%d(router,%s)", l.id, lkNames[l.kind])
	}
	return fmt.Sprintf("L%d(h%d,%s)", l.id, l.owner, lkNames[l.kind])
}

// layerRun is one execution of a layer: what next() handed to it and what it handed on.
type layerRun struct {
	eid      string
	layer    int
	called   bool // next was called
	done     bool
	in       []*message.Message
	inSnaps  []vlib.MsgSnap
	inErr    bool
	out      []*message.Message
	outSnaps []vlib.MsgSnap
	outErr   bool
	tDone    uint64 // logical-clock stamp taken after the snapshots, right before the layer returned
}

// expected context: name, subscribe topic, publish topic, subscriber name, publisher name ("*" = not judged)
func (c *caseState) wantCtx(h *hcfg) [5]string {
	w := [5]string{h.name, h.subTopic, h.pubTopic, c.subs[h.sub].name, "*"}
	if h.pubKind == pubReal {
		w[4] = c.pubs[h.pub].name
	}
	return w
}

var ctxFields = [5]string{"HandlerNameFromCtx", "SubscribeTopicFromCtx", "PublishTopicFromCtx", "SubscriberNameFromCtx", "PublisherNameFromCtx"}

func readCtx(ctx context.Context) [5]string {
	return [5]string{
		message.HandlerNameFromCtx(ctx),
		message.SubscribeTopicFromCtx(ctx),
		message.PublishTopicFromCtx(ctx),
		message.SubscriberNameFromCtx(ctx),
		message.PublisherNameFromCtx(ctx),
	}
}

func ctxDiff(got, want [5]string) string {
	for i := range got {
		if want[i] != "*" && got[i] != want[i] {
			return fmt.Sprintf("%s = %s, want %s", ctxFields[i], short(got[i]), short(want[i]))
		}
	}
	return ""
}

// ---------------------------------------------------------------------------------------------
// emission plans

type freshSpec struct {
	payload []byte
	meta    [][2]string
	// unusual-but-legal values (drawn in "odd output" cases only; the zero values are the plain object of the
	// earlier rounds: NewMessage(<eid>/<tok>, payload) + meta + the harness's "vout" key)
	uuidMode int  // umUnique .. umConst
	noCtor   bool // built as &message.Message{...}, not by NewMessage (no ack channels)
	nilMeta  bool // (noCtor) the Metadata map stays nil
	bare     bool // no "vout" key: the metadata is exactly meta (possibly an empty, non-nil map)
}

// UUIDs of produced objects. "UUID can be empty" (message.Message godoc); nothing demands uniqueness.
const (
	umUnique   = iota // <eid>/<tok>
	umEmpty           // ""
	umDup             // <eid>/dup: the same for every such output of the invocation
	umConsumed        // the consumed message's UUID (whatever that is, possibly empty)
	umConst           // "x": the same in every invocation of every handler
)

var umNames = []string{"unique", "empty", "dup", "consumed", "const"}

// emPlan is what happens to one emitted message, whichever handler of its subscription's group gets it.
type emPlan struct {
	stream    int
	j         int
	uuid      string
	payload   []byte
	meta      [][2]string
	fnOuts    []string // tokens: "C" consumed message, "F<k>" fresh object k (same k = same object)
	mwOuts    []string // appended by every active output-adding layer: "C", "D" (first inner output again), "W<k>" (fresh, per layer)
	mwMask    uint32   // bit (layer id % 32): the layer is active for this emission
	shortOK   bool     // short-circuiting layers may act: the handler that gets this emission is known without the function running
	fresh     map[string]freshSpec
	failFirst bool // attempt 1 returns an error (and no messages); the harness redelivers once
	wait      bool // the stream waits for the settlement before its next emission
	probe     bool // start-up class: the message sent on every live subscription right after the bring-up
	stale     bool // emit with a context that already carries ANOTHER handler's router values (a message forwarded in-process from another hop)
	yields    int
	shape     string
}

type emission struct {
	eid     string
	plan    *emPlan
	attempt int
	sp      int // subscription index
	msg     *message.Message
	snap    vlib.MsgSnap
	sent    bool
}

type invRec struct {
	eid  string
	h    int
	ctx  [5]string
	snap vlib.MsgSnap
	ptr  *message.Message
	// what the function returned
	returned bool
	ret      []*message.Message
	retSnaps []vlib.MsgSnap
	retErr   bool
}

type chainRec struct {
	outs  []*message.Message
	snaps []vlib.MsgSnap
	err   bool
}

type spInfo struct {
	sub   int
	sp    *vlib.Subscription
	owner int  // handler index when known exactly (late handler or the only handler on (sub, topic)), else -1
	dead  bool // its context was already cancelled when the harness enumerated it (subscription made by a Run call that failed)
}

type caseState struct {
	e    *vlib.Env
	subs []*subEnd
	pubs []*pubEnd
	hs   []*hcfg

	plans map[string]*emPlan // by eid (both attempts)

	mu       sync.Mutex
	emitted  []*emission
	invs     []*invRec
	lruns    []*layerRun
	layers   []*layer
	rlOps    [][2]int // registration program of the early part: {0,h} AddHandler h (+ its middlewares unless deferred), {1,layer} Router.AddMiddleware, {2,h} deferred Handler.AddMiddleware of h
	handles  map[int]*message.Handler
	unknown  []string
	active   atomic.Int32
	maxAct   atomic.Int32
	streams  [][]*emPlan
	spis     []spInfo
	driveSeq bool
	ctxOf    map[int]context.Context // handler index -> a message context seen inside that handler
	staleN   atomic.Int32

	// start-up class (see genStartup)
	startup       bool
	useDeco       bool
	batches       [][]int // late handlers per RunHandlers round
	batchSize     []int   // by handler index (0 for early handlers)
	phaseFaults   [][]*fault
	faultsPlanned int
	fmu           sync.Mutex
	armed         []*fault
	fired         [3]int
	gateCalls     [3]int
	retries       int
	runFailed     bool
	s0            map[int]bool // handlers that were started by the Run call that failed (stopped by Run's own cancellation)
	probes        []*emPlan
	probesSent    int

	// wrapping router-level decorators (see genWrapDeco): drawn for every class of case from a PRNG stream of their own
	wrapPub       []wrapSpec
	wrapSub       []wrapSpec
	wrapFirst     bool         // added before the pass-through decorators of the start-up class
	wrapPubCalls  atomic.Int64 // decorator invocations that wrapped a publisher
	wrapSubCalls  atomic.Int64
	wrapNilPub    atomic.Int64 // publisher decorator invocations that were handed a nil publisher (passed through)
	wrapPublishes atomic.Int64 // Publish calls that went through a wrapper
	wrapSubscribe atomic.Int64 // Subscribe calls that went through a wrapper

	odd bool // odd-output case: unusual UUIDs / payloads / metadata / constructor-less objects among the outputs and the emissions
	// long-lived objects: statics[h] is returned by handler h's function for every "X" token. Only drawn in cases whose
	// emissions are all settled before the next one of the same stream is emitted, so that invocations returning one
	// object never overlap (the Router sets the context on produced messages: overlapping invocations returning one
	// object would be the application's data race, not the Router's). staticShared: one object for all handlers
	// (sequential drive only).
	useStatic    bool
	staticShared bool
	statics      []*message.Message
	staticInit   []vlib.MsgSnap
	staticIdx    map[*message.Message]int    // long-lived object -> first handler that owns it
	objOwner     map[*message.Message]string // fresh output objects and emitted messages -> emission id
}

func eidOf(m *message.Message) string { return m.Metadata.Get("vemit") }

func eidFor(p *emPlan, id string, attempt int) string {
	return fmt.Sprintf("%s/e%d.%d#%d", id, p.stream, p.j, attempt)
}

func (c *caseState) planFor(eid string) (*emPlan, int) {
	p := c.plans[eid]
	if p == nil {
		return nil, 0
	}
	att := 1
	if strings.HasSuffix(eid, "#2") {
		att = 2
	}
	return p, att
}

// mkFresh builds one fresh output object of emission eid. Its identity for the oracle is the pointer
// (objOwner); the "vout" key is a fall-back for the case that something hands the publisher a copy.
func (c *caseState) mkFresh(eid, tok string, fs freshSpec, consumed *message.Message) *message.Message {
	uuid := eid + "/" + tok
	switch fs.uuidMode {
	case umEmpty:
		uuid = ""
	case umDup:
		uuid = eid + "/dup"
	case umConsumed:
		uuid = consumed.UUID
	case umConst:
		uuid = "x"
	}
	var m *message.Message
	if fs.noCtor {
		m = &message.Message{UUID: uuid, Payload: fs.payload}
		if !fs.nilMeta {
			m.Metadata = message.Metadata{}
		}
	} else {
		m = message.NewMessage(uuid, fs.payload)
	}
	if m.Metadata != nil {
		for _, kv := range fs.meta {
			m.Metadata.Set(kv[0], kv[1])
		}
		if !fs.bare {
			m.Metadata.Set("vout", eid)
		}
	}
	c.mu.Lock()
	c.objOwner[m] = eid
	c.mu.Unlock()
	return m
}

// snapMsg is vlib.Snap that keeps the nil-ness of the metadata map (vlib.Snap keeps the payload's in NilPay):
// a message built without the constructor has a nil map, and handing the publisher an empty one instead is a
// modification a publisher can observe.
func snapMsg(m *message.Message) vlib.MsgSnap {
	s := vlib.Snap(m)
	if m.Metadata == nil {
		s.Metadata = nil
	}
	return s
}

// handlerFunc of handler h (HandlerFunc flavour).
func (c *caseState) handlerFunc(h int) message.HandlerFunc {
	return func(msg *message.Message) ([]*message.Message, error) {
		outs, err := c.invoke(h, msg, true)
		return outs, err
	}
}

// noPubFunc of handler h (NoPublishHandlerFunc flavour: cannot return messages).
func (c *caseState) noPubFunc(h int) message.NoPublishHandlerFunc {
	return func(msg *message.Message) error {
		_, err := c.invoke(h, msg, false)
		return err
	}
}

func (c *caseState) invoke(h int, msg *message.Message, canReturn bool) (outs []*message.Message, err error) {
	n := c.active.Add(1)
	for {
		m := c.maxAct.Load()
		if n <= m || c.maxAct.CompareAndSwap(m, n) {
			break
		}
	}
	defer c.active.Add(-1)
	eid := eidOf(msg)
	rec := &invRec{eid: eid, h: h, ctx: readCtx(msg.Context()), snap: snapMsg(msg), ptr: msg}
	c.mu.Lock()
	c.invs = append(c.invs, rec)
	if c.ctxOf == nil {
		c.ctxOf = map[int]context.Context{}
	}
	c.ctxOf[h] = msg.Context()
	c.mu.Unlock()
	defer func() {
		snaps := snapAll(outs)
		c.mu.Lock()
		rec.returned, rec.ret, rec.retSnaps, rec.retErr = true, append([]*message.Message(nil), outs...), snaps, err != nil
		c.mu.Unlock()
	}()
	p, att := c.planFor(eid)
	if p == nil {
		c.mu.Lock()
		c.unknown = append(c.unknown, fmt.Sprintf("handler %d got a message with uuid %q and no known emission id", h, msg.UUID))
		c.mu.Unlock()
		return nil, nil
	}
	for i := 0; i < p.yields; i++ {
		runtime.Gosched()
	}
	if p.failFirst && att == 1 {
		return nil, fmt.Errorf("planned failure of %s", eid)
	}
	if !canReturn {
		return nil, nil
	}
	objs := map[string]*message.Message{}
	for _, tok := range p.fnOuts {
		if tok == "C" {
			outs = append(outs, msg)
			continue
		}
		if tok == "X" {
			outs = append(outs, c.statics[h])
			continue
		}
		o := objs[tok]
		if o == nil {
			o = c.mkFresh(eid, tok, p.fresh[tok], msg)
			objs[tok] = o
		}
		outs = append(outs, o)
	}
	return outs, nil
}

func snapAll(ms []*message.Message) []vlib.MsgSnap {
	var out []vlib.MsgSnap
	for _, m := range ms {
		if m == nil {
			out = append(out, vlib.MsgSnap{})
			continue
		}
		out = append(out, snapMsg(m))
	}
	return out
}

// layerMW is the middleware of layer l. It records what it was handed by next() and what it hands on,
// and - when active for the emission - applies the effect of its kind.
func (c *caseState) layerMW(l *layer) message.HandlerMiddleware {
	return func(next message.HandlerFunc) message.HandlerFunc {
		return func(msg *message.Message) ([]*message.Message, error) {
			eid := eidOf(msg)
			run := &layerRun{eid: eid, layer: l.id}
			c.mu.Lock()
			c.lruns = append(c.lruns, run)
			c.mu.Unlock()
			p, _ := c.planFor(eid)
			active := p != nil && l.kind != lkPass && p.mwMask>>(uint(l.id)%32)&1 == 1
			var outs []*message.Message
			var err error
			if active && l.kind >= lkShort && p.shortOK {
				switch l.kind {
				case lkShort:
					outs = []*message.Message{c.mkFresh(eid, fmt.Sprintf("S@L%d", l.id), p.fresh["S"], msg)}
				case lkShortErr:
					err = fmt.Errorf("layer %d short-circuits %s with an error", l.id, eid)
				}
			} else {
				ins, ierr := next(msg)
				inSnaps := snapAll(ins)
				c.mu.Lock()
				run.called, run.in, run.inSnaps, run.inErr = true, append([]*message.Message(nil), ins...), inSnaps, ierr != nil
				c.mu.Unlock()
				outs, err = ins, ierr
				if active && ierr == nil {
					outs = c.transform(l, p, eid, msg, ins)
				}
			}
			outSnaps := snapAll(outs)
			c.mu.Lock()
			run.done, run.out, run.outSnaps, run.outErr = true, append([]*message.Message(nil), outs...), outSnaps, err != nil
			run.tDone = vlib.Now()
			c.mu.Unlock()
			return outs, err
		}
	}
}

func (c *caseState) transform(l *layer, p *emPlan, eid string, msg *message.Message, ins []*message.Message) []*message.Message {
	res := append([]*message.Message(nil), ins...)
	switch l.kind {
	case lkAdd:
		objs := map[string]*message.Message{}
		for _, tok := range p.mwOuts {
			switch {
			case tok == "C":
				res = append(res, msg)
			case tok == "D":
				if len(ins) > 0 {
					res = append(res, ins[0])
				}
			default:
				o := objs[tok]
				if o == nil {
					o = c.mkFresh(eid, fmt.Sprintf("%s@L%d", tok, l.id), p.fresh[tok], msg)
					objs[tok] = o
				}
				res = append(res, o)
			}
		}
	case lkDrop:
		switch {
		case len(res) == 0:
		case l.arg == 0:
			res = res[1:]
		case l.arg == 1:
			res = res[:len(res)-1]
		default:
			res = nil
		}
	case lkReverse:
		for i, j := 0, len(res)-1; i < j; i, j = i+1, j-1 {
			res[i], res[j] = res[j], res[i]
		}
	case lkDup:
		if len(ins) > 0 {
			res = append(res, ins[0])
		}
	}
	return res
}

// ---------------------------------------------------------------------------------------------
// generation

func randMeta(r *vlib.Rand) [][2]string {
	var m [][2]string
	for i, n := 0, r.Intn(3); i < n; i++ {
		m = append(m, [2]string{"k:" + r.UTF8(4), r.UTF8(6)})
	}
	return m
}

// randMetaOdd: like randMeta plus the legal corner entries - the empty key, empty values, both.
func randMetaOdd(r *vlib.Rand) [][2]string {
	var m [][2]string
	for i, n := 0, r.Intn(4); i < n; i++ {
		switch r.Intn(5) {
		case 0:
			m = append(m, [2]string{"", r.UTF8(6)})
		case 1:
			m = append(m, [2]string{"k:" + r.UTF8(4), ""})
		case 2:
			m = append(m, [2]string{"", ""})
		default:
			m = append(m, [2]string{"k:" + r.UTF8(4), r.UTF8(6)})
		}
	}
	return m
}

// genFresh draws the value of one fresh output object. Plain cases keep the objects of the earlier rounds; odd
// cases mix in empty / duplicate / borrowed UUIDs, constructor-less objects (nil metadata map, no ack channels),
// metadata that is exactly what was drawn (no harness key, possibly an empty non-nil map) and corner metadata entries.
func genFresh(r *vlib.Rand, odd bool, max int) freshSpec {
	if !odd {
		return freshSpec{payload: r.Payload(max), meta: randMeta(r)}
	}
	fs := freshSpec{payload: r.Payload(max), meta: randMetaOdd(r)}
	fs.uuidMode = []int{umUnique, umUnique, umEmpty, umEmpty, umEmpty, umDup, umDup, umConsumed, umConst}[r.Intn(9)]
	fs.noCtor = r.Chance(0.3)
	fs.nilMeta = fs.noCtor && r.Chance(0.6)
	fs.bare = r.Chance(0.4)
	if r.Chance(0.15) {
		fs.meta = nil
	}
	return fs
}

// staticShapes: output shapes around the handler's long-lived object ("X").
var staticShapes = [][]string{{"X"}, {"X"}, {"X", "X"}, {"F0", "X"}, {"X", "C"}, {"C", "X", "F0"}, {"X", "F0", "X"}}

func genOuts(r *vlib.Rand) (fn []string, shape string) {
	switch r.Intn(10) {
	case 0, 1:
		return nil, "none"
	case 2:
		return []string{"F0"}, "fresh1"
	case 3:
		n := r.Range(2, 4)
		for i := 0; i < n; i++ {
			fn = append(fn, fmt.Sprintf("F%d", i))
		}
		return fn, fmt.Sprintf("fresh%d", n)
	case 4:
		return []string{"C"}, "consumed"
	case 5:
		return []string{"F0", "F0"}, "twice"
	case 6:
		return []string{"C", "C"}, "consumed-twice"
	case 7:
		return []string{"F0", "C", "F1"}, "mix-fCf"
	case 8:
		return []string{"F0", "F1", "F0", "F2"}, "mix-repeat"
	default:
		return []string{"C", "F0", "F1", "F2", "F3"}, "consumed+fresh4"
	}
}

func genMwOuts(r *vlib.Rand) ([]string, string) {
	switch r.Intn(6) {
	case 0:
		return nil, "mw-none"
	case 1:
		return []string{"W0"}, "mw-fresh1"
	case 2:
		return []string{"W0", "W1"}, "mw-fresh2"
	case 3:
		return []string{"C"}, "mw-consumed"
	case 4:
		return []string{"D", "W0"}, "mw-dup+fresh"
	default:
		return []string{"W0", "W0"}, "mw-twice"
	}
}

// genNames draws nH pairwise different handler names. 40% of the cases keep the plain prefix chain
// (<id>/h, <id>/ha, ...); the others mix the name kinds, and half of those put the empty name on one handler.
func genNames(r *vlib.Rand, id string, nH int, topics []string) ([]string, []int) {
	names := make([]string, nH)
	kinds := make([]int, nH)
	used := map[string]bool{}
	chain := func(i int) string { return id + "/h" + strings.Repeat("a", i) }
	if r.Intn(10) < 4 {
		for i := range names {
			names[i], kinds[i] = chain(i), nkChain
		}
		return names, kinds
	}
	emptyAt := -1
	if r.Bool() {
		emptyAt = r.Intn(nH)
	}
	longN := []int{300, 5000, 70000}[r.Intn(3)]
	for i := 0; i < nH; i++ {
		k := []int{nkChain, nkChain, nkEmpty, nkTopic, nkTopic, nkUnicode, nkUnicode, nkLong, nkVariant, nkVariant, nkBlank}[r.Intn(11)]
		if i == emptyAt {
			k = nkEmpty
		}
		n := ""
		switch k {
		case nkEmpty:
		case nkTopic:
			n = topics[r.Intn(len(topics))]
		case nkUnicode:
			n = id + "/" + r.UTF8(8)
		case nkLong:
			n = id + "/L" + strings.Repeat("x", longN) + string(rune('a'+r.Intn(3)))
		case nkVariant:
			if i == 0 {
				k, n = nkChain, chain(i)
				break
			}
			o := names[r.Intn(i)]
			switch r.Intn(5) {
			case 0:
				n = o + " "
			case 1:
				n = o + "\x00"
			case 2:
				n = strings.ToUpper(o)
			case 3:
				if len(o) > 0 {
					n = o[:len(o)-1] // may cut a multi-byte rune: handler names are plain Go strings
				}
			default:
				n = o + "/"
			}
		case nkBlank:
			n = []string{" ", "\t"}[r.Intn(2)]
		default:
			n = chain(i)
		}
		if used[n] || (k != nkEmpty && n == "") {
			// taken (or degenerated to the empty name, which is drawn on its own): fall back to the chain name
			k, n = nkChain, chain(i)
			for used[n] {
				n += "'"
			}
		}
		used[n] = true
		names[i], kinds[i] = n, k
	}
	return names, kinds
}

// genLayers draws the middleware layers of the case and the registration program of the early handlers.
func (c *caseState) genLayers() {
	r := c.e.R
	newLayer := func(owner, kind int) *layer {
		l := &layer{id: len(c.layers), owner: owner, kind: kind, arg: r.Intn(3)}
		c.layers = append(c.layers, l)
		return l
	}
	randKind := func(short bool) int {
		ks := []int{lkPass, lkAdd, lkAdd, lkAdd, lkDrop, lkReverse, lkReverse, lkDup}
		if short {
			ks = append(ks, lkShort, lkShort, lkShortNone, lkShortErr)
		}
		return ks[r.Intn(len(ks))]
	}
	newLayer(-1, lkPass) // layer 0: added to the Router before anything else
	var routerExtra []*layer
	if r.Chance(0.4) {
		for i, n := 0, r.Range(1, 2); i < n; i++ {
			routerExtra = append(routerExtra, newLayer(-1, randKind(r.Chance(0.3))))
		}
	}
	for _, h := range c.hs {
		pMW := 0.35
		if h.pubKind != pubReal {
			pMW = 0.6 // a no-publisher handler's chain can only return messages from a middleware
		}
		if h.nameKind == nkEmpty {
			pMW = 0.8
		}
		if !r.Chance(pMW) {
			continue
		}
		n := []int{1, 1, 1, 2, 2, 3}[r.Intn(6)]
		for k := 0; k < n; k++ {
			kind := randKind(true)
			if k == 0 && r.Bool() {
				kind = lkAdd
			}
			h.mws = append(h.mws, newLayer(h.idx, kind))
		}
		h.deferMW = !h.late && r.Chance(0.4)
	}
	// registration program of the part before Run: layer 0 first, then the early handlers in index order,
	// the extra router-level middlewares at random positions between them (before / after handlers and their
	// handler-level middlewares), deferred Handler.AddMiddleware calls last in random order
	c.rlOps = append(c.rlOps, [2]int{1, 0})
	var body [][2]int
	var deferred [][2]int
	for _, h := range c.hs {
		if h.late {
			continue
		}
		body = append(body, [2]int{0, h.idx})
		if h.deferMW {
			deferred = append(deferred, [2]int{2, h.idx})
		}
	}
	for _, i := range r.Perm(len(deferred)) {
		body = append(body, deferred[i])
	}
	for _, l := range routerExtra {
		at := r.Intn(len(body) + 1)
		body = append(body[:at], append([][2]int{{1, l.id}}, body[at:]...)...)
	}
	c.rlOps = append(c.rlOps, body...)
}

// ---------------------------------------------------------------------------------------------
// wrapping router-level decorators. Router.AddPublisherDecorators / AddSubscriberDecorators "wrap" the ends of every
// handler; what a decorator returns is normally a value of ANOTHER type (message.MessageTransformPublisherDecorator,
// the metrics decorators of components/metrics, ...). The statement speaks of "that handler's ... Pub/Sub type names",
// PublisherNameFromCtx of "the message publisher type that published the message ... for Kafka it will be
// kafka.Publisher": the names are those of the ends the handler was registered with, whatever wraps them at run time
// (components/metrics labels its series with exactly these values, from inside such a decorator). Every wrapper
// forwards each call unchanged, so routing, arguments and settlement are judged exactly as without decorators.

const wrapShare = 0.35

const (
	wkPtr       = iota // pointer of a named struct type, no String()
	wkValue            // value of a named struct type, no String()
	wkStringer         // Stringer with a scripted String() result
	wkTransform        // watermill's own MessageTransform{Publisher,Subscriber}Decorator with a transform that does nothing
)

var wkNames = []string{"ptr", "value", "stringer", "watermill-transform"}

type wrapSpec struct {
	kind int
	name string // String() of the Stringer kind
}

type wrapPubP struct {
	in message.Publisher
	c  *caseState
}

func (w *wrapPubP) Publish(topic string, msgs ...*message.Message) error {
	w.c.wrapPublishes.Add(1)
	return w.in.Publish(topic, msgs...)
}
func (w *wrapPubP) Close() error { return w.in.Close() }

type wrapPubV struct {
	in message.Publisher
	c  *caseState
}

func (w wrapPubV) Publish(topic string, msgs ...*message.Message) error {
	w.c.wrapPublishes.Add(1)
	return w.in.Publish(topic, msgs...)
}
func (w wrapPubV) Close() error { return w.in.Close() }

type wrapPubS struct {
	wrapPubP
	n string
}

func (w *wrapPubS) String() string { return w.n }

type wrapSubP struct {
	in message.Subscriber
	c  *caseState
}

func (w *wrapSubP) Subscribe(ctx context.Context, topic string) (<-chan *message.Message, error) {
	w.c.wrapSubscribe.Add(1)
	return w.in.Subscribe(ctx, topic)
}
func (w *wrapSubP) Close() error { return w.in.Close() }

type wrapSubV struct {
	in message.Subscriber
	c  *caseState
}

func (w wrapSubV) Subscribe(ctx context.Context, topic string) (<-chan *message.Message, error) {
	w.c.wrapSubscribe.Add(1)
	return w.in.Subscribe(ctx, topic)
}
func (w wrapSubV) Close() error { return w.in.Close() }

type wrapSubS struct {
	wrapSubP
	n string
}

func (w *wrapSubS) String() string { return w.n }

// genWrapDeco draws the wrapping decorators of the case. The choices come from a PRNG stream of their own (derived
// from the run seed and the case index like e.R), so that the rest of the case is the same with and without them.
func (c *caseState) genWrapDeco() {
	r := vlib.NewRand(c.e.Seed, "C08/wrapdeco", c.e.Idx)
	if !r.Chance(wrapShare) {
		return
	}
	nP, nS := 0, 0
	switch r.Intn(10) {
	case 0, 1, 2, 3:
		nP = r.Range(1, 2)
	case 4, 5:
		nS = r.Range(1, 2)
	default:
		nP, nS = r.Range(1, 2), r.Range(1, 2)
	}
	names := func() string {
		switch r.Intn(5) {
		case 0:
			return ""
		case 1:
			return c.pubs[r.Intn(len(c.pubs))].name
		case 2:
			return c.subs[r.Intn(len(c.subs))].name
		case 3:
			return "*" + c.e.ID() + "/decorator"
		}
		return c.e.ID() + "/decorator " + r.UTF8(6)
	}
	for i := 0; i < nP; i++ {
		c.wrapPub = append(c.wrapPub, wrapSpec{kind: r.Intn(4), name: names()})
	}
	for i := 0; i < nS; i++ {
		c.wrapSub = append(c.wrapSub, wrapSpec{kind: r.Intn(4), name: names()})
	}
	c.wrapFirst = r.Bool()
}

// addWrapDeco installs them. A publisher decorator hands a nil publisher (AddHandler with a nil publisher) through as it
// is: wrapping it would turn the handler into one that has a publisher.
func (c *caseState) addWrapDeco(router *message.Router) {
	for _, ws := range c.wrapPub {
		ws := ws
		transform := message.MessageTransformPublisherDecorator(func(*message.Message) {})
		router.AddPublisherDecorators(func(p message.Publisher) (message.Publisher, error) {
			if p == nil {
				c.wrapNilPub.Add(1)
				return p, nil
			}
			c.wrapPubCalls.Add(1)
			switch ws.kind {
			case wkPtr:
				return &wrapPubP{in: p, c: c}, nil
			case wkValue:
				return wrapPubV{in: p, c: c}, nil
			case wkStringer:
				return &wrapPubS{wrapPubP: wrapPubP{in: p, c: c}, n: ws.name}, nil
			}
			return transform(&wrapPubP{in: p, c: c})
		})
	}
	for _, ws := range c.wrapSub {
		ws := ws
		transform := message.MessageTransformSubscriberDecorator(func(*message.Message) {})
		router.AddSubscriberDecorators(func(s message.Subscriber) (message.Subscriber, error) {
			c.wrapSubCalls.Add(1)
			switch ws.kind {
			case wkPtr:
				return &wrapSubP{in: s, c: c}, nil
			case wkValue:
				return wrapSubV{in: s, c: c}, nil
			case wkStringer:
				return &wrapSubS{wrapSubP: wrapSubP{in: s, c: c}, n: ws.name}, nil
			}
			return transform(&wrapSubP{in: s, c: c})
		})
	}
}

func (c *caseState) wrapDesc() string {
	if len(c.wrapPub)+len(c.wrapSub) == 0 {
		return ""
	}
	d := "pub"
	for _, ws := range c.wrapPub {
		d += "." + wkNames[ws.kind]
	}
	d += " sub"
	for _, ws := range c.wrapSub {
		d += "." + wkNames[ws.kind]
	}
	if c.wrapFirst {
		d += " first"
	}
	return d
}

// ---------------------------------------------------------------------------------------------
// start-up class: batches, decorators, scripted transient faults

// startupShare is the share of the cases that belong to the start-up class.
const startupShare = 0.2

const (
	gSubscribe = iota // Subscribe of a scripted subscriber
	gPubDeco          // the router-level publisher decorator
	gSubDeco          // the router-level subscriber decorator
)

var gateNames = []string{"subscribe", "publisher-decorator", "subscriber-decorator"}

// fault: at gate `gate` (Subscribe: only calls for `key` = "<subscriber>|<topic>", unless key is empty), after `skip`
// further calls have passed, one call fails - once.
type fault struct {
	gate int
	key  string
	skip int
}

// genStartup draws the bring-up program: the late handlers in batches (one RunHandlers round per batch; classic cases:
// one handler per batch), whether router-level decorators are installed, and the faults of every round (round 0 = Run).
func (c *caseState) genStartup(lateFrom int) {
	r := c.e.R
	c.batchSize = make([]int, len(c.hs))
	var early []int
	for _, h := range c.hs {
		if !h.late {
			early = append(early, h.idx)
			continue
		}
		if len(c.batches) == 0 || !c.startup || r.Chance(0.3) {
			c.batches = append(c.batches, nil)
		}
		c.batches[len(c.batches)-1] = append(c.batches[len(c.batches)-1], h.idx)
	}
	for _, b := range c.batches {
		for _, hi := range b {
			c.batchSize[hi] = len(b)
		}
	}
	c.phaseFaults = make([][]*fault, 1+len(c.batches))
	if !c.startup {
		return
	}
	c.useDeco = r.Chance(0.6)
	if r.Chance(0.12) {
		return // batches (and decorators) only, no fault
	}
	for ph := range c.phaseFaults {
		members := early
		pFault := 0.4
		if ph > 0 {
			members, pFault = c.batches[ph-1], 0.75
		}
		if len(members) == 0 || !r.Chance(pFault) {
			continue
		}
		n := 1
		if r.Chance(0.3) {
			n = 2
		}
		for k := 0; k < n; k++ {
			f := &fault{gate: gSubscribe}
			if c.useDeco && r.Chance(0.4) {
				f.gate = []int{gPubDeco, gSubDeco}[r.Intn(2)]
			}
			if f.gate == gSubscribe && r.Chance(0.7) {
				// "Subscribe fails once for one topic"
				h := c.hs[members[r.Intn(len(members))]]
				f.key = fmt.Sprintf("%d|%s", h.sub, h.subTopic)
				if r.Chance(0.2) {
					f.skip = 1
				}
			} else {
				f.skip = r.Intn(len(members))
			}
			c.phaseFaults[ph] = append(c.phaseFaults[ph], f)
			c.faultsPlanned++
		}
	}
}

// arm installs the faults of bring-up round ph (faults of the previous round that never fired are dropped).
func (c *caseState) arm(ph int) {
	c.fmu.Lock()
	defer c.fmu.Unlock()
	c.armed = nil
	for _, f := range c.phaseFaults[ph] {
		g := *f
		c.armed = append(c.armed, &g)
	}
}

// gateCall is called by every gated operation; it returns the scripted error when an armed fault is due.
func (c *caseState) gateCall(gate int, key string) error {
	c.fmu.Lock()
	defer c.fmu.Unlock()
	c.gateCalls[gate]++
	for i, f := range c.armed {
		if f.gate != gate || (f.key != "" && f.key != key) {
			continue
		}
		if f.skip == 0 {
			c.armed = append(c.armed[:i:i], c.armed[i+1:]...)
			c.fired[gate]++
			return fmt.Errorf("scripted transient %s fault", gateNames[gate])
		}
		f.skip--
	}
	return nil
}

func (c *caseState) firedCount() int {
	c.fmu.Lock()
	defer c.fmu.Unlock()
	return c.fired[0] + c.fired[1] + c.fired[2]
}

// bringUp calls RunHandlers until it returns nil. An error is expected only when a scripted fault fired during the call.
func (c *caseState) bringUp(router *message.Router, ctx context.Context) (bool, string) {
	for n := 0; ; n++ {
		before := c.firedCount()
		err := router.RunHandlers(ctx)
		if err == nil {
			return true, ""
		}
		c.retries++
		if c.firedCount() == before || n > 16 {
			return false, fmt.Sprintf("RunHandlers: %v", err)
		}
	}
}

// setsAllFive: handler h sets all five context values (watermill leaves a value of an earlier hop untouched when the
// handler's own value is the empty string).
func (c *caseState) setsAllFive(h *hcfg) bool {
	return h.pubKind == pubReal && h.pubTopic != "" && h.subTopic != "" && h.name != "" && c.subs[h.sub].name != "" && c.pubs[h.pub].name != ""
}

func (c *caseState) generate() {
	e, r := c.e, c.e.R
	id := e.ID()
	nH := r.Range(1, 6)
	if r.Chance(0.15) {
		nH = 1
	}
	// start-up class: handlers are brought up in batches (several not-started handlers per RunHandlers call), through
	// router-level decorators, with scripted transient faults; every RunHandlers call is retried until it returns nil
	c.startup = r.Chance(startupShare)
	if c.startup && nH < 2 {
		nH = r.Range(2, 6)
	}
	topics := []string{id + "/t0", id + "/t1", id + "/t2"}
	if r.Chance(0.1) {
		topics[r.Intn(3)] = ""
	}
	nS := r.Range(1, nH)
	nP := r.Range(1, nH)
	for i := 0; i < nS; i++ {
		s := &vlib.Sub{Name: fmt.Sprintf("%s/s%d", id, i)}
		se := &subEnd{s: s, core: &subCore{s: s}, kind: drawEndKind(r)}
		if c.startup {
			si := i
			se.core.gate = func(topic string) error { return c.gateCall(gSubscribe, fmt.Sprintf("%d|%s", si, topic)) }
		}
		se.iface, se.name, se.nameKind = mkSub(r, se.kind, se.core, s.Name, c.startup)
		c.subs = append(c.subs, se)
	}
	for i := 0; i < nP; i++ {
		p := &vlib.Pub{Name: fmt.Sprintf("%s/p%d", id, i)}
		pe := &pubEnd{p: p, kind: drawEndKind(r)}
		pe.iface, pe.name, pe.nameKind = mkPub(r, pe.kind, p, p.Name)
		c.pubs = append(c.pubs, pe)
	}
	shareBias := r.Chance(0.4) // push towards handlers sharing subscriber AND topic
	lateFrom := nH
	if nH > 1 && r.Chance(0.3) {
		lateFrom = r.Range(1, nH-1)
	}
	if c.startup {
		switch r.Intn(4) {
		case 0: // every handler before Run: the faults hit Run itself
			lateFrom = nH
		case 1: // at least two handlers at run time; sometimes a Router that is started without any handler
			lateFrom = r.Range(1, nH-1)
			if nH > 2 {
				lateFrom = r.Range(1, nH-2)
			}
			if r.Chance(0.3) {
				lateFrom = 0
			}
		default:
			lateFrom = r.Range(1, nH-1)
		}
	}
	names, kinds := genNames(r, id, nH, topics)
	for i := 0; i < nH; i++ {
		h := &hcfg{idx: i, name: names[i], nameKind: kinds[i]}
		h.sub = r.Intn(nS)
		h.subTopic = topics[r.Intn(3)]
		if shareBias && i > 0 && r.Chance(0.6) {
			o := c.hs[r.Intn(i)]
			h.sub, h.subTopic = o.sub, o.subTopic
		}
		switch k := r.Intn(8); {
		case k == 0:
			h.pubKind = pubNoPub
			h.pubTopic = ""
		case k == 1:
			h.pubKind = pubNil
			if r.Bool() {
				h.pubTopic = topics[r.Intn(3)]
			}
		default:
			h.pubKind = pubReal
			h.pub = r.Intn(nP)
			h.pubTopic = topics[r.Intn(3)]
		}
		h.late = i >= lateFrom
		c.hs = append(c.hs, h)
	}
	c.genStartup(lateFrom)
	c.genLayers()
	c.odd = r.Chance(0.5)
	c.useStatic = r.Chance(0.25)
	sameEmUUID := c.odd && r.Chance(0.2) // every emission of the case carries one and the same UUID
	c.objOwner = map[*message.Message]string{}
	c.staticIdx = map[*message.Message]int{}
	// one stream per handler index (assigned to subscriptions later)
	c.plans = map[string]*emPlan{}
	total := 0
	// The stream of handler i is emitted on handler i's own subscription when that subscription can be told
	// apart without the function running (late handler: the subscription its RunHandlers call creates; or
	// the only handler on its (subscriber, topic)). Only there may a layer short-circuit the function.
	ownerKnown := make([]bool, nH)
	{
		grp := map[string]int{}
		for _, h := range c.hs {
			grp[fmt.Sprintf("%d|%s", h.sub, h.subTopic)]++
		}
		for _, h := range c.hs {
			ownerKnown[h.idx] = (h.late && c.batchSize[h.idx] == 1) || grp[fmt.Sprintf("%d|%s", h.sub, h.subTopic)] == 1
		}
	}
	for i := 0; i < nH; i++ {
		n := r.Intn(5)
		if i == nH-1 && total == 0 && n == 0 {
			n = r.Range(1, 4)
		}
		total += n
		var st []*emPlan
		for j := 0; j < n; j++ {
			p := &emPlan{stream: i, j: j, uuid: fmt.Sprintf("%s/m%d.%d", id, i, j), payload: r.Payload(16), meta: randMeta(r), fresh: map[string]freshSpec{}}
			if c.odd {
				// unusual-but-legal consumed messages (they are outputs wherever a "C" token returns them)
				p.meta = randMetaOdd(r)
				switch {
				case sameEmUUID:
					p.uuid = id + "/same"
				case r.Chance(0.35):
					p.uuid = ""
				}
			}
			p.stale = r.Chance(0.3)
			var s1, s2 string
			p.fnOuts, s1 = genOuts(r)
			if c.useStatic && r.Chance(0.6) {
				p.fnOuts = staticShapes[r.Intn(len(staticShapes))]
				s1 = "static:" + strings.Join(p.fnOuts, "")
			}
			p.mwOuts, s2 = genMwOuts(r)
			p.shape = s1 + "/" + s2
			for _, tok := range append(append([]string{}, p.fnOuts...), p.mwOuts...) {
				if tok != "C" && tok != "D" && tok != "X" {
					if _, ok := p.fresh[tok]; !ok {
						p.fresh[tok] = genFresh(r, c.odd, 12)
					}
				}
			}
			p.fresh["S"] = genFresh(r, c.odd, 8)
			p.mwMask = uint32(r.Uint64())
			if r.Chance(0.25) {
				p.mwMask = ^uint32(0) // every layer active
			}
			p.shortOK = ownerKnown[i]
			p.failFirst = r.Chance(0.12)
			p.wait = r.Chance(0.4) || c.useStatic
			p.yields = r.Intn(4)
			st = append(st, p)
			c.plans[eidFor(p, id, 1)] = p
			c.plans[eidFor(p, id, 2)] = p
		}
		c.streams = append(c.streams, st)
	}
	if c.startup {
		// one probe per subscription the Router can make: a plain message whose handling returns one fresh object
		for k := 0; k < nH; k++ {
			p := &emPlan{stream: 100 + k, probe: true, uuid: fmt.Sprintf("%s/probe%d", id, k), payload: r.Payload(8), fresh: map[string]freshSpec{}, fnOuts: []string{"F0"}, wait: true, shape: "probe"}
			p.fresh["F0"] = genFresh(r, false, 8)
			p.fresh["S"] = genFresh(r, false, 8)
			c.probes = append(c.probes, p)
			c.plans[eidFor(p, id, 1)] = p
		}
	}
	c.driveSeq = r.Chance(0.25)
	if c.useStatic {
		// the long-lived objects: half of them without UUID, some built without the constructor, none with a harness key
		mk := func(k int) *message.Message {
			fs := genFresh(r, true, 12)
			fs.bare = true
			fs.uuidMode = umUnique
			if r.Bool() {
				fs.uuidMode = umEmpty
			}
			return c.mkFresh(id, fmt.Sprintf("static%d", k), fs, nil)
		}
		allSet := true
		for _, h := range c.hs {
			if !c.setsAllFive(h) {
				allSet = false
			}
		}
		// one object for all handlers: only under the sequential drive (no two invocations overlap at all) and only where
		// every handler sets all five context values (watermill leaves a value of an earlier hop untouched when the
		// handler's own value is empty - the same restriction as for emissions with another hop's context)
		c.staticShared = c.driveSeq && allSet && nH > 1 && r.Bool()
		for i := 0; i < nH; i++ {
			var m *message.Message
			if c.staticShared && i > 0 {
				m = c.statics[0]
			} else {
				m = mk(i)
				delete(c.objOwner, m)
				c.staticIdx[m] = i
			}
			c.statics = append(c.statics, m)
			c.staticInit = append(c.staticInit, snapMsg(m))
		}
	}
}

// ---------------------------------------------------------------------------------------------
// the case

// register adds handler h to the Router and, unless withMW is false, its handler-level middlewares.
func (c *caseState) register(r *message.Router, h *hcfg, withMW bool) {
	var hh *message.Handler
	switch h.pubKind {
	case pubReal:
		hh = r.AddHandler(h.name, h.subTopic, c.subs[h.sub].iface, h.pubTopic, c.pubs[h.pub].iface, c.handlerFunc(h.idx))
	case pubNoPub:
		hh = r.AddNoPublisherHandler(h.name, h.subTopic, c.subs[h.sub].iface, c.noPubFunc(h.idx))
	default:
		hh = r.AddHandler(h.name, h.subTopic, c.subs[h.sub].iface, h.pubTopic, nil, c.handlerFunc(h.idx))
	}
	if c.handles == nil {
		c.handles = map[int]*message.Handler{}
	}
	c.handles[h.idx] = hh
	if withMW {
		c.addHandlerMWs(h)
	}
}

// addHandlerMWs adds h's handler-level middlewares: one AddMiddleware call per layer or one variadic call.
func (c *caseState) addHandlerMWs(h *hcfg) {
	hh := c.handles[h.idx]
	if len(h.mws) > 1 && h.mws[0].arg == 0 {
		var ms []message.HandlerMiddleware
		for _, l := range h.mws {
			ms = append(ms, c.layerMW(l))
		}
		hh.AddMiddleware(ms...)
		return
	}
	for _, l := range h.mws {
		hh.AddMiddleware(c.layerMW(l))
	}
}

func (c *caseState) emit(spi int, p *emPlan, attempt int) *emission {
	sp := c.spis[spi].sp
	eid := eidFor(p, c.e.ID(), attempt)
	m := message.NewMessage(p.uuid, p.payload)
	for _, kv := range p.meta {
		m.Metadata.Set(kv[0], kv[1])
	}
	m.Metadata.Set("vemit", eid)
	m.SetContext(sp.Ctx)
	if p.stale {
		// A message handed over in-process from another handler hop still carries that hop's router values; the
		// router must replace them. Only used where every handler of the target group sets all five values
		// (watermill leaves a value untouched when the handler's own value is empty).
		c.mu.Lock()
		allSet := true
		sameGroup := map[int]bool{}
		for _, h := range c.hs {
			if h.sub == c.spis[spi].sub && h.subTopic == sp.Topic {
				sameGroup[h.idx] = true
				if !c.setsAllFive(h) {
					allSet = false
				}
			}
		}
		if allSet {
			for k, cx := range c.ctxOf {
				if !sameGroup[k] {
					m.SetContext(cx)
					c.staleN.Add(1)
					break
				}
			}
		}
		c.mu.Unlock()
	}
	em := &emission{eid: eid, plan: p, attempt: attempt, sp: spi, msg: m, snap: snapMsg(m)}
	c.mu.Lock()
	c.emitted = append(c.emitted, em)
	c.objOwner[m] = eid
	c.mu.Unlock()
	ok := sp.Send(m)
	c.mu.Lock()
	em.sent = ok
	c.mu.Unlock()
	return em
}

func waitSettle(m *message.Message, sp *vlib.Subscription) {
	select {
	case <-m.Acked():
	case <-m.Nacked():
	case <-sp.Ended():
	}
}

// emitOne emits p (and its planned redelivery) on subscription spi; it returns the emissions whose
// settlement has not been awaited yet.
func (c *caseState) emitOne(spi int, p *emPlan, forceWait bool) []*emission {
	sp := c.spis[spi].sp
	em := c.emit(spi, p, 1)
	if !em.sent {
		return nil
	}
	if !(p.wait || p.failFirst || forceWait) {
		return []*emission{em}
	}
	waitSettle(em.msg, sp)
	if p.failFirst && vlib.Settled(em.msg) == "nack" {
		em2 := c.emit(spi, p, 2)
		if em2.sent {
			if p.wait || forceWait {
				waitSettle(em2.msg, sp)
			} else {
				return []*emission{em2}
			}
		}
	}
	return nil
}

// wo: the Router's CloseTimeout is one hour in every case, so the timer inside WaitGroupTimeout never decides anything.
var wo = vlib.WaitOpts{Watchdog: 40 * time.Second, NoTimerCheck: []string{"pubsub/sync.WaitGroupTimeout"}}

func run(e *vlib.Env) vlib.Result {
	res := vlib.Result{}
	c := &caseState{e: e}
	c.generate()

	ctl := vlib.NewCtl(e.R.Uint64(), 0.15, 40)
	defer ctl.Uninstall()

	for _, pe := range c.pubs {
		pe.p.OnPublish = func(pc *vlib.PubCall) {
			for i, m := range pc.Msgs {
				v := readCtx(m.Context())
				for k := range v {
					pc.Sampled[fmt.Sprintf("%d.%d", i, k)] = v[k]
				}
				if m.Metadata == nil {
					pc.Sampled[fmt.Sprintf("%d.nilmeta", i)] = "1"
				}
			}
		}
	}

	router, err := message.NewRouter(message.RouterConfig{CloseTimeout: time.Hour}, watermill.NopLogger{})
	if err != nil {
		res.Inconclusive("NewRouter: %v", err)
		return res
	}
	// every middleware of the early part is added before Run (Router.AddMiddleware is not synchronised with
	// starting handlers; handler-level middlewares of late handlers are added before their RunHandlers call)
	for _, op := range c.rlOps {
		switch op[0] {
		case 0:
			c.register(router, c.hs[op[1]], !c.hs[op[1]].deferMW)
		case 1:
			router.AddMiddleware(c.layerMW(c.layers[op[1]]))
		default:
			c.addHandlerMWs(c.hs[op[1]])
		}
	}
	c.genWrapDeco()
	if c.wrapFirst {
		c.addWrapDeco(router)
	}
	if c.useDeco {
		// router-level decorators that hand the end through unchanged unless a scripted fault is due (added before Run)
		router.AddPublisherDecorators(func(p message.Publisher) (message.Publisher, error) {
			if err := c.gateCall(gPubDeco, ""); err != nil {
				return nil, err
			}
			return p, nil
		})
		router.AddSubscriberDecorators(func(s message.Subscriber) (message.Subscriber, error) {
			if err := c.gateCall(gSubDeco, ""); err != nil {
				return nil, err
			}
			return s, nil
		})
	}
	if !c.wrapFirst {
		c.addWrapDeco(router)
	}
	ctx, cancel := context.WithCancel(context.Background())
	defer cancel()
	runDone := make(chan struct{})
	var runErr error
	c.arm(0)
	go func() { runErr = router.Run(ctx); close(runDone) }()

	closed := false
	shutdown := func() (vlib.Outcome, string) {
		if closed {
			return vlib.Done, ""
		}
		closed = true
		closeDone := make(chan struct{})
		go func() { router.Close(); close(closeDone) }()
		oc, d := vlib.WaitClosed(closeDone, wo)
		if oc == vlib.Done {
			oc, d = vlib.WaitClosed(runDone, wo)
		}
		cancel()
		for _, se := range c.subs {
			se.s.Close()
		}
		return oc, d
	}

	if oc, d := vlib.WaitUntil(func() bool { return vlib.IsClosed(router.Running()) || vlib.IsClosed(runDone) }, wo); oc != vlib.Done || vlib.IsClosed(runDone) {
		var re error
		if vlib.IsClosed(runDone) {
			re = runErr
		}
		if !(c.startup && oc == vlib.Done && re != nil && c.firedCount() > 0) {
			shutdown()
			res.Inconclusive("router did not start (%v, run error %v)", oc, re)
			res.Witness = d
			return res
		}
		// A scripted fault made Run fail half-way. Run has cancelled the context of the handlers it had started (they
		// stop: not judged); the others are brought up by retrying RunHandlers, as for handlers added at run time.
		c.runFailed = true
		c.s0 = map[int]bool{}
		for _, h := range c.hs {
			if !h.late && vlib.IsClosed(c.handles[h.idx].Started()) {
				c.s0[h.idx] = true
			}
		}
		if ok, why := c.bringUp(router, ctx); !ok {
			shutdown()
			res.Inconclusive("after the failed Run: %s", why)
			return res
		}
	}

	// subscriptions of the early handlers
	groupSize := map[string]int{}
	for _, h := range c.hs {
		groupSize[fmt.Sprintf("%d|%s", h.sub, h.subTopic)]++
	}
	seen := make([]int, len(c.subs)) // subscriptions already enumerated per subscriber
	collect := func(owner int) {
		for si, se := range c.subs {
			all := se.s.Subs()
			for _, sp := range all[seen[si]:] {
				o := owner
				if o < 0 && groupSize[fmt.Sprintf("%d|%s", si, sp.Topic)] == 1 {
					for _, h := range c.hs {
						if h.sub == si && h.subTopic == sp.Topic {
							o = h.idx
						}
					}
				}
				c.spis = append(c.spis, spInfo{sub: si, sp: sp, owner: o, dead: sp.Ctx.Err() != nil})
			}
			seen[si] = len(all)
		}
	}
	collect(-1)
	// late handlers, one RunHandlers round per batch (classic cases: one handler per batch - the subscription created
	// by the call is that handler's)
	for bi, batch := range c.batches {
		c.arm(bi + 1)
		for _, hi := range batch {
			c.register(router, c.hs[hi], true)
		}
		before := len(c.spis)
		if ok, why := c.bringUp(router, ctx); !ok {
			shutdown()
			res.Inconclusive("%s", why)
			return res
		}
		owner := -1
		if len(batch) == 1 {
			owner = batch[0]
		}
		collect(owner)
		if h := c.hs[batch[0]]; !c.startup && len(c.spis) != before+1 {
			shutdown()
			res.Fail("subscribe-topic", "RunHandlers for late handler %d (%s on sub %d topic %q) created %d subscriptions, want exactly 1", h.idx, short(h.name), h.sub, h.subTopic, len(c.spis)-before)
			return c.finish(res, ctl)
		}
	}

	// clause handler-not-routed (start-up class): every RunHandlers round has returned nil, so "a message arriving on a
	// handler's subscribe topic is passed to that handler's function" holds for EVERY registered handler from here on.
	// One probe message is sent on every live subscription; every handler (except those a failed Run had started and
	// then cancelled itself) must be invoked for one. "Never" is decided by the quiescence detector.
	if c.startup {
		var live []int
		for i, s := range c.spis {
			if !s.dead {
				live = append(live, i)
			}
		}
		if len(live) > len(c.probes) {
			shutdown()
			res.Fail("subscribe-topic", "the Router holds %d live subscriptions for %d handlers", len(live), len(c.hs))
			return c.finish(res, ctl)
		}
		probesDone := make(chan struct{})
		var wg sync.WaitGroup
		for k, spi := range live {
			wg.Add(1)
			go func(spi int, p *emPlan) {
				defer wg.Done()
				c.emitOne(spi, p, true)
			}(spi, c.probes[k])
		}
		go func() { wg.Wait(); close(probesDone) }()
		c.probesSent = len(live)
		missing := func() []int {
			c.mu.Lock()
			defer c.mu.Unlock()
			got := map[int]bool{}
			for _, r := range c.invs {
				if p := c.plans[r.eid]; p != nil && p.probe && r.returned {
					got[r.h] = true
				}
			}
			var out []int
			for _, h := range c.hs {
				if !got[h.idx] && !c.s0[h.idx] {
					out = append(out, h.idx)
				}
			}
			return out
		}
		oc, dump := vlib.WaitUntil(func() bool { return vlib.IsClosed(probesDone) && len(missing()) == 0 }, wo)
		if miss := missing(); oc != vlib.Done {
			if oc == vlib.Stuck && len(miss) > 0 {
				var who []string
				for _, hi := range miss {
					h := c.hs[hi]
					when := "before Run"
					if h.late {
						when = "at run time"
					}
					who = append(who, fmt.Sprintf("handler %d (%s, added %s, subscriber %d topic %q)", hi, short(h.name), when, h.sub, h.subTopic))
				}
				res.Fail("handler-not-routed", "every RunHandlers round returned nil (%d retries after %d scripted start-up faults, Run failed: %v), a probe message was sent on each of the %d live subscriptions, and the process is quiescent, yet the function of %s was never invoked: no message arriving on its subscribe topic reaches it", c.retries, c.firedCount(), c.runFailed, len(live), strings.Join(who, ", "))
				res.Witness = map[string]any{"goroutines": dump}
			} else {
				res.Inconclusive("the probe round after the bring-up did not complete (%v, handlers without a probe invocation: %v)", oc, miss)
			}
			shutdown()
			return c.finish(res, ctl)
		}
	}

	// clause subscribe-topic: one subscription per handler, on that handler's subscriber and subscribe topic
	{
		want := map[string]int{}
		got := map[string]int{}
		for _, h := range c.hs {
			want[fmt.Sprintf("sub%d|%q", h.sub, h.subTopic)]++
		}
		for _, s := range c.spis {
			got[fmt.Sprintf("sub%d|%q", s.sub, s.sp.Topic)]++
		}
		if fmt.Sprint(want) != fmt.Sprint(got) {
			shutdown()
			res.Fail("subscribe-topic", "subscriptions made by the Router %v differ from the handlers' (subscriber, subscribe topic) pairs %v", got, want)
			return c.finish(res, ctl)
		}
	}

	// assign the streams: the subscriptions of a (subscriber, topic) group get the streams of the group's handlers
	spStream := make([]int, len(c.spis))
	{
		used := map[int]bool{}
		for i, s := range c.spis {
			spStream[i] = -1
			if s.owner >= 0 {
				spStream[i] = s.owner
				used[s.owner] = true
			}
		}
		for i, s := range c.spis {
			if spStream[i] >= 0 || s.dead {
				continue
			}
			for _, h := range c.hs {
				if !used[h.idx] && h.sub == s.sub && h.subTopic == s.sp.Topic {
					spStream[i] = h.idx
					used[h.idx] = true
					break
				}
			}
		}
	}

	// drive
	streamsDone := make(chan struct{})
	if c.driveSeq {
		// one global interleaving, every emission settled before the next
		var order []int
		for i := range c.spis {
			if spStream[i] < 0 || c.spis[i].dead {
				continue
			}
			for range c.streams[spStream[i]] {
				order = append(order, i)
			}
		}
		perm := e.R.Perm(len(order))
		shuffled := make([]int, len(order))
		for i, p := range perm {
			shuffled[i] = order[p]
		}
		go func() {
			defer close(streamsDone)
			next := make([]int, len(c.spis))
			for _, spi := range shuffled {
				p := c.streams[spStream[spi]][next[spi]]
				next[spi]++
				c.emitOne(spi, p, true)
			}
		}()
	} else {
		var wg sync.WaitGroup
		for i := range c.spis {
			if spStream[i] < 0 || c.spis[i].dead {
				continue
			}
			st := c.streams[spStream[i]]
			if len(st) == 0 {
				continue
			}
			wg.Add(1)
			go func(spi int, st []*emPlan) {
				defer wg.Done()
				var pending []*emission
				for _, p := range st {
					pending = append(pending, c.emitOne(spi, p, false)...)
				}
				for _, em := range pending {
					waitSettle(em.msg, c.spis[spi].sp)
					if em.attempt == 1 && em.plan.failFirst && vlib.Settled(em.msg) == "nack" {
						em2 := c.emit(spi, em.plan, 2)
						if em2.sent {
							waitSettle(em2.msg, c.spis[spi].sp)
						}
					}
				}
			}(i, st)
		}
		go func() { wg.Wait(); close(streamsDone) }()
	}
	driveOc, driveDump := vlib.WaitClosed(streamsDone, wo)
	closeOc, closeDump := shutdown()
	// after the shutdown every subscription has ended, so the stream goroutines finish
	if oc, _ := vlib.WaitClosed(streamsDone, wo); oc != vlib.Done {
		res.Inconclusive("stream drivers did not finish after the Router was closed")
		return c.finish(res, ctl)
	}

	c.judge(&res, spStream, closeOc == vlib.Done)

	if !res.Failed() {
		switch {
		case driveOc == vlib.Stuck:
			res.Inconclusive("streams did not complete (process quiescent) although every judged clause held")
			res.Witness = driveDump
		case driveOc == vlib.Inconclusive:
			res.Inconclusive("streams did not complete before the watchdog")
		case closeOc != vlib.Done:
			res.Inconclusive("Router.Close/Run did not return (%v)", closeOc)
			res.Witness = closeDump
		}
	}
	return c.finish(res, ctl)
}

// ---------------------------------------------------------------------------------------------
// oracle

func (c *caseState) judge(res *vlib.Result, spStream []int, routerDone bool) {
	c.mu.Lock()
	defer c.mu.Unlock()

	for _, u := range c.unknown {
		res.Fail("unknown-message", "%s", u)
	}
	invBy := map[string][]*invRec{}
	for _, r := range c.invs {
		invBy[r.eid] = append(invBy[r.eid], r)
	}
	// the layer executions of one emission, in the order the layers were entered (= outermost first: they
	// nest inside one goroutine)
	runsBy := map[string][]*layerRun{}
	for _, r := range c.lruns {
		runsBy[r.eid] = append(runsBy[r.eid], r)
	}
	res.Count("layer_runs", len(c.lruns))
	emBy := map[string]*emission{}
	for _, em := range c.emitted {
		emBy[em.eid] = em
	}

	// attribute every Publish call of every publisher to the emission whose invocation produced its messages
	type attributed struct {
		pub  int
		call *vlib.PubCall
	}
	callsBy := map[string][]attributed{}
	nCalls, nMsgs := 0, 0
	for pi, pe := range c.pubs {
		for _, pc := range pe.p.Calls() {
			nCalls++
			nMsgs += len(pc.Msgs)
			res.Events++
			// the invocation a call belongs to: by the identity of the objects it carries (fresh outputs and consumed
			// messages belong to one emission; a copy is recognised by the harness key in its metadata, if it has
			// one); a call that carries long-lived objects only belongs to the latest emission whose chain returned
			// that object before the call began (invocations returning one long-lived object never overlap)
			owner := ""
			var longLived *message.Message
			for i, s := range pc.Snaps {
				m := pc.Msgs[i]
				o, known := c.objOwner[m]
				if !known {
					if _, st := c.staticIdx[m]; st {
						if longLived == nil {
							longLived = m
						}
						continue
					}
					o = s.Metadata["vout"]
					if o == "" {
						o = s.Metadata["vemit"]
					}
					if o == "" {
						continue
					}
				}
				if owner == "" {
					owner = o
				} else if o != owner {
					res.Fail("publish-args", "Publish #%d on publisher %d (topic %q) mixes messages of different invocations: %q and %q", pc.No, pi, pc.Topic, owner, o)
				}
			}
			if owner == "" && longLived != nil {
				var best uint64
				for eid, runs := range runsBy {
					if lr := runs[0]; lr.done && !lr.outErr && lr.tDone < pc.Start && lr.tDone > best {
						for _, m := range lr.out {
							if m == longLived {
								owner, best = eid, lr.tDone
								break
							}
						}
					}
				}
				res.Count("publish_calls_attributed_by_long_lived_object", 1)
			}
			if len(pc.Msgs) == 0 {
				res.Fail("spurious-publish", "Publish #%d on publisher %d (topic %q) was called with no messages", pc.No, pi, pc.Topic)
				continue
			}
			if _, ok := emBy[owner]; !ok || len(invBy[owner])+len(runsBy[owner]) == 0 {
				res.Fail("spurious-publish", "Publish #%d on publisher %d (topic %q) carries %d message(s) (first uuid %q) that no handler invocation of this case returned", pc.No, pi, pc.Topic, len(pc.Msgs), pc.Snaps[0].UUID)
				continue
			}
			callsBy[owner] = append(callsBy[owner], attributed{pi, pc})
		}
	}
	res.Count("emissions_with_another_hops_context", int(c.staleN.Load()))
	res.Count("publish_calls", nCalls)
	res.Count("published_msgs", nMsgs)

	spOwner := map[int]int{}
	ownerSp := map[int]int{}
	judgedPub, judgedNack := 0, 0
	type ownedObj struct {
		ptr  *message.Message
		snap vlib.MsgSnap // its value when the outermost stage of the chain returned it
		em   *emission
		h    int
		pos  int
	}
	var owned []ownedObj
	for _, em := range c.emitted {
		if !em.sent {
			res.Inconclusive("emission %s was not taken by the Router (subscription ended early)", em.eid)
			continue
		}
		res.Count("emissions", 1)
		if em.plan.probe {
			res.Count("probe_emissions_after_bring_up", 1)
		}
		if em.attempt == 2 {
			res.Count("redeliveries", 1)
		}
		si := c.spis[em.sp]
		invs := invBy[em.eid]
		runs := runsBy[em.eid]
		res.Events++
		unfinished := false
		shorted := -1 // layer that short-circuited the function for this emission
		for _, lr := range runs {
			if !lr.done {
				unfinished = true
			} else if !lr.called && shorted < 0 {
				shorted = lr.layer
			}
		}
		for _, r := range invs {
			unfinished = unfinished || !r.returned
		}
		if unfinished {
			res.Inconclusive("emission %s: a layer or the function has not returned when the case was judged", em.eid)
			continue
		}
		// clause invocation-count: exactly one handler-function invocation per emission - none when a layer of
		// the chain answered without calling next
		wantInv := 1
		if shorted >= 0 {
			wantInv = 0
			res.Count("emissions_short_circuited", 1)
		}
		if len(invs) != wantInv {
			var who []int
			for _, r := range invs {
				who = append(who, r.h)
			}
			sc := ""
			if shorted >= 0 {
				sc = fmt.Sprintf(" (layer %v answered without calling next)", c.layers[shorted])
			}
			res.Fail("invocation-count", "emission %s (uuid %q on subscriber %d topic %q) caused %d handler-function invocations %v, want exactly %d%s", em.eid, em.snap.UUID, si.sub, si.sp.Topic, len(invs), who, wantInv, sc)
			continue
		}
		var h *hcfg
		var inv *invRec
		if shorted >= 0 {
			// the function did not run: the handler is the owner of the subscription (short-circuiting is only
			// planned where that is known)
			if si.owner < 0 {
				res.Inconclusive("emission %s was short-circuited on a subscription whose handler is not known", em.eid)
				continue
			}
			h = c.hs[si.owner]
		} else {
			inv = invs[0]
			h = c.hs[inv.h]
			res.Count("invocations", 1)
			// clause wrong-handler: the function is one registered with that (subscriber, subscribe topic)
			if h.sub != si.sub || h.subTopic != si.sp.Topic {
				res.Fail("wrong-handler", "emission %s arrived on subscriber %d topic %q but the function of handler %d (%s: subscriber %d topic %q) was invoked", em.eid, si.sub, si.sp.Topic, h.idx, short(h.name), h.sub, h.subTopic)
				continue
			}
			if si.owner >= 0 && si.owner != h.idx {
				res.Fail("wrong-handler", "emission %s arrived on the subscription of handler %d but the function of handler %d was invoked", em.eid, si.owner, h.idx)
				continue
			}
			// clause mapping: subscription -> handler learned from the first message is fixed and injective
			if prev, ok := spOwner[em.sp]; ok && prev != h.idx {
				res.Fail("mapping-unstable", "subscription %d (subscriber %d topic %q) fed handler %d first and handler %d for emission %s", em.sp, si.sub, si.sp.Topic, prev, h.idx, em.eid)
				continue
			}
			if prev, ok := ownerSp[h.idx]; ok && prev != em.sp {
				res.Fail("mapping-not-injective", "handler %d received messages of two subscriptions (%d and %d) of subscriber %d topic %q", h.idx, prev, em.sp, si.sub, si.sp.Topic)
				continue
			}
			spOwner[em.sp], ownerSp[h.idx] = h.idx, em.sp
			// clause consumed-message: the function got the emitted message
			if !snapEq(inv.snap, em.snap) {
				res.Fail("consumed-message", "handler %d was passed uuid %q payload %x metadata %v for emission %s, emitted uuid %q payload %x metadata %v", h.idx, inv.snap.UUID, inv.snap.Payload, inv.snap.Metadata, em.eid, em.snap.UUID, em.snap.Payload, em.snap.Metadata)
				continue
			}
		}
		// clause ctx-in-handler
		want := c.wantCtx(h)
		if inv != nil {
			res.Count("ctx_checks", 1)
			c.countNameChecks(res, h)
			if d := ctxDiff(inv.ctx, want); d != "" {
				res.Fail("ctx-in-handler", "inside handler %d (%s, %s) for emission %s: %s (all five: %q)", h.idx, short(h.name), pubKindNames[h.pubKind], em.eid, d, inv.ctx)
				continue
			}
		}
		// clause mw-wrong-handler: the layers around this handler's function are the router-level middlewares
		// and the handler's own handler-level middlewares - no other handler's, none twice, and (unless one of
		// them answered without calling next, which hides the layers inside it) none missing
		{
			ran := map[int]int{}
			bad := ""
			for _, lr := range runs {
				l := c.layers[lr.layer]
				ran[l.id]++
				if l.owner >= 0 && l.owner != h.idx && bad == "" {
					bad = fmt.Sprintf("went through %v, a handler-level middleware of handler %d (%s)", l, l.owner, short(c.hs[l.owner].name))
				}
				if ran[l.id] > 1 && bad == "" {
					bad = fmt.Sprintf("went through %v %d times", l, ran[l.id])
				}
			}
			if bad == "" && shorted < 0 {
				for _, l := range c.layers {
					if (l.owner < 0 || l.owner == h.idx) && ran[l.id] == 0 {
						bad = fmt.Sprintf("did not go through %v of its own chain", l)
						break
					}
				}
			}
			if bad != "" {
				res.Fail("mw-wrong-handler", "emission %s handled by handler %d (%s, own handler-level layers %v) %s; layers entered: %v", em.eid, h.idx, short(h.name), h.mws, bad, c.runNames(runs))
				continue
			}
			if len(h.mws) > 0 {
				res.Count("emissions_through_handler_level_layers", 1)
			}
		}
		// clause chain-link: what one layer returns is what the layer around it receives from next() - same
		// objects, same order, same content, same error-ness - from the function's return values outwards;
		// together with mw-wrong-handler: the outermost return values are what this handler's own chain
		// (router-level + its handler-level middlewares + function) produced, whatever the nesting order
		{
			bad := ""
			for k, lr := range runs {
				if !lr.called {
					if k != len(runs)-1 {
						bad = fmt.Sprintf("%v answered without calling next, yet %v was entered after it", c.layers[lr.layer], c.layers[runs[k+1].layer])
					}
					break
				}
				var outs []*message.Message
				var snaps []vlib.MsgSnap
				var oerr bool
				from := ""
				if k == len(runs)-1 {
					outs, snaps, oerr, from = inv.ret, inv.retSnaps, inv.retErr, "the function"
				} else {
					outs, snaps, oerr, from = runs[k+1].out, runs[k+1].outSnaps, runs[k+1].outErr, c.layers[runs[k+1].layer].String()
				}
				res.Count("chain_links_checked", 1)
				if d := linkDiff(outs, snaps, oerr, lr.in, lr.inSnaps, lr.inErr); d != "" {
					bad = fmt.Sprintf("%s returned %v (error=%v) but %v received %v (error=%v) from next: %s", from, uuids(snaps), oerr, c.layers[lr.layer], uuids(lr.inSnaps), lr.inErr, d)
					break
				}
			}
			if bad != "" {
				res.Fail("chain-link", "emission %s handled by handler %d (%s): %s", em.eid, h.idx, short(h.name), bad)
				continue
			}
		}
		if len(runs) == 0 {
			// cannot happen past mw-wrong-handler (layer 0 belongs to every chain)
			res.Inconclusive("no layer saw emission %s", em.eid)
			continue
		}
		ch := chainRec{outs: runs[0].out, snaps: runs[0].outSnaps, err: runs[0].outErr}
		calls := callsBy[em.eid]
		sort.Slice(calls, func(i, j int) bool { return calls[i].call.Start < calls[j].call.Start })
		settled := vlib.Settled(em.msg)
		switch {
		case ch.err || len(ch.outs) == 0:
			if len(calls) != 0 {
				res.Fail("spurious-publish", "handler %d returned no messages (error=%v) for %s but %d Publish call(s) carry its messages (first on publisher %d topic %q)", h.idx, ch.err, em.eid, len(calls), calls[0].pub, calls[0].call.Topic)
			}
		case h.pubKind != pubReal:
			// clause nopub: Nack and nothing published
			judgedNack++
			res.Count("nopub_outputs", 1)
			if len(calls) != 0 {
				res.Fail("nopub-published", "handler %d (%s, %s) returned %d message(s) for %s and %d Publish call(s) carry them (publisher %d topic %q)", h.idx, short(h.name), pubKindNames[h.pubKind], len(ch.outs), em.eid, len(calls), calls[0].pub, calls[0].call.Topic)
			} else if settled != "nack" {
				res.Fail("nopub-nack", "handler %d (%s, %s) returned %d message(s) for %s; the consumed message is %q, want nack", h.idx, short(h.name), pubKindNames[h.pubKind], len(ch.outs), em.eid, settled)
			}
		default:
			judgedPub++
			if len(calls) == 0 {
				res.Fail("publish-missing", "handler %d (%s) returned %d message(s) for %s but publisher %d saw no Publish with them (consumed message settled %q)", h.idx, short(h.name), len(ch.outs), em.eid, h.pub, settled)
				break
			}
			if len(calls) > 1 {
				res.Count("split_publish", 1)
			}
			var ptrs []*message.Message
			var snaps []vlib.MsgSnap
			var ctxs [][5]string
			for _, a := range calls {
				if a.pub != h.pub {
					res.Fail("publish-wrong-publisher", "outputs of handler %d (%s, publisher %d %s) for %s were published on publisher %d %s (topic %q)", h.idx, short(h.name), h.pub, c.pubs[h.pub].name, em.eid, a.pub, c.pubs[a.pub].name, a.call.Topic)
				}
				if a.call.Topic != h.pubTopic {
					res.Fail("publish-topic", "outputs of handler %d (%s: subscribe topic %q, publish topic %q) for %s were published to topic %q", h.idx, short(h.name), h.subTopic, h.pubTopic, em.eid, a.call.Topic)
				}
				for i := range a.call.Msgs {
					ptrs = append(ptrs, a.call.Msgs[i])
					ps := a.call.Snaps[i]
					if a.call.Sampled[fmt.Sprintf("%d.nilmeta", i)] == "1" {
						ps.Metadata = nil
					}
					snaps = append(snaps, ps)
					var v [5]string
					for k := range v {
						v[k] = a.call.Sampled[fmt.Sprintf("%d.%d", i, k)]
					}
					ctxs = append(ctxs, v)
				}
			}
			if res.Failed() {
				break
			}
			if len(ptrs) != len(ch.outs) {
				res.Fail("publish-args", "handler %d returned %d message(s) %v for %s, Publish got %d %v", h.idx, len(ch.outs), uuids(ch.snaps), em.eid, len(ptrs), uuids(snaps))
				break
			}
			{
				seenU := map[string]*message.Message{}
				for i, sn := range ch.snaps {
					if o, ok := seenU[sn.UUID]; ok && o != ch.outs[i] {
						res.Count("invocations_with_duplicate_uuids_among_distinct_outputs", 1)
						break
					}
					seenU[sn.UUID] = ch.outs[i]
				}
			}
			for i := range ptrs {
				if ptrs[i] != ch.outs[i] {
					res.Fail("publish-args", "handler %d returned %v for %s, Publish got %v: position %d is not the returned object (order or identity changed)", h.idx, uuids(ch.snaps), em.eid, uuids(snaps), i)
					break
				}
				if !snapEq(ch.snaps[i], snaps[i]) {
					res.Fail("publish-modified", "output %d (%s) of handler %d for %s was returned as %s and published as %s", i, c.objKind(ptrs[i], em), h.idx, em.eid, snapStr(ch.snaps[i]), snapStr(snaps[i]))
					break
				}
				res.Count("outputs_compared_field_by_field", 1)
				c.countOutputValue(res, ptrs[i], em, ch.snaps[i])
				owned = append(owned, ownedObj{ptrs[i], ch.snaps[i], em, h.idx, i})
				res.Count("ctx_checks", 1)
				c.countNameChecks(res, h)
				if d := ctxDiff(ctxs[i], want); d != "" {
					res.Fail("ctx-on-produced", "output %d (uuid %q) of handler %d (%s) for %s at Publish time: %s (all five: %q)", i, snaps[i].UUID, h.idx, short(h.name), em.eid, d, ctxs[i])
					break
				}
			}
		}
	}
	// clause output-object-modified: "handed, unmodified": the objects a chain returned are the application's (the
	// consumed message, a long-lived object it returns again and again, fresh objects it may keep); what the Router
	// may do to them is set the context ("on produced messages the context reports ..."), nothing else. The scripted
	// publishers and the layers of this harness never write to a message, so once the Router has finished, every
	// object handed to a publisher must still have the value it was returned with, and a long-lived object must
	// have its original value at every return. Judged only after Close and Run returned (no Router goroutine left).
	if routerDone && !res.Failed() {
		for _, o := range owned {
			if c.isStatic(o.ptr) {
				continue
			}
			res.Count("output_objects_rechecked_after_close", 1)
			if cur := snapMsg(o.ptr); !snapEq(cur, o.snap) {
				res.Fail("output-object-modified", "output %d (%s) of handler %d for %s was returned as %s and is %s after the Router finished (the publisher saw it unmodified)", o.pos, c.objKind(o.ptr, o.em), o.h, o.em.eid, snapStr(o.snap), snapStr(cur))
				break
			}
		}
		for _, r := range c.invs {
			if c.statics == nil || !r.returned || r.retErr || c.hs[r.h].pubKind != pubReal {
				continue
			}
			for i, m := range r.ret {
				if m != c.statics[r.h] {
					continue
				}
				res.Count("long_lived_object_returns_checked", 1)
				if !snapEq(r.retSnaps[i], c.staticInit[r.h]) {
					res.Fail("output-object-modified", "the long-lived object handler %d returns on every call was created as %s and is %s when returned for %s: an earlier hand-over to the publisher modified the application's object", r.h, snapStr(c.staticInit[r.h]), snapStr(r.retSnaps[i]), r.eid)
				}
				break
			}
		}
		for hi, m := range c.statics {
			if c.hs[hi].pubKind != pubReal {
				continue
			}
			if cur := snapMsg(m); !snapEq(cur, c.staticInit[hi]) {
				res.Fail("output-object-modified", "the long-lived object of handler %d was created as %s and is %s after the Router finished", hi, snapStr(c.staticInit[hi]), snapStr(cur))
			}
		}
	}
	// invocations that belong to no emission of this case
	for eid, invs := range invBy {
		if _, ok := emBy[eid]; !ok {
			res.Fail("unknown-message", "handler %d was invoked with emission id %q that the harness never emitted", invs[0].h, eid)
		}
	}
	res.Count("judged_publish", judgedPub)
	res.Count("judged_nopub_nack", judgedNack)
	res.NonTrivial = judgedPub+judgedNack > 0
}

// countNameChecks counts, per judged context, which naming rule the expected Pub/Sub type names exercise.
func (c *caseState) countNameChecks(res *vlib.Result, h *hcfg) {
	one := func(end string, kind int, nameKind, name string) {
		switch {
		case nameKind != "":
			res.Count("ctx_checks_"+end+"_name_from_scripted_String", 1)
			if strings.HasPrefix(name, "*") {
				res.Count("ctx_checks_"+end+"_String_result_with_leading_star", 1)
			}
			if name == "" {
				res.Count("ctx_checks_"+end+"_String_result_empty", 1)
			}
		case kind != ekVlib:
			res.Count("ctx_checks_"+end+"_name_from_Go_type", 1)
		}
	}
	se := c.subs[h.sub]
	one("subscriber", se.kind, se.nameKind, se.name)
	if h.pubKind == pubReal {
		pe := c.pubs[h.pub]
		one("publisher", pe.kind, pe.nameKind, pe.name)
	}
}

func (c *caseState) runNames(runs []*layerRun) []string {
	var out []string
	for _, lr := range runs {
		out = append(out, c.layers[lr.layer].String())
	}
	return out
}

// linkDiff compares what an inner stage returned with what the stage around it received.
func linkDiff(outs []*message.Message, snaps []vlib.MsgSnap, oerr bool, ins []*message.Message, inSnaps []vlib.MsgSnap, ierr bool) string {
	if oerr != ierr {
		return "error-ness differs"
	}
	if len(outs) != len(ins) {
		return fmt.Sprintf("%d message(s) became %d", len(outs), len(ins))
	}
	for i := range outs {
		if outs[i] != ins[i] {
			return fmt.Sprintf("position %d is not the returned object (order or identity changed)", i)
		}
		if !snapEq(snaps[i], inSnaps[i]) {
			return fmt.Sprintf("position %d was modified (uuid %q payload %x metadata %v became uuid %q payload %x metadata %v)", i, snaps[i].UUID, snaps[i].Payload, snaps[i].Metadata, inSnaps[i].UUID, inSnaps[i].Payload, inSnaps[i].Metadata)
		}
	}
	return ""
}

// short abbreviates very long handler names in messages and samples.
func short(n string) string {
	if len(n) <= 48 {
		return fmt.Sprintf("%q", n)
	}
	return fmt.Sprintf("%q...(%d bytes)...%q", n[:24], len(n), n[len(n)-4:])
}

func uuids(s []vlib.MsgSnap) []string {
	out := make([]string, len(s))
	for i, x := range s {
		u := x.UUID
		if k := strings.Index(u, "/"); k >= 0 {
			u = u[k:]
		}
		out[i] = u
	}
	return out
}

// snapEq: field by field - UUID, payload bytes and nil-ness, metadata entries and nil-ness of the map.
func snapEq(a, b vlib.MsgSnap) bool {
	if a.UUID != b.UUID || string(a.Payload) != string(b.Payload) || len(a.Metadata) != len(b.Metadata) {
		return false
	}
	if a.NilPay != b.NilPay || (a.Metadata == nil) != (b.Metadata == nil) {
		return false
	}
	for k, v := range a.Metadata {
		if w, ok := b.Metadata[k]; !ok || w != v {
			return false
		}
	}
	return true
}

func snapStr(s vlib.MsgSnap) string {
	pay := fmt.Sprintf("%x", s.Payload)
	if s.NilPay {
		pay = "nil"
	}
	meta := fmt.Sprintf("%q", s.Metadata)
	if s.Metadata == nil {
		meta = "nil map"
	}
	return fmt.Sprintf("{uuid %q payload %s metadata %s}", s.UUID, pay, meta)
}

// objKind names what an output object is to the handler that returned it.
func (c *caseState) objKind(m *message.Message, em *emission) string {
	switch {
	case m == em.msg:
		return "the consumed message"
	case c.isStatic(m):
		if c.staticShared {
			return "the long-lived object all handlers return"
		}
		return "the handler's long-lived object"
	}
	return "fresh object"
}

func (c *caseState) isStatic(m *message.Message) bool {
	_, ok := c.staticIdx[m]
	return ok
}

// countOutputValue counts the unusual-but-legal values among the outputs that were compared at Publish.
func (c *caseState) countOutputValue(res *vlib.Result, m *message.Message, em *emission, s vlib.MsgSnap) {
	if s.UUID == "" {
		res.Count("published_outputs_with_empty_uuid", 1)
	}
	if s.Metadata == nil {
		res.Count("published_outputs_with_nil_metadata_map", 1)
	} else if len(s.Metadata) == 0 {
		res.Count("published_outputs_with_empty_metadata_map", 1)
	}
	if _, ok := s.Metadata[""]; ok {
		res.Count("published_outputs_with_empty_metadata_key", 1)
	}
	for k, v := range s.Metadata {
		if v == "" && k != "" {
			res.Count("published_outputs_with_empty_metadata_value", 1)
			break
		}
	}
	if s.NilPay {
		res.Count("published_outputs_with_nil_payload", 1)
	} else if len(s.Payload) == 0 {
		res.Count("published_outputs_with_empty_payload", 1)
	}
	switch {
	case m == em.msg:
		res.Count("published_outputs_that_are_the_consumed_message", 1)
		if s.UUID == "" {
			res.Count("published_consumed_messages_with_empty_uuid", 1)
		}
	case c.isStatic(m):
		res.Count("published_outputs_that_are_a_long_lived_object", 1)
	}
}

// finish fills the evidence fields.
func (c *caseState) finish(res vlib.Result, ctl *vlib.Ctl) vlib.Result {
	c.mu.Lock()
	defer c.mu.Unlock()
	sharedSubscription, sharedSub, sharedPub, nopub, late, mw := false, false, false, false, false, false
	mwChain, oddNames, emptyName := false, false, false
	grp := map[string]int{}
	subUse := map[int]int{}
	pubUse := map[int]int{}
	var wiring []string
	for _, h := range c.hs {
		grp[fmt.Sprintf("%d|%s", h.sub, h.subTopic)]++
		subUse[h.sub]++
		if h.pubKind == pubReal {
			pubUse[h.pub]++
		} else {
			nopub = true
		}
		late = late || h.late
		mw = mw || len(h.mws) > 0
		mwChain = mwChain || len(h.mws) > 1
		if h.nameKind != nkChain {
			oddNames = true
		}
		if h.nameKind == nkEmpty {
			emptyName = true
		}
		res.Count("names_"+nkNames[h.nameKind], 1)
		for _, l := range h.mws {
			res.Count("handler_level_layers_"+lkNames[l.kind], 1)
		}
	}
	for _, l := range c.layers[1:] {
		if l.owner < 0 {
			mwChain = true
			res.Count("router_level_layers_"+lkNames[l.kind], 1)
		}
	}
	for _, n := range grp {
		sharedSubscription = sharedSubscription || n > 1
	}
	for _, n := range subUse {
		sharedSub = sharedSub || n > 1
	}
	for _, n := range pubUse {
		sharedPub = sharedPub || n > 1
	}
	topicNo := map[string]int{}
	tn := func(t string) string {
		if t == "" {
			return "''"
		}
		if _, ok := topicNo[t]; !ok {
			topicNo[t] = len(topicNo)
		}
		return fmt.Sprintf("t%d", topicNo[t])
	}
	var hsample []map[string]any
	for _, h := range c.hs {
		w := fmt.Sprintf("s%d.%d:%s>%s", h.sub, c.subs[h.sub].kind, tn(h.subTopic), pubKindNames[h.pubKind])
		if h.pubKind == pubReal {
			w += fmt.Sprintf("%d.%d", h.pub, c.pubs[h.pub].kind)
		}
		w += ":" + tn(h.pubTopic)
		if len(h.mws) > 0 {
			w += "+mw"
			for _, l := range h.mws {
				w += "." + lkNames[l.kind]
			}
			if h.deferMW {
				w += "(deferred)"
			}
		}
		w += "/n:" + nkNames[h.nameKind]
		if h.late {
			w += "+late"
		}
		wiring = append(wiring, w)
		hs := map[string]any{"name": short(h.name), "wiring": w, "subscriber_name": short(c.subs[h.sub].name), "subscriber_kind": ekNames[c.subs[h.sub].kind]}
		if h.pubKind == pubReal {
			hs["publisher_name"], hs["publisher_kind"] = short(c.pubs[h.pub].name), ekNames[c.pubs[h.pub].kind]
		}
		hsample = append(hsample, hs)
	}
	switch {
	case len(c.hs) == 1:
		res.Class = "single"
	case sharedSubscription:
		res.Class = "shared-subscriber+topic"
	case sharedSub || sharedPub:
		res.Class = "shared-ends"
	default:
		res.Class = "private"
	}
	if nopub {
		res.Class += "/nopub"
	}
	if late {
		res.Class += "/late"
	}
	if oddNames {
		res.Class += "/oddnames"
	}
	if mwChain {
		res.Class += "/mwchain"
	}
	if c.odd {
		res.Class += "/oddvalues"
		res.Count("cases_with_odd_output_values", 1)
		for _, st := range c.streams {
			for _, p := range st {
				for _, tok := range append(append([]string{}, p.fnOuts...), p.mwOuts...) {
					if fs, ok := p.fresh[tok]; ok {
						res.Count("planned_fresh_outputs_uuid_"+umNames[fs.uuidMode], 1)
						if fs.noCtor {
							res.Count("planned_fresh_outputs_built_without_constructor", 1)
						}
					}
				}
			}
		}
	}
	if c.startup {
		res.Class += "/startup"
		res.Count("cases_start_up_class", 1)
		maxBatch := 0
		for _, b := range c.batches {
			if len(b) > maxBatch {
				maxBatch = len(b)
			}
			if len(b) > 1 {
				res.Count("runhandlers_rounds_with_several_new_handlers", 1)
			}
		}
		c.fmu.Lock()
		fired, calls := c.fired, c.gateCalls
		c.fmu.Unlock()
		res.Count("start_up_faults_planned", c.faultsPlanned)
		for g, n := range fired {
			res.Count("start_up_faults_fired_"+gateNames[g], n)
		}
		res.Count("decorator_calls", calls[gPubDeco]+calls[gSubDeco])
		res.Count("runhandlers_retries", c.retries)
		if c.runFailed {
			res.Count("cases_run_failed_then_runhandlers_retried", 1)
			res.Count("handlers_started_by_a_failed_run_not_judged", len(c.s0))
		}
		if c.useDeco {
			res.Count("cases_with_router_level_decorators", 1)
		}
		early := 0
		for _, h := range c.hs {
			if !h.late {
				early++
			}
		}
		if early == 0 {
			res.Count("cases_router_started_without_handlers", 1)
		}
		res.Count("handlers_required_to_route_after_bring_up", len(c.hs)-len(c.s0))
		res.Count("probes_sent", c.probesSent)
	}
	for _, se := range c.subs {
		res.Count("subscriber_kind_"+ekNames[se.kind], 1)
		if se.nameKind != "" {
			res.Count("scripted_String_"+se.nameKind, 1)
		}
	}
	for _, pe := range c.pubs {
		res.Count("publisher_kind_"+ekNames[pe.kind], 1)
		if pe.nameKind != "" {
			res.Count("scripted_String_"+pe.nameKind, 1)
		}
	}
	if wd := c.wrapDesc(); wd != "" {
		res.Class += "/wrapdeco"
		res.Count("cases_with_wrapping_decorators", 1)
		for _, ws := range c.wrapPub {
			res.Count("wrapping_publisher_decorator_"+wkNames[ws.kind], 1)
		}
		for _, ws := range c.wrapSub {
			res.Count("wrapping_subscriber_decorator_"+wkNames[ws.kind], 1)
		}
		res.Count("wrapping_decorator_calls_publisher", int(c.wrapPubCalls.Load()))
		res.Count("wrapping_decorator_calls_subscriber", int(c.wrapSubCalls.Load()))
		res.Count("wrapping_decorator_calls_nil_publisher_passed_through", int(c.wrapNilPub.Load()))
		res.Count("publish_calls_through_wrappers", int(c.wrapPublishes.Load()))
		res.Count("subscribe_calls_through_wrappers", int(c.wrapSubscribe.Load()))
	}
	if c.useStatic {
		res.Class += "/longlived"
		res.Count("cases_with_long_lived_output_objects", 1)
		if c.staticShared {
			res.Count("cases_with_one_long_lived_object_for_all_handlers", 1)
		}
	}
	var shapes []string
	for _, em := range c.emitted {
		s := em.plan.shape
		if em.plan.failFirst {
			s += "!"
		}
		shapes = append(shapes, s)
	}
	sort.Strings(shapes)
	drive := "concurrent"
	if c.driveSeq {
		drive = "sequential"
	}
	var regProg []string
	for _, op := range c.rlOps {
		regProg = append(regProg, fmt.Sprintf("%s%d", []string{"H", "R", "M"}[op[0]], op[1]))
	}
	bringUp := ""
	if c.startup {
		var bs []string
		for _, b := range c.batches {
			bs = append(bs, fmt.Sprint(len(b)))
		}
		c.fmu.Lock()
		bringUp = fmt.Sprintf("batches=%s deco=%v fired=%v retries=%d runFailed=%v s0=%d", strings.Join(bs, "+"), c.useDeco, c.fired, c.retries, c.runFailed, len(c.s0))
		c.fmu.Unlock()
	}
	res.Sig = vlib.Sig(strings.Join(wiring, ","), strings.Join(regProg, ","), strings.Join(shapes, ","), drive, c.maxAct.Load(), c.odd, c.useStatic, c.staticShared, bringUp, c.wrapDesc())
	res.Hooks = ctl.Counts()
	res.Count("handlers", len(c.hs))
	res.Count("max_concurrent_invocations_sum", int(c.maxAct.Load()))
	if c.maxAct.Load() > 1 {
		res.Count("cases_with_overlapping_invocations", 1)
	}
	if sharedSubscription {
		res.Count("cases_shared_subscriber_and_topic", 1)
	}
	if mw {
		res.Count("cases_with_handler_middleware", 1)
	}
	if emptyName {
		res.Count("cases_with_empty_handler_name", 1)
		if mw && len(c.hs) > 1 {
			for _, h := range c.hs {
				if h.nameKind == nkEmpty && len(h.mws) > 0 {
					res.Count("cases_empty_name_with_handler_middleware_and_other_handlers", 1)
				}
			}
		}
	}
	var trace []string
	for i, r := range c.invs {
		if i >= 12 {
			break
		}
		eid := r.eid
		if k := strings.Index(eid, "/"); k >= 0 {
			eid = eid[k:]
		}
		trace = append(trace, fmt.Sprintf("%s->h%d", eid, r.h))
	}
	var pubs []string
	for pi, pe := range c.pubs {
		for _, pc := range pe.p.Calls() {
			if len(pubs) < 12 {
				pubs = append(pubs, fmt.Sprintf("p%d(%s)%v", pi, tn(pc.Topic), uuids(pc.Snaps)))
			}
		}
	}
	sshapes := shapes
	if len(sshapes) > 10 {
		sshapes = append(append([]string{}, shapes[:10]...), fmt.Sprintf("... %d more", len(shapes)-10))
	}
	var layerNames []string
	for _, l := range c.layers {
		layerNames = append(layerNames, l.String())
	}
	res.Sample = map[string]any{"handlers": hsample, "layers": layerNames, "registration": regProg, "drive": drive, "emission_shapes": sshapes, "invocations": trace, "publishes": pubs, "max_overlap": c.maxAct.Load(),
		"odd_output_values": c.odd, "long_lived_outputs": c.useStatic, "long_lived_shared_by_all_handlers": c.staticShared}
	if c.startup {
		res.Sample.(map[string]any)["bring_up"] = bringUp
	}
	if wd := c.wrapDesc(); wd != "" {
		res.Sample.(map[string]any)["wrapping_decorators"] = wd
	}
	if res.Failed() && res.Witness == nil {
		res.Witness = map[string]any{"handlers": hsample, "layers": layerNames, "registration": regProg, "invocations": trace, "publishes": pubs, "wrapping_decorators": c.wrapDesc()}
	}
	return res
}
