// Package c08 is the runtime-monitoring check of property C08:
//
//	Router routes per handler: right function, right topic, unmodified outputs.
//
// Every case builds one real message.Router with 1..6 handlers over scripted subscribers and
// publishers (vlib.Sub / vlib.Pub, shared or private, Stringer or not), injects interleaved message
// streams into the individual subscriptions and judges, from what was recorded at the boundary
// (handler functions, an outermost recording middleware, the arguments of every Publish call):
// which function ran for which emission, what was published where, and what the five context
// accessors reported inside the handler and on the produced messages at Publish time.
package c08

import (
	"context"
	"fmt"
	"runtime"
	"sort"
	"strings"
	"sync"
	"sync/atomic"
	"time"

	"github.com/ThreeDotsLabs/watermill"
	"github.com/ThreeDotsLabs/watermill/message"

	"verifharness/vlib"
)

func init() {
	vlib.Register(&vlib.Prop{
		ID:    "C08",
		Level: "exploration",
		Cases: func(tier string) int { return vlib.TierN(tier, 1000, 320000) },
		Run:   run,
		Rule: "one random Router per case: 1..6 handlers, subscribe/publish topics from a pool of 3 (sharing allowed, occasionally the empty topic), " +
			"1..n scripted subscribers and publishers shared or private (Stringer *vlib.Sub/*vlib.Pub, or non-Stringer pointer/value wrappers to exercise the %T naming rule), " +
			"handlers with a publisher / AddNoPublisherHandler / AddHandler with a nil publisher, optional handler-level output-adding middleware, handler names that are prefixes of each other, " +
			"handlers registered before Run or added later through RunHandlers; one message stream per subscription (0..4 emissions, optional failing first attempt + redelivery), " +
			"streams driven concurrently (pipelined or settle-before-next) or by one sequential interleaving; output shapes 0..n: fresh objects, the consumed message, one object twice, middleware-appended objects; " +
			"schedule perturbation at watermill's verifhook points. A case is non-trivial when at least one Publish call or one no-publisher Nack was judged; " +
			"distinct = distinct (wiring shape, output-shape multiset, drive mode, max handler overlap) signatures.",
		Assumptions: []string{
			"publishers always succeed and handlers that fail return no messages (publish errors / outputs together with an error are outside the statement)",
			"emitted messages carry a fresh context derived from the subscription context, as a broker would deliver them (no pre-existing router context keys)",
			"the publisher name reported in the context is not judged for handlers without a publisher (the statement defines no publisher type name for them)",
			"outputs of one invocation may reach the publisher in one or several Publish calls as long as their concatenation is the returned sequence (the statement does not fix the batching; the split is counted in split_publish)",
			"Ack after a successful Publish is not judged here (only the Nack of the no-publisher clause); an unsettled message that was handled correctly makes the case inconclusive",
		},
	})
}

// ---------------------------------------------------------------------------------------------
// non-Stringer wrappers: the Router must name them with %T minus the pointer marker.

type plainSub struct{ s *vlib.Sub }

func (p *plainSub) Subscribe(ctx context.Context, topic string) (<-chan *message.Message, error) {
	return p.s.Subscribe(ctx, topic)
}
func (p *plainSub) Close() error { return p.s.Close() }

type plainSubV struct{ s *vlib.Sub }

func (p plainSubV) Subscribe(ctx context.Context, topic string) (<-chan *message.Message, error) {
	return p.s.Subscribe(ctx, topic)
}
func (p plainSubV) Close() error { return p.s.Close() }

type plainPub struct{ p *vlib.Pub }

func (p *plainPub) Publish(topic string, msgs ...*message.Message) error {
	return p.p.Publish(topic, msgs...)
}
func (p *plainPub) Close() error { return p.p.Close() }

type plainPubV struct{ p *vlib.Pub }

func (p plainPubV) Publish(topic string, msgs ...*message.Message) error {
	return p.p.Publish(topic, msgs...)
}
func (p plainPubV) Close() error { return p.p.Close() }

// ---------------------------------------------------------------------------------------------
// configuration

const (
	pubReal  = 0 // AddHandler with a scripted publisher
	pubNoPub = 1 // AddNoPublisherHandler
	pubNil   = 2 // AddHandler with a nil publisher
)

var pubKindNames = []string{"pub", "nopub", "nilpub"}

type subEnd struct {
	s     *vlib.Sub
	iface message.Subscriber
	kind  int    // 0 Stringer, 1 pointer wrapper, 2 value wrapper
	name  string // what SubscriberNameFromCtx must report (written down literally, not computed through watermill)
}

type pubEnd struct {
	p     *vlib.Pub
	iface message.Publisher
	kind  int
	name  string
}

type hcfg struct {
	idx      int
	name     string
	sub      int
	subTopic string
	pubKind  int
	pub      int
	pubTopic string
	mw       bool
	late     bool
}

// expected context: name, subscribe topic, publish topic, subscriber name, publisher name ("*" = not judged)
func (c *caseState) wantCtx(h *hcfg) [5]string {
	w := [5]string{h.name, h.subTopic, h.pubTopic, c.subs[h.sub].name, "*"}
	if h.pubKind == pubReal {
		w[4] = c.pubs[h.pub].name
	}
	return w
}

var ctxFields = [5]string{"HandlerNameFromCtx", "SubscribeTopicFromCtx", "PublishTopicFromCtx", "SubscriberNameFromCtx", "PublisherNameFromCtx"}

func readCtx(ctx context.Context) [5]string {
	return [5]string{
		message.HandlerNameFromCtx(ctx),
		message.SubscribeTopicFromCtx(ctx),
		message.PublishTopicFromCtx(ctx),
		message.SubscriberNameFromCtx(ctx),
		message.PublisherNameFromCtx(ctx),
	}
}

func ctxDiff(got, want [5]string) string {
	for i := range got {
		if want[i] != "*" && got[i] != want[i] {
			return fmt.Sprintf("%s = %q, want %q", ctxFields[i], got[i], want[i])
		}
	}
	return ""
}

// ---------------------------------------------------------------------------------------------
// emission plans

type freshSpec struct {
	payload []byte
	meta    [][2]string
}

// emPlan is what happens to one emitted message, whichever handler of its subscription's group gets it.
type emPlan struct {
	stream    int
	j         int
	uuid      string
	payload   []byte
	meta      [][2]string
	fnOuts    []string // tokens: "C" consumed message, "F<k>" fresh object k (same k = same object)
	mwOuts    []string // appended by the handler's output-adding middleware: "C", "D" (first inner output again), "W<k>"
	fresh     map[string]freshSpec
	failFirst bool // attempt 1 returns an error (and no messages); the harness redelivers once
	wait      bool // the stream waits for the settlement before its next emission
	stale     bool // emit with a context that already carries ANOTHER handler's router values (a message forwarded in-process from another hop)
	yields    int
	shape     string
}

type emission struct {
	eid     string
	plan    *emPlan
	attempt int
	sp      int // subscription index
	msg     *message.Message
	snap    vlib.MsgSnap
	sent    bool
}

type invRec struct {
	eid  string
	h    int
	ctx  [5]string
	snap vlib.MsgSnap
	ptr  *message.Message
}

type chainRec struct {
	eid   string
	outs  []*message.Message
	snaps []vlib.MsgSnap
	err   bool
}

type mwRec struct {
	eid   string
	owner int
}

type spInfo struct {
	sub   int
	sp    *vlib.Subscription
	owner int // handler index when known exactly (late handler or the only handler on (sub, topic)), else -1
}

type caseState struct {
	e    *vlib.Env
	subs []*subEnd
	pubs []*pubEnd
	hs   []*hcfg

	plans map[string]*emPlan // by eid (both attempts)

	mu       sync.Mutex
	emitted  []*emission
	invs     []invRec
	chains   []chainRec
	mws      []mwRec
	unknown  []string
	active   atomic.Int32
	maxAct   atomic.Int32
	streams  [][]*emPlan
	spis     []spInfo
	driveSeq bool
	ctxOf    map[int]context.Context // handler index -> a message context seen inside that handler
	staleN   atomic.Int32
}

func eidOf(m *message.Message) string { return m.Metadata.Get("vemit") }

func eidFor(p *emPlan, id string, attempt int) string {
	return fmt.Sprintf("%s/e%d.%d#%d", id, p.stream, p.j, attempt)
}

func (c *caseState) planFor(eid string) (*emPlan, int) {
	p := c.plans[eid]
	if p == nil {
		return nil, 0
	}
	att := 1
	if strings.HasSuffix(eid, "#2") {
		att = 2
	}
	return p, att
}

func mkFresh(eid, tok string, fs freshSpec) *message.Message {
	m := message.NewMessage(eid+"/"+tok, fs.payload)
	for _, kv := range fs.meta {
		m.Metadata.Set(kv[0], kv[1])
	}
	m.Metadata.Set("vout", eid)
	return m
}

// handlerFunc of handler h (HandlerFunc flavour).
func (c *caseState) handlerFunc(h int) message.HandlerFunc {
	return func(msg *message.Message) ([]*message.Message, error) {
		outs, err := c.invoke(h, msg, true)
		return outs, err
	}
}

// noPubFunc of handler h (NoPublishHandlerFunc flavour: cannot return messages).
func (c *caseState) noPubFunc(h int) message.NoPublishHandlerFunc {
	return func(msg *message.Message) error {
		_, err := c.invoke(h, msg, false)
		return err
	}
}

func (c *caseState) invoke(h int, msg *message.Message, canReturn bool) ([]*message.Message, error) {
	n := c.active.Add(1)
	for {
		m := c.maxAct.Load()
		if n <= m || c.maxAct.CompareAndSwap(m, n) {
			break
		}
	}
	defer c.active.Add(-1)
	eid := eidOf(msg)
	rec := invRec{eid: eid, h: h, ctx: readCtx(msg.Context()), snap: vlib.Snap(msg), ptr: msg}
	c.mu.Lock()
	c.invs = append(c.invs, rec)
	if c.ctxOf == nil {
		c.ctxOf = map[int]context.Context{}
	}
	c.ctxOf[h] = msg.Context()
	c.mu.Unlock()
	p, att := c.planFor(eid)
	if p == nil {
		c.mu.Lock()
		c.unknown = append(c.unknown, fmt.Sprintf("handler %d got a message with uuid %q and no known emission id", h, msg.UUID))
		c.mu.Unlock()
		return nil, nil
	}
	for i := 0; i < p.yields; i++ {
		runtime.Gosched()
	}
	if p.failFirst && att == 1 {
		return nil, fmt.Errorf("planned failure of %s", eid)
	}
	if !canReturn {
		return nil, nil
	}
	var outs []*message.Message
	objs := map[string]*message.Message{}
	for _, tok := range p.fnOuts {
		if tok == "C" {
			outs = append(outs, msg)
			continue
		}
		o := objs[tok]
		if o == nil {
			o = mkFresh(eid, tok, p.fresh[tok])
			objs[tok] = o
		}
		outs = append(outs, o)
	}
	return outs, nil
}

// outMW is the output-adding middleware registered on handler `owner` only.
func (c *caseState) outMW(owner int) message.HandlerMiddleware {
	return func(next message.HandlerFunc) message.HandlerFunc {
		return func(msg *message.Message) ([]*message.Message, error) {
			eid := eidOf(msg)
			c.mu.Lock()
			c.mws = append(c.mws, mwRec{eid: eid, owner: owner})
			c.mu.Unlock()
			outs, err := next(msg)
			if err != nil {
				return outs, err
			}
			p, _ := c.planFor(eid)
			if p == nil {
				return outs, err
			}
			objs := map[string]*message.Message{}
			res := append([]*message.Message(nil), outs...)
			for _, tok := range p.mwOuts {
				switch {
				case tok == "C":
					res = append(res, msg)
				case tok == "D":
					if len(outs) > 0 {
						res = append(res, outs[0])
					}
				default:
					o := objs[tok]
					if o == nil {
						o = mkFresh(eid, tok, p.fresh[tok])
						objs[tok] = o
					}
					res = append(res, o)
				}
			}
			return res, nil
		}
	}
}

// recorder is the outermost (first added, router-level) middleware: it sees exactly what the
// handler's chain hands back to the Router.
func (c *caseState) recorder(next message.HandlerFunc) message.HandlerFunc {
	return func(msg *message.Message) ([]*message.Message, error) {
		eid := eidOf(msg)
		outs, err := next(msg)
		r := chainRec{eid: eid, outs: append([]*message.Message(nil), outs...), err: err != nil}
		for _, o := range outs {
			r.snaps = append(r.snaps, vlib.Snap(o))
		}
		c.mu.Lock()
		c.chains = append(c.chains, r)
		c.mu.Unlock()
		return outs, err
	}
}

// ---------------------------------------------------------------------------------------------
// generation

func randMeta(r *vlib.Rand) [][2]string {
	var m [][2]string
	for i, n := 0, r.Intn(3); i < n; i++ {
		m = append(m, [2]string{"k:" + r.UTF8(4), r.UTF8(6)})
	}
	return m
}

func genOuts(r *vlib.Rand) (fn []string, shape string) {
	switch r.Intn(10) {
	case 0, 1:
		return nil, "none"
	case 2:
		return []string{"F0"}, "fresh1"
	case 3:
		n := r.Range(2, 4)
		for i := 0; i < n; i++ {
			fn = append(fn, fmt.Sprintf("F%d", i))
		}
		return fn, fmt.Sprintf("fresh%d", n)
	case 4:
		return []string{"C"}, "consumed"
	case 5:
		return []string{"F0", "F0"}, "twice"
	case 6:
		return []string{"C", "C"}, "consumed-twice"
	case 7:
		return []string{"F0", "C", "F1"}, "mix-fCf"
	case 8:
		return []string{"F0", "F1", "F0", "F2"}, "mix-repeat"
	default:
		return []string{"C", "F0", "F1", "F2", "F3"}, "consumed+fresh4"
	}
}

func genMwOuts(r *vlib.Rand) ([]string, string) {
	switch r.Intn(6) {
	case 0:
		return nil, "mw-none"
	case 1:
		return []string{"W0"}, "mw-fresh1"
	case 2:
		return []string{"W0", "W1"}, "mw-fresh2"
	case 3:
		return []string{"C"}, "mw-consumed"
	case 4:
		return []string{"D", "W0"}, "mw-dup+fresh"
	default:
		return []string{"W0", "W0"}, "mw-twice"
	}
}

func (c *caseState) generate() {
	e, r := c.e, c.e.R
	id := e.ID()
	nH := r.Range(1, 6)
	if r.Chance(0.15) {
		nH = 1
	}
	topics := []string{id + "/t0", id + "/t1", id + "/t2"}
	if r.Chance(0.1) {
		topics[r.Intn(3)] = ""
	}
	nS := r.Range(1, nH)
	nP := r.Range(1, nH)
	for i := 0; i < nS; i++ {
		s := &vlib.Sub{Name: fmt.Sprintf("%s/s%d", id, i)}
		se := &subEnd{s: s}
		switch k := r.Intn(5); {
		case k == 0:
			se.kind, se.iface, se.name = 1, &plainSub{s: s}, "c08.plainSub"
		case k == 1:
			se.kind, se.iface, se.name = 2, plainSubV{s: s}, "c08.plainSubV"
		default:
			se.kind, se.iface, se.name = 0, s, "vsub:"+s.Name
		}
		c.subs = append(c.subs, se)
	}
	for i := 0; i < nP; i++ {
		p := &vlib.Pub{Name: fmt.Sprintf("%s/p%d", id, i)}
		pe := &pubEnd{p: p}
		switch k := r.Intn(5); {
		case k == 0:
			pe.kind, pe.iface, pe.name = 1, &plainPub{p: p}, "c08.plainPub"
		case k == 1:
			pe.kind, pe.iface, pe.name = 2, plainPubV{p: p}, "c08.plainPubV"
		default:
			pe.kind, pe.iface, pe.name = 0, p, "vpub:"+p.Name
		}
		c.pubs = append(c.pubs, pe)
	}
	shareBias := r.Chance(0.4) // push towards handlers sharing subscriber AND topic
	lateFrom := nH
	if nH > 1 && r.Chance(0.3) {
		lateFrom = r.Range(1, nH-1)
	}
	for i := 0; i < nH; i++ {
		// names are prefixes of each other: h, ha, haa, ...
		h := &hcfg{idx: i, name: id + "/h" + strings.Repeat("a", i)}
		h.sub = r.Intn(nS)
		h.subTopic = topics[r.Intn(3)]
		if shareBias && i > 0 && r.Chance(0.6) {
			o := c.hs[r.Intn(i)]
			h.sub, h.subTopic = o.sub, o.subTopic
		}
		switch k := r.Intn(8); {
		case k == 0:
			h.pubKind = pubNoPub
			h.pubTopic = ""
		case k == 1:
			h.pubKind = pubNil
			if r.Bool() {
				h.pubTopic = topics[r.Intn(3)]
			}
		default:
			h.pubKind = pubReal
			h.pub = r.Intn(nP)
			h.pubTopic = topics[r.Intn(3)]
		}
		switch h.pubKind {
		case pubReal:
			h.mw = r.Chance(0.3)
		default:
			h.mw = r.Chance(0.6)
		}
		h.late = i >= lateFrom
		c.hs = append(c.hs, h)
	}
	// one stream per handler index (assigned to subscriptions later)
	c.plans = map[string]*emPlan{}
	total := 0
	for i := 0; i < nH; i++ {
		n := r.Intn(5)
		if i == nH-1 && total == 0 && n == 0 {
			n = r.Range(1, 4)
		}
		total += n
		var st []*emPlan
		for j := 0; j < n; j++ {
			p := &emPlan{stream: i, j: j, uuid: fmt.Sprintf("%s/m%d.%d", id, i, j), payload: r.Payload(16), meta: randMeta(r), fresh: map[string]freshSpec{}}
			p.stale = r.Chance(0.3)
			var s1, s2 string
			p.fnOuts, s1 = genOuts(r)
			p.mwOuts, s2 = genMwOuts(r)
			p.shape = s1 + "/" + s2
			for _, tok := range append(append([]string{}, p.fnOuts...), p.mwOuts...) {
				if tok != "C" && tok != "D" {
					if _, ok := p.fresh[tok]; !ok {
						p.fresh[tok] = freshSpec{payload: r.Payload(12), meta: randMeta(r)}
					}
				}
			}
			p.failFirst = r.Chance(0.12)
			p.wait = r.Chance(0.4)
			p.yields = r.Intn(4)
			st = append(st, p)
			c.plans[eidFor(p, id, 1)] = p
			c.plans[eidFor(p, id, 2)] = p
		}
		c.streams = append(c.streams, st)
	}
	c.driveSeq = r.Chance(0.25)
}

// ---------------------------------------------------------------------------------------------
// the case

func (c *caseState) register(r *message.Router, h *hcfg) {
	var hh *message.Handler
	switch h.pubKind {
	case pubReal:
		hh = r.AddHandler(h.name, h.subTopic, c.subs[h.sub].iface, h.pubTopic, c.pubs[h.pub].iface, c.handlerFunc(h.idx))
	case pubNoPub:
		hh = r.AddNoPublisherHandler(h.name, h.subTopic, c.subs[h.sub].iface, c.noPubFunc(h.idx))
	default:
		hh = r.AddHandler(h.name, h.subTopic, c.subs[h.sub].iface, h.pubTopic, nil, c.handlerFunc(h.idx))
	}
	if h.mw {
		hh.AddMiddleware(c.outMW(h.idx))
	}
}

func (c *caseState) emit(spi int, p *emPlan, attempt int) *emission {
	sp := c.spis[spi].sp
	eid := eidFor(p, c.e.ID(), attempt)
	m := message.NewMessage(p.uuid, p.payload)
	for _, kv := range p.meta {
		m.Metadata.Set(kv[0], kv[1])
	}
	m.Metadata.Set("vemit", eid)
	m.SetContext(sp.Ctx)
	if p.stale {
		// A message handed over in-process from another handler hop still carries that hop's router values; the
		// router must replace them. Only used where every handler of the target group sets all five values
		// (watermill leaves a value untouched when the handler's own value is empty).
		c.mu.Lock()
		allSet := true
		sameGroup := map[int]bool{}
		for _, h := range c.hs {
			if h.sub == c.spis[spi].sub && h.subTopic == sp.Topic {
				sameGroup[h.idx] = true
				if h.pubKind != pubReal || h.pubTopic == "" || h.subTopic == "" {
					allSet = false
				}
			}
		}
		if allSet {
			for k, cx := range c.ctxOf {
				if !sameGroup[k] {
					m.SetContext(cx)
					c.staleN.Add(1)
					break
				}
			}
		}
		c.mu.Unlock()
	}
	em := &emission{eid: eid, plan: p, attempt: attempt, sp: spi, msg: m, snap: vlib.Snap(m)}
	c.mu.Lock()
	c.emitted = append(c.emitted, em)
	c.mu.Unlock()
	ok := sp.Send(m)
	c.mu.Lock()
	em.sent = ok
	c.mu.Unlock()
	return em
}

func waitSettle(m *message.Message, sp *vlib.Subscription) {
	select {
	case <-m.Acked():
	case <-m.Nacked():
	case <-sp.Ended():
	}
}

// emitOne emits p (and its planned redelivery) on subscription spi; it returns the emissions whose
// settlement has not been awaited yet.
func (c *caseState) emitOne(spi int, p *emPlan, forceWait bool) []*emission {
	sp := c.spis[spi].sp
	em := c.emit(spi, p, 1)
	if !em.sent {
		return nil
	}
	if !(p.wait || p.failFirst || forceWait) {
		return []*emission{em}
	}
	waitSettle(em.msg, sp)
	if p.failFirst && vlib.Settled(em.msg) == "nack" {
		em2 := c.emit(spi, p, 2)
		if em2.sent {
			if p.wait || forceWait {
				waitSettle(em2.msg, sp)
			} else {
				return []*emission{em2}
			}
		}
	}
	return nil
}

func run(e *vlib.Env) vlib.Result {
	res := vlib.Result{}
	c := &caseState{e: e}
	c.generate()

	ctl := vlib.NewCtl(e.R.Uint64(), 0.15, 40)
	defer ctl.Uninstall()

	for _, pe := range c.pubs {
		pe.p.OnPublish = func(pc *vlib.PubCall) {
			for i, m := range pc.Msgs {
				v := readCtx(m.Context())
				for k := range v {
					pc.Sampled[fmt.Sprintf("%d.%d", i, k)] = v[k]
				}
			}
		}
	}

	router, err := message.NewRouter(message.RouterConfig{CloseTimeout: time.Hour}, watermill.NopLogger{})
	if err != nil {
		res.Inconclusive("NewRouter: %v", err)
		return res
	}
	router.AddMiddleware(c.recorder)
	for _, h := range c.hs {
		if !h.late {
			c.register(router, h)
		}
	}
	ctx, cancel := context.WithCancel(context.Background())
	defer cancel()
	runDone := make(chan struct{})
	var runErr error
	go func() { runErr = router.Run(ctx); close(runDone) }()

	closed := false
	shutdown := func() (vlib.Outcome, string) {
		if closed {
			return vlib.Done, ""
		}
		closed = true
		closeDone := make(chan struct{})
		go func() { router.Close(); close(closeDone) }()
		oc, d := vlib.WaitClosed(closeDone, vlib.WD)
		if oc == vlib.Done {
			oc, d = vlib.WaitClosed(runDone, vlib.WD)
		}
		cancel()
		for _, se := range c.subs {
			se.s.Close()
		}
		return oc, d
	}

	if oc, d := vlib.WaitUntil(func() bool { return vlib.IsClosed(router.Running()) || vlib.IsClosed(runDone) }, vlib.WD); oc != vlib.Done || vlib.IsClosed(runDone) {
		var re error
		if vlib.IsClosed(runDone) {
			re = runErr
		}
		shutdown()
		res.Inconclusive("router did not start (%v, run error %v)", oc, re)
		res.Witness = d
		return res
	}

	// subscriptions of the early handlers
	groupSize := map[string]int{}
	for _, h := range c.hs {
		groupSize[fmt.Sprintf("%d|%s", h.sub, h.subTopic)]++
	}
	seen := make([]int, len(c.subs)) // subscriptions already enumerated per subscriber
	collect := func(owner int) {
		for si, se := range c.subs {
			all := se.s.Subs()
			for _, sp := range all[seen[si]:] {
				o := owner
				if o < 0 && groupSize[fmt.Sprintf("%d|%s", si, sp.Topic)] == 1 {
					for _, h := range c.hs {
						if h.sub == si && h.subTopic == sp.Topic {
							o = h.idx
						}
					}
				}
				c.spis = append(c.spis, spInfo{sub: si, sp: sp, owner: o})
			}
			seen[si] = len(all)
		}
	}
	collect(-1)
	// late handlers, one RunHandlers call each: the subscription created by the call is that handler's
	for _, h := range c.hs {
		if !h.late {
			continue
		}
		c.register(router, h)
		before := len(c.spis)
		if err := router.RunHandlers(ctx); err != nil {
			shutdown()
			res.Inconclusive("RunHandlers: %v", err)
			return res
		}
		collect(h.idx)
		if len(c.spis) != before+1 {
			shutdown()
			res.Fail("subscribe-topic", "RunHandlers for late handler %d (%s on sub %d topic %q) created %d subscriptions, want exactly 1", h.idx, h.name, h.sub, h.subTopic, len(c.spis)-before)
			return c.finish(res, ctl)
		}
	}

	// clause subscribe-topic: one subscription per handler, on that handler's subscriber and subscribe topic
	{
		want := map[string]int{}
		got := map[string]int{}
		for _, h := range c.hs {
			want[fmt.Sprintf("sub%d|%q", h.sub, h.subTopic)]++
		}
		for _, s := range c.spis {
			got[fmt.Sprintf("sub%d|%q", s.sub, s.sp.Topic)]++
		}
		if fmt.Sprint(want) != fmt.Sprint(got) {
			shutdown()
			res.Fail("subscribe-topic", "subscriptions made by the Router %v differ from the handlers' (subscriber, subscribe topic) pairs %v", got, want)
			return c.finish(res, ctl)
		}
	}

	// assign the streams: the subscriptions of a (subscriber, topic) group get the streams of the group's handlers
	spStream := make([]int, len(c.spis))
	{
		used := map[int]bool{}
		for i, s := range c.spis {
			spStream[i] = -1
			if s.owner >= 0 {
				spStream[i] = s.owner
				used[s.owner] = true
			}
		}
		for i, s := range c.spis {
			if spStream[i] >= 0 {
				continue
			}
			for _, h := range c.hs {
				if !used[h.idx] && h.sub == s.sub && h.subTopic == s.sp.Topic {
					spStream[i] = h.idx
					used[h.idx] = true
					break
				}
			}
		}
	}

	// drive
	streamsDone := make(chan struct{})
	if c.driveSeq {
		// one global interleaving, every emission settled before the next
		var order []int
		for i := range c.spis {
			for range c.streams[spStream[i]] {
				order = append(order, i)
			}
		}
		perm := e.R.Perm(len(order))
		shuffled := make([]int, len(order))
		for i, p := range perm {
			shuffled[i] = order[p]
		}
		go func() {
			defer close(streamsDone)
			next := make([]int, len(c.spis))
			for _, spi := range shuffled {
				p := c.streams[spStream[spi]][next[spi]]
				next[spi]++
				c.emitOne(spi, p, true)
			}
		}()
	} else {
		var wg sync.WaitGroup
		for i := range c.spis {
			st := c.streams[spStream[i]]
			if len(st) == 0 {
				continue
			}
			wg.Add(1)
			go func(spi int, st []*emPlan) {
				defer wg.Done()
				var pending []*emission
				for _, p := range st {
					pending = append(pending, c.emitOne(spi, p, false)...)
				}
				for _, em := range pending {
					waitSettle(em.msg, c.spis[spi].sp)
					if em.attempt == 1 && em.plan.failFirst && vlib.Settled(em.msg) == "nack" {
						em2 := c.emit(spi, em.plan, 2)
						if em2.sent {
							waitSettle(em2.msg, c.spis[spi].sp)
						}
					}
				}
			}(i, st)
		}
		go func() { wg.Wait(); close(streamsDone) }()
	}
	driveOc, driveDump := vlib.WaitClosed(streamsDone, vlib.WD)
	closeOc, closeDump := shutdown()
	// after the shutdown every subscription has ended, so the stream goroutines finish
	if oc, _ := vlib.WaitClosed(streamsDone, vlib.WD); oc != vlib.Done {
		res.Inconclusive("stream drivers did not finish after the Router was closed")
		return c.finish(res, ctl)
	}

	c.judge(&res, spStream)

	if !res.Failed() {
		switch {
		case driveOc == vlib.Stuck:
			res.Inconclusive("streams did not complete (process quiescent) although every judged clause held")
			res.Witness = driveDump
		case driveOc == vlib.Inconclusive:
			res.Inconclusive("streams did not complete before the watchdog")
		case closeOc != vlib.Done:
			res.Inconclusive("Router.Close/Run did not return (%v)", closeOc)
			res.Witness = closeDump
		}
	}
	return c.finish(res, ctl)
}

// ---------------------------------------------------------------------------------------------
// oracle

func (c *caseState) judge(res *vlib.Result, spStream []int) {
	c.mu.Lock()
	defer c.mu.Unlock()

	for _, u := range c.unknown {
		res.Fail("unknown-message", "%s", u)
	}
	invBy := map[string][]invRec{}
	for _, r := range c.invs {
		invBy[r.eid] = append(invBy[r.eid], r)
	}
	chainBy := map[string][]chainRec{}
	for _, r := range c.chains {
		chainBy[r.eid] = append(chainBy[r.eid], r)
	}
	mwBy := map[string][]mwRec{}
	for _, r := range c.mws {
		mwBy[r.eid] = append(mwBy[r.eid], r)
	}
	emBy := map[string]*emission{}
	for _, em := range c.emitted {
		emBy[em.eid] = em
	}

	// attribute every Publish call of every publisher to the emission whose invocation produced its messages
	type attributed struct {
		pub  int
		call *vlib.PubCall
	}
	callsBy := map[string][]attributed{}
	nCalls, nMsgs := 0, 0
	for pi, pe := range c.pubs {
		for _, pc := range pe.p.Calls() {
			nCalls++
			nMsgs += len(pc.Msgs)
			res.Events++
			owner := ""
			for i, s := range pc.Snaps {
				o := s.Metadata["vout"]
				if o == "" {
					o = s.Metadata["vemit"]
				}
				if i == 0 {
					owner = o
				} else if o != owner {
					res.Fail("publish-args", "Publish #%d on publisher %d (topic %q) mixes messages of different invocations: %q and %q", pc.No, pi, pc.Topic, owner, o)
				}
			}
			if len(pc.Msgs) == 0 {
				res.Fail("spurious-publish", "Publish #%d on publisher %d (topic %q) was called with no messages", pc.No, pi, pc.Topic)
				continue
			}
			if _, ok := emBy[owner]; !ok || len(invBy[owner]) == 0 {
				res.Fail("spurious-publish", "Publish #%d on publisher %d (topic %q) carries %d message(s) (first uuid %q) that no handler invocation of this case returned", pc.No, pi, pc.Topic, len(pc.Msgs), pc.Snaps[0].UUID)
				continue
			}
			callsBy[owner] = append(callsBy[owner], attributed{pi, pc})
		}
	}
	res.Count("emissions_with_another_hops_context", int(c.staleN.Load()))
	res.Count("publish_calls", nCalls)
	res.Count("published_msgs", nMsgs)

	spOwner := map[int]int{}
	ownerSp := map[int]int{}
	judgedPub, judgedNack := 0, 0
	for _, em := range c.emitted {
		if !em.sent {
			res.Inconclusive("emission %s was not taken by the Router (subscription ended early)", em.eid)
			continue
		}
		res.Count("emissions", 1)
		if em.attempt == 2 {
			res.Count("redeliveries", 1)
		}
		si := c.spis[em.sp]
		invs := invBy[em.eid]
		res.Events++
		// clause invocation-count: exactly one handler-function invocation per emission
		if len(invs) != 1 {
			var who []int
			for _, r := range invs {
				who = append(who, r.h)
			}
			res.Fail("invocation-count", "emission %s (uuid %q on subscriber %d topic %q) caused %d handler-function invocations %v, want exactly 1", em.eid, em.snap.UUID, si.sub, si.sp.Topic, len(invs), who)
			continue
		}
		inv := invs[0]
		h := c.hs[inv.h]
		res.Count("invocations", 1)
		// clause wrong-handler: the function is one registered with that (subscriber, subscribe topic)
		if h.sub != si.sub || h.subTopic != si.sp.Topic {
			res.Fail("wrong-handler", "emission %s arrived on subscriber %d topic %q but the function of handler %d (%s: subscriber %d topic %q) was invoked", em.eid, si.sub, si.sp.Topic, h.idx, h.name, h.sub, h.subTopic)
			continue
		}
		if si.owner >= 0 && si.owner != h.idx {
			res.Fail("wrong-handler", "emission %s arrived on the subscription of handler %d but the function of handler %d was invoked", em.eid, si.owner, h.idx)
			continue
		}
		// clause mapping: subscription -> handler learned from the first message is fixed and injective
		if prev, ok := spOwner[em.sp]; ok && prev != h.idx {
			res.Fail("mapping-unstable", "subscription %d (subscriber %d topic %q) fed handler %d first and handler %d for emission %s", em.sp, si.sub, si.sp.Topic, prev, h.idx, em.eid)
			continue
		}
		if prev, ok := ownerSp[h.idx]; ok && prev != em.sp {
			res.Fail("mapping-not-injective", "handler %d received messages of two subscriptions (%d and %d) of subscriber %d topic %q", h.idx, prev, em.sp, si.sub, si.sp.Topic)
			continue
		}
		spOwner[em.sp], ownerSp[h.idx] = h.idx, em.sp
		// clause consumed-message: the function got the emitted message
		if !snapEq(inv.snap, em.snap) {
			res.Fail("consumed-message", "handler %d was passed uuid %q payload %x metadata %v for emission %s, emitted uuid %q payload %x metadata %v", h.idx, inv.snap.UUID, inv.snap.Payload, inv.snap.Metadata, em.eid, em.snap.UUID, em.snap.Payload, em.snap.Metadata)
			continue
		}
		// clause ctx-in-handler
		want := c.wantCtx(h)
		res.Count("ctx_checks", 1)
		if d := ctxDiff(inv.ctx, want); d != "" {
			res.Fail("ctx-in-handler", "inside handler %d (%s, %s) for emission %s: %s (all five: %q)", h.idx, h.name, pubKindNames[h.pubKind], em.eid, d, inv.ctx)
			continue
		}
		// clause mw-wrong-handler: a handler-level middleware runs for its own handler only
		mws := mwBy[em.eid]
		if h.mw {
			if len(mws) != 1 || mws[0].owner != h.idx {
				res.Fail("mw-wrong-handler", "emission %s handled by handler %d (%s): its handler-level middleware ran %d time(s) %v", em.eid, h.idx, h.name, len(mws), mws)
				continue
			}
		} else if len(mws) != 0 {
			res.Fail("mw-wrong-handler", "emission %s handled by handler %d (%s, no handler-level middleware) went through the middleware of handler %d (%s)", em.eid, h.idx, h.name, mws[0].owner, c.hs[mws[0].owner].name)
			continue
		}
		chs := chainBy[em.eid]
		if len(chs) != 1 {
			res.Inconclusive("recording middleware saw %d chain returns for %s", len(chs), em.eid)
			continue
		}
		ch := chs[0]
		calls := callsBy[em.eid]
		sort.Slice(calls, func(i, j int) bool { return calls[i].call.Start < calls[j].call.Start })
		settled := vlib.Settled(em.msg)
		switch {
		case ch.err || len(ch.outs) == 0:
			if len(calls) != 0 {
				res.Fail("spurious-publish", "handler %d returned no messages (error=%v) for %s but %d Publish call(s) carry its messages (first on publisher %d topic %q)", h.idx, ch.err, em.eid, len(calls), calls[0].pub, calls[0].call.Topic)
			}
		case h.pubKind != pubReal:
			// clause nopub: Nack and nothing published
			judgedNack++
			res.Count("nopub_outputs", 1)
			if len(calls) != 0 {
				res.Fail("nopub-published", "handler %d (%s, %s) returned %d message(s) for %s and %d Publish call(s) carry them (publisher %d topic %q)", h.idx, h.name, pubKindNames[h.pubKind], len(ch.outs), em.eid, len(calls), calls[0].pub, calls[0].call.Topic)
			} else if settled != "nack" {
				res.Fail("nopub-nack", "handler %d (%s, %s) returned %d message(s) for %s; the consumed message is %q, want nack", h.idx, h.name, pubKindNames[h.pubKind], len(ch.outs), em.eid, settled)
			}
		default:
			judgedPub++
			if len(calls) == 0 {
				res.Fail("publish-missing", "handler %d (%s) returned %d message(s) for %s but publisher %d saw no Publish with them (consumed message settled %q)", h.idx, h.name, len(ch.outs), em.eid, h.pub, settled)
				break
			}
			if len(calls) > 1 {
				res.Count("split_publish", 1)
			}
			var ptrs []*message.Message
			var snaps []vlib.MsgSnap
			var ctxs [][5]string
			for _, a := range calls {
				if a.pub != h.pub {
					res.Fail("publish-wrong-publisher", "outputs of handler %d (%s, publisher %d %s) for %s were published on publisher %d %s (topic %q)", h.idx, h.name, h.pub, c.pubs[h.pub].name, em.eid, a.pub, c.pubs[a.pub].name, a.call.Topic)
				}
				if a.call.Topic != h.pubTopic {
					res.Fail("publish-topic", "outputs of handler %d (%s: subscribe topic %q, publish topic %q) for %s were published to topic %q", h.idx, h.name, h.subTopic, h.pubTopic, em.eid, a.call.Topic)
				}
				for i := range a.call.Msgs {
					ptrs = append(ptrs, a.call.Msgs[i])
					snaps = append(snaps, a.call.Snaps[i])
					var v [5]string
					for k := range v {
						v[k] = a.call.Sampled[fmt.Sprintf("%d.%d", i, k)]
					}
					ctxs = append(ctxs, v)
				}
			}
			if res.Failed() {
				break
			}
			if len(ptrs) != len(ch.outs) {
				res.Fail("publish-args", "handler %d returned %d message(s) %v for %s, Publish got %d %v", h.idx, len(ch.outs), uuids(ch.snaps), em.eid, len(ptrs), uuids(snaps))
				break
			}
			for i := range ptrs {
				if ptrs[i] != ch.outs[i] {
					res.Fail("publish-args", "handler %d returned %v for %s, Publish got %v: position %d is not the returned object (order or identity changed)", h.idx, uuids(ch.snaps), em.eid, uuids(snaps), i)
					break
				}
				if !snapEq(ch.snaps[i], snaps[i]) {
					res.Fail("publish-modified", "output %d of handler %d for %s was returned as uuid %q payload %x metadata %v and published as uuid %q payload %x metadata %v", i, h.idx, em.eid, ch.snaps[i].UUID, ch.snaps[i].Payload, ch.snaps[i].Metadata, snaps[i].UUID, snaps[i].Payload, snaps[i].Metadata)
					break
				}
				res.Count("ctx_checks", 1)
				if d := ctxDiff(ctxs[i], want); d != "" {
					res.Fail("ctx-on-produced", "output %d (uuid %q) of handler %d (%s) for %s at Publish time: %s (all five: %q)", i, snaps[i].UUID, h.idx, h.name, em.eid, d, ctxs[i])
					break
				}
			}
		}
	}
	// invocations that belong to no emission of this case
	for eid, invs := range invBy {
		if _, ok := emBy[eid]; !ok {
			res.Fail("unknown-message", "handler %d was invoked with emission id %q that the harness never emitted", invs[0].h, eid)
		}
	}
	res.Count("judged_publish", judgedPub)
	res.Count("judged_nopub_nack", judgedNack)
	res.NonTrivial = judgedPub+judgedNack > 0
}

func uuids(s []vlib.MsgSnap) []string {
	out := make([]string, len(s))
	for i, x := range s {
		u := x.UUID
		if k := strings.Index(u, "/"); k >= 0 {
			u = u[k:]
		}
		out[i] = u
	}
	return out
}

func snapEq(a, b vlib.MsgSnap) bool {
	if a.UUID != b.UUID || string(a.Payload) != string(b.Payload) || len(a.Metadata) != len(b.Metadata) {
		return false
	}
	for k, v := range a.Metadata {
		if w, ok := b.Metadata[k]; !ok || w != v {
			return false
		}
	}
	return true
}

// finish fills the evidence fields.
func (c *caseState) finish(res vlib.Result, ctl *vlib.Ctl) vlib.Result {
	c.mu.Lock()
	defer c.mu.Unlock()
	sharedSubscription, sharedSub, sharedPub, nopub, late, mw := false, false, false, false, false, false
	grp := map[string]int{}
	subUse := map[int]int{}
	pubUse := map[int]int{}
	var wiring []string
	for _, h := range c.hs {
		grp[fmt.Sprintf("%d|%s", h.sub, h.subTopic)]++
		subUse[h.sub]++
		if h.pubKind == pubReal {
			pubUse[h.pub]++
		} else {
			nopub = true
		}
		late = late || h.late
		mw = mw || h.mw
	}
	for _, n := range grp {
		sharedSubscription = sharedSubscription || n > 1
	}
	for _, n := range subUse {
		sharedSub = sharedSub || n > 1
	}
	for _, n := range pubUse {
		sharedPub = sharedPub || n > 1
	}
	topicNo := map[string]int{}
	tn := func(t string) string {
		if t == "" {
			return "''"
		}
		if _, ok := topicNo[t]; !ok {
			topicNo[t] = len(topicNo)
		}
		return fmt.Sprintf("t%d", topicNo[t])
	}
	var hsample []map[string]any
	for _, h := range c.hs {
		w := fmt.Sprintf("s%d.%d:%s>%s", h.sub, c.subs[h.sub].kind, tn(h.subTopic), pubKindNames[h.pubKind])
		if h.pubKind == pubReal {
			w += fmt.Sprintf("%d.%d", h.pub, c.pubs[h.pub].kind)
		}
		w += ":" + tn(h.pubTopic)
		if h.mw {
			w += "+mw"
		}
		if h.late {
			w += "+late"
		}
		wiring = append(wiring, w)
		hsample = append(hsample, map[string]any{"name": h.name, "wiring": w, "subscriber_name": c.subs[h.sub].name})
	}
	switch {
	case len(c.hs) == 1:
		res.Class = "single"
	case sharedSubscription:
		res.Class = "shared-subscriber+topic"
	case sharedSub || sharedPub:
		res.Class = "shared-ends"
	default:
		res.Class = "private"
	}
	if nopub {
		res.Class += "/nopub"
	}
	if late {
		res.Class += "/late"
	}
	var shapes []string
	for _, em := range c.emitted {
		s := em.plan.shape
		if em.plan.failFirst {
			s += "!"
		}
		shapes = append(shapes, s)
	}
	sort.Strings(shapes)
	drive := "concurrent"
	if c.driveSeq {
		drive = "sequential"
	}
	res.Sig = vlib.Sig(strings.Join(wiring, ","), strings.Join(shapes, ","), drive, c.maxAct.Load())
	res.Hooks = ctl.Counts()
	res.Count("handlers", len(c.hs))
	res.Count("max_concurrent_invocations_sum", int(c.maxAct.Load()))
	if c.maxAct.Load() > 1 {
		res.Count("cases_with_overlapping_invocations", 1)
	}
	if sharedSubscription {
		res.Count("cases_shared_subscriber_and_topic", 1)
	}
	if mw {
		res.Count("cases_with_handler_middleware", 1)
	}
	var trace []string
	for i, r := range c.invs {
		if i >= 12 {
			break
		}
		eid := r.eid
		if k := strings.Index(eid, "/"); k >= 0 {
			eid = eid[k:]
		}
		trace = append(trace, fmt.Sprintf("%s->h%d", eid, r.h))
	}
	var pubs []string
	for pi, pe := range c.pubs {
		for _, pc := range pe.p.Calls() {
			if len(pubs) < 12 {
				pubs = append(pubs, fmt.Sprintf("p%d(%s)%v", pi, tn(pc.Topic), uuids(pc.Snaps)))
			}
		}
	}
	sshapes := shapes
	if len(sshapes) > 10 {
		sshapes = append(append([]string{}, shapes[:10]...), fmt.Sprintf("... %d more", len(shapes)-10))
	}
	res.Sample = map[string]any{"handlers": hsample, "drive": drive, "emission_shapes": sshapes, "invocations": trace, "publishes": pubs, "max_overlap": c.maxAct.Load()}
	if res.Failed() && res.Witness == nil {
		res.Witness = map[string]any{"handlers": hsample, "invocations": trace, "publishes": pubs}
	}
	return res
}
