// Package c04: GoChannel delivers every published message to every current subscriber.
package c04

import (
	"fmt"

	"github.com/ThreeDotsLabs/watermill/message"
	"github.com/ThreeDotsLabs/watermill/pubsub/gochannel"

	"verifharness/props/gcw"
	"verifharness/vlib"
)

func init() {
	vlib.Register(&vlib.Prop{
		ID:    "C04",
		Level: "exploration",
		Cases: func(tier string) int { return vlib.TierN(tier, 960, 144000) },
		Rule: "case i runs one generated concurrent program on a real GoChannel: config i%12 of {buffer 0/1/4} x {persistent} x {blocking}, 1..3 topics, 1..4 publisher goroutines " +
			"(1..12 messages each, batches of 1..3, random metadata/payload), 0..4 subscriptions per topic created before or concurrently with the publishers, consumer behaviours " +
			"{ack, nack 1..3x then ack, slow, edit metadata / re-assign payload of the received copy, cancel after k receives, cancel from another goroutine}; in 30% of the programs the publisher edits the metadata of its own message objects after each Publish call returned; yield/delay injection at the gochannel hook points. " +
			"The history (publish start/end, subscribe end, receive with deep snapshot and context facts, settle start) is judged at quiescence. " +
			"Non-trivial: at least one delivery was judged and at least two goroutines' operations existed; distinct = (config, program shape, hook-arrival fingerprint).",
		Assumptions: []string{
			"completeness is demanded only for subscriptions whose Subscribe returned before the Publish call started and that were never cancelled during the run",
			"subscribers edit metadata and re-assign Payload of received copies but never write into payload bytes (Copy shares the byte slice by design)",
			"quiescence (all goroutines blocked, no timer pending) is the point of judgement; a watchdog expiry is inconclusive",
		},
		Run: run,
	})
}

func gen(e *vlib.Env) gcw.Program {
	r := e.R
	cfgI := e.Idx % 12
	p := gcw.Program{
		Cfg: gochannel.Config{
			OutputChannelBuffer:            []int64{0, 1, 4}[cfgI%3],
			Persistent:                     (cfgI/3)%2 == 1,
			BlockPublishUntilSubscriberAck: cfgI/6 == 1,
		},
		Topics:    r.Range(1, 3),
		MetaKeys:  3,
		PayloadSz: 24,
		Closers:   1,
		YieldP:    []float64{0, 0.2, 0.5}[r.Intn(3)],
		YieldUs:   []int{0, 50, 200}[r.Intn(3)],
	}
	// Message.UUID is not an identity: a quarter of the programs use empty or equal UUIDs (see gcw.Program.UUIDs)
	p.UUIDs = []string{"", "", "empty", "same"}[vlib.HashStr(e.ID())%4]
	p.NilMetadata = vlib.HashStr(e.ID()+"/nil-metadata")%4 == 0 // messages without metadata are struct literals with a nil map
	p.MsgCtx = vlib.HashStr(e.ID()+"/msgctx")%3 == 0            // a third of the programs publish messages that carry (cancelled, soon cancelled, live) contexts
	p.EditAfterPublish = r.Chance(0.3)
	np := r.Range(1, 4)
	for i := 0; i < np; i++ {
		p.Pubs = append(p.Pubs, gcw.PubSpec{Topic: r.Intn(p.Topics), N: r.Range(1, 12), Batch: r.Range(1, 3)})
	}
	for t := 0; t < p.Topics; t++ {
		ns := r.Intn(5)
		if h := vlib.HashStr(e.ID() + "/many-subscribers"); h%6 == 0 {
			ns = 8 + int((h/6+uint64(t)*3)%7) // a sixth of the programs: 8..14 subscriptions on every topic
		}
		for i := 0; i < ns; i++ {
			s := gcw.SubSpec{Topic: t, During: r.Chance(0.3), Consumers: 1, NackPct: []int{0, 0, 25, 60}[r.Intn(4)], Slow: r.Intn(4),
				Mutate: r.Chance(0.4), NestedTo: -1, CancelAt: -1, StopAfter: -1}
			switch r.Intn(10) {
			case 0:
				s.CancelAt = r.Intn(4)
			case 1:
				s.CancelFree = true
			}
			p.Subs = append(p.Subs, s)
		}
	}
	// blocking mode, a quarter of the programs: the first-registered subscription of topic 0 withholds its Ack. Publish
	// legitimately blocks, but every other current subscription must still get the message the holder got.
	if p.Cfg.BlockPublishUntilSubscriberAck && vlib.HashStr(e.ID()+"/holder")%4 == 0 {
		for i := range p.Subs {
			if p.Subs[i].Topic == 0 && !p.Subs[i].During {
				p.Subs[i].NeverAck = true
				p.Subs[i].CancelAt, p.Subs[i].CancelFree = -1, false
				break
			}
		}
	}
	return p
}

func shape(p gcw.Program) string {
	s := fmt.Sprintf("b%d/p%v/k%v/T%d/edit%v", p.Cfg.OutputChannelBuffer, p.Cfg.Persistent, p.Cfg.BlockPublishUntilSubscriberAck, p.Topics, p.EditAfterPublish)
	for _, pb := range p.Pubs {
		s += fmt.Sprintf("|P%d:%d:%d", pb.Topic, pb.N, pb.Batch)
	}
	for _, sb := range p.Subs {
		s += fmt.Sprintf("|S%d:%v:%d:%d:%v:%d:%v", sb.Topic, sb.During, sb.NackPct, sb.Slow, sb.Mutate, sb.CancelAt, sb.CancelFree)
	}
	return s
}

func run(e *vlib.Env) vlib.Result {
	prog := gen(e)
	res := vlib.Result{Class: fmt.Sprintf("buf%d/persistent=%v/blocking=%v", prog.Cfg.OutputChannelBuffer, prog.Cfg.Persistent, prog.Cfg.BlockPublishUntilSubscriberAck)}
	ctl := vlib.NewCtl(e.R.Uint64(), prog.YieldP, prog.YieldUs)
	defer ctl.Uninstall()
	prefix := e.ID() + "/"
	ctl.Filter(func(point, a, b string) bool {
		return len(a) == 0 || (len(a) >= len(prefix) && a[:len(prefix)] == prefix)
	})
	rn := gcw.Start(e, prog)

	oc, dump := vlib.WaitClosed(rn.PubsDone(), vlib.WD)
	holder := -1
	for i, sp := range prog.Subs {
		if sp.NeverAck {
			holder = i
		}
	}
	if oc == vlib.Stuck && holder >= 0 {
		// publishers wait for the holder's Ack. Whatever the holder received was fanned out: every other subscription of
		// that topic that existed before the Publish call must have received it too, although the holder never settles.
		held := map[string]bool{}
		for _, s := range rn.SubRecs() {
			if s.ID == holder {
				for _, d := range s.Dels() {
					held[d.UUID] = true
				}
			}
		}
		checked := 0
		for _, p := range rn.PubRecs() {
			if !held[p.UUID] || p.Topic != prog.Subs[holder].Topic {
				continue
			}
			for _, s := range rn.SubRecs() {
				if s.ID == holder || s.Err != "" || s.Spec.Topic != p.Topic || s.Spec.NeverAck || s.CancelStart.Load() != 0 || s.End == 0 || !(s.End < p.Start) {
					continue
				}
				checked++
				got := false
				for _, d := range s.Dels() {
					if d.UUID == p.UUID {
						got = true
					}
				}
				if !got {
					res.Fail("lost-message", "blocking mode: %s was delivered to subscription %d, which withholds its Ack, but never to subscription %d of the same topic, which existed before the Publish call (quiescent): one slow subscriber must not keep the message from the others", p.UUID, holder, s.ID)
				}
			}
		}
		res.Count("holder_cases", 1)
		res.Count("deliveries_checked_beside_a_withheld_ack", checked)
		rn.CancelSub(holder)
		oc, dump = vlib.WaitClosed(rn.PubsDone(), vlib.WD)
	}
	if oc == vlib.Stuck {
		res.Fail("publish-stuck", "a Publish call never returned although every subscriber settles (process quiescent)")
		res.Witness = dump
	} else if oc == vlib.Inconclusive {
		res.Inconclusive("publishers did not finish before the watchdog")
	}
	if oc == vlib.Done {
		if o2, d2 := vlib.WaitClosed(rn.SubbersDone(), vlib.WD); o2 == vlib.Stuck {
			res.Fail("subscribe-stuck", "a Subscribe call never returned (process quiescent)")
			res.Witness = d2
		}
		vlib.WaitClosed(rn.CancelsDone(), vlib.WD)
		if o3, _ := vlib.Settle(vlib.WD); o3 == vlib.Inconclusive {
			res.Inconclusive("process did not become quiescent")
		}
	}
	if res.Verdict == "" {
		judge(rn, &res)
	}
	for _, p := range rn.Panics() {
		res.Fail("panic", "API call panicked: %s", p)
	}
	res.Events = int(rn.Events.Load())
	res.Hooks = ctl.Counts()
	res.Sig = vlib.Sig(shape(prog), ctl.Fingerprint())
	res.Spec = shape(prog)

	// teardown (C07 judges Close; here it only has to free the goroutines)
	cd := rn.Close(1)
	if o, _ := vlib.WaitClosed(cd, vlib.WD); o != vlib.Done {
		res.Count("teardown_close_not_returned", 1)
	} else if o, _ := vlib.WaitUntil(rn.ConsumersIdle, vlib.WD); o != vlib.Done {
		res.Count("teardown_consumers_not_finished", 1)
	}
	return res
}

func judge(rn *gcw.Run, res *vlib.Result) {
	pubs := rn.PubRecs()
	subs := rn.SubRecs()
	byUUID := map[string]*gcw.PubRec{}
	origPtr := map[*message.Message]bool{}
	for i := range pubs {
		byUUID[pubs[i].UUID] = &pubs[i]
		origPtr[pubs[i].Orig] = true
	}
	seenPtr := map[*message.Message]string{}
	totalDel, redeliveries, checkedPairs := 0, 0, 0
	var sampleTrace []string
	for _, s := range subs {
		if s.Err != "" {
			res.Fail("subscribe-error", "Subscribe on an open Pub/Sub failed: %s", s.Err)
			continue
		}
		cancelled := s.CancelStart.Load() != 0
		if s.Runaway.Load() {
			res.Fail("runaway-redelivery", "sub %d received more than %d deliveries for a program of %d messages", s.ID, gcw.RunawayCap, len(pubs))
		}
		dels := s.Dels()
		last := map[string]*gcw.Delivery{}
		for i := range dels {
			d := &dels[i]
			totalDel++
			if len(sampleTrace) < 30 {
				sampleTrace = append(sampleTrace, fmt.Sprintf("sub%d recv#%d %s@%d %s@%d", s.ID, d.No, d.UUID, d.RecvSeq, d.Action, d.SettleSeq))
			}
			p := byUUID[d.UUID]
			if p == nil || p.Topic != s.Spec.Topic {
				res.Fail("foreign-delivery", "subscription %d of topic %d received %q which was not published to its topic", s.ID, s.Spec.Topic, d.UUID)
				continue
			}
			if prev, dup := seenPtr[d.Msg]; dup {
				res.Fail("shared-copy", "the same *Message was delivered twice (%s and sub%d/%s#%d)", prev, s.ID, d.UUID, d.No)
			}
			seenPtr[d.Msg] = fmt.Sprintf("sub%d/%s#%d", s.ID, d.UUID, d.No)
			if origPtr[d.Msg] {
				res.Fail("original-delivered", "subscription %d received the publisher's own *Message for %s", s.ID, d.UUID)
			}
			if !p.OrigSnap.SameValue(snapMsg(d.Snap)) {
				res.Fail("delivery-differs", "sub %d delivery #%d of %s differs from the message as published: got %+v want %+v", s.ID, d.No, d.UUID, d.Snap, p.OrigSnap)
			}
			if d.CtxVal != s.CtxVal {
				res.Fail("context-not-derived", "sub %d delivery of %s: context value %v, want %q (from the Subscribe context)", s.ID, d.UUID, d.CtxVal, s.CtxVal)
			}
			if d.CtxErrRecv != "" && !d.CancelSeen {
				res.Fail("context-dead-on-receipt", "sub %d delivery #%d of %s: context already ended (%s) at receipt although nothing was cancelled", s.ID, d.No, d.UUID, d.CtxErrRecv)
			}
			if d.Action != "" && !d.SettleOK {
				res.Fail("settle-refused", "sub %d: %s of %s#%d returned false: the copy was settled by someone else", s.ID, d.Action, d.UUID, d.No)
			}
			if pv := last[d.UUID]; pv != nil {
				checkedPairs++
				if pv.Action != "nack" {
					res.Fail("duplicate-without-nack", "sub %d received %s again (delivery #%d at %d) although the previous delivery was %q", s.ID, d.UUID, d.No, d.RecvSeq, pv.Action)
				} else if d.RecvSeq < pv.SettleSeq {
					res.Fail("duplicate-before-nack", "sub %d received %s#%d at %d before the Nack of #%d started at %d", s.ID, d.UUID, d.No, d.RecvSeq, pv.No, pv.SettleSeq)
				} else {
					redeliveries++
				}
			}
			last[d.UUID] = d
		}
		if cancelled || s.Spec.NeverAck || s.Spec.StopAfter >= 0 {
			continue
		}
		for uuid, d := range last {
			switch d.Action {
			case "nack":
				res.Fail("no-redelivery-after-nack", "sub %d nacked %s#%d and it was never redelivered (quiescent)", s.ID, uuid, d.No)
			case "ack":
				if d.Msg.Context().Err() == nil {
					res.Fail("context-not-cancelled-after-ack", "sub %d: context of %s#%d is still live at quiescence after the Ack", s.ID, uuid, d.No)
				}
			}
		}
		for i := range pubs {
			p := &pubs[i]
			if p.Topic != s.Spec.Topic || p.Err != "" || p.Panic != "" || p.End == 0 {
				continue
			}
			if s.End < p.Start {
				d := last[p.UUID]
				if d == nil {
					res.Fail("lost-message", "%s was published successfully (call started at %d) after Subscribe of sub %d had returned (%d) but was never delivered to it (quiescent)", p.UUID, p.Start, s.ID, s.End)
				}
			}
		}
	}
	for i := range pubs {
		p := &pubs[i]
		if st := vlib.Settled(p.Orig); st != "" {
			res.Fail("original-settled", "the publisher's original %s was %sed by the Pub/Sub or a subscriber", p.UUID, st)
		}
		if !p.EditedAfter && !p.OrigSnap.SameValue(p.Orig) {
			res.Fail("original-edited", "the publisher's original %s changed: %+v -> %+v", p.UUID, p.OrigSnap, vlib.Snap(p.Orig))
		}
		if p.Err != "" {
			res.Fail("publish-error", "Publish of %s on an open Pub/Sub failed: %s", p.UUID, p.Err)
		}
	}
	res.Count("published_with_nil_metadata_map", int(rn.NilMetaPublished.Load()))
	res.Count("received_copies_with_nil_metadata_map", int(rn.NilMetaDelivered.Load()))
	res.Count("deliveries", totalDel)
	res.Count("redeliveries_after_nack", redeliveries)
	res.Count("publishes", len(pubs))
	res.Count("subscriptions", len(subs))
	res.NonTrivial = totalDel > 0 && len(pubs)+len(subs) >= 2
	res.Sample = map[string]any{"program": shape(rn.Prog), "deliveries": totalDel, "trace_head": sampleTrace}
}

func snapMsg(s vlib.MsgSnap) *message.Message {
	m := message.NewMessage(s.UUID, s.Payload)
	for k, v := range s.Metadata {
		m.Metadata[k] = v
	}
	return m
}
