// Package c12 is the runtime-monitoring check of property C12:
//
//	Retry middleware: bounded attempts, back-off, first success wins, error kept.
//
// It runs the real middleware.Retry around a scripted handler, records every handler call, every
// OnRetryHook call and the returned (messages, error) at the boundary and judges each execution
// against a small reference model (expected number of calls, expected outcome, expected hook
// numbering, arithmetic bounds of the reported delay, lower bound of the measured gap).
package c12

import (
	"context"
	"errors"
	"fmt"
	"sync"
	"sync/atomic"
	"time"

	"github.com/ThreeDotsLabs/watermill"
	"github.com/ThreeDotsLabs/watermill/message"
	"github.com/ThreeDotsLabs/watermill/message/router/middleware"

	"verifharness/vlib"
)

const (
	c12Quick    = 600   // (+120 extra +240 msgctx, see below) 300 schedule configs + 60 each: ctx give-up, MaxElapsedTime give-up, concurrent, elapsed-inside-wait, ctx with zero waits
	c12Thorough = 60000 // the same mix, x100
	// appended after the cases above (idx >= c12Quick / c12Thorough), (idx-base)%3: 0 long-lived, 1 redeliver, 2 nested
	c12QuickExtra    = 120
	c12ThoroughExtra = 1500
	c12ExtraStride   = 3
	// appended after those (idx >= c12Quick+c12QuickExtra / ...): message contexts that carry deadlines / values, (idx-base)%4:
	// 0 msgctx/elapsed, 1 msgctx/inside-wait, 2 msgctx/deadline-in-wait, 3 msgctx/schedule
	c12QuickMsgCtx    = 240
	c12ThoroughMsgCtx = 3000
	c12MsgCtxStride   = 4
	// appended after those: classes errval/* (c12QuickErrVal / c12ThoroughErrVal cases, see errval.go)
	c12Stride  = 10   // idx%10: 0..4 schedule, 5 ctx, 6 elapsed, 7 concurrent, 8 elapsed inside a wait, 9 ctx with zero waits
	c12BigMR   = 2000 // MaxRetries of the MaxElapsedTime class
	retryFrame = "Retry.Middleware"
	hour       = time.Hour
)

func init() {
	vlib.Register(&vlib.Prop{
		ID:    "C12",
		Level: "exploration",
		Cases: func(tier string) int {
			return vlib.TierN(tier, c12Quick+c12QuickExtra+c12QuickMsgCtx+c12QuickErrVal, c12Thorough+c12ThoroughExtra+c12ThoroughMsgCtx+c12ThoroughErrVal)
		},
		Rule: "The first 600 (quick) / 60000 (thorough) cases: case idx%10 in 0..4 = class schedule: one random Retry config (MaxRetries 1..8, InitialInterval 0 / ns / us / up to 3 ms, Multiplier in {1,1.5,2,3,random 1..3}, " +
			"MaxInterval = Initial .. Initial+6 ms, RandomizationFactor in {0,0.5,1,random}, MaxElapsedTime 0 or 1 h, Logger nil or Nop) wrapped ONCE and invoked with 3-4 handler scripts " +
			"(fail forever; fail^MaxRetries then succeed; fail^i then succeed for a random i < MaxRetries; sometimes i=0), every attempt returning its own output slice and its own error value. " +
			"idx%10==5 = class ctx/*: the message context ends (handler cancels it in attempt k=1 with 1 h intervals; in attempt k=2,3 with a tiny InitialInterval and a huge Multiplier so that only the wait after attempt k is >= 40 s; " +
			"the harness cancels it from outside during the 1 h wait; it is cancelled before the call; it carries a 1-5 ms deadline). idx%10==6 = class elapsed: MaxElapsedTime 5..20 ms, MaxRetries 2000, interval 1..2 ms, handler taking >=100 us and failing forever. " +
			"idx%10==7 = class concurrent: ONE wrapped handler retries a permanently failing message (MaxRetries 3..4, Initial 8..12 ms, Multiplier 2, RF 0) while another goroutine keeps passing fresh, immediately succeeding messages through the same wrapped handler every few ms: the failing message's hook delays and back-off gaps must still follow its own progression. " +
			"idx%10==8 = class elapsed-inside-wait: Initial 40..80 ms, Multiplier 6, RF 0, MaxElapsedTime = 1.5 x Initial, so the budget ends inside the second wait with a margin of 5.5 x Initial (>= 220 ms): a third attempt must not happen (reported only if Retry gave up in none of the runs of the scenario and a third attempt was seen conclusively in 4 of at most 8 runs, otherwise inconclusive; conclusive = retry 2 started >= 6 x Initial after the end of attempt 2, no Stop (-1) was reported to OnRetryHook(2), and the harness's stall probe - its own 3 x Initial timer started in attempt 2 - fired at most Initial late: neither a slow nor a stalled process can fake it). " +
			"idx%10==9 = class ctx-zero-wait: InitialInterval 0 (every wait is zero), MaxRetries 8, the handler cancels the message context in its first attempt; 40 such messages per case: with a zero wait both select branches may be ready, so single outcomes are not judged, but a Retry that honours the context gives up in most of them - reported when >= 30 of 40 messages used all 9 calls. " +
			"The next 120 (quick) / 1500 (thorough) cases, j = idx-600 / idx-60000: " +
			"j%3==0 = class long-lived/*: MaxElapsedTime E = 120..250 ms, MaxRetries 2..4, Initial 2..6 ms, Multiplier 1/1.5/2, MaxInterval 3 x Initial, RF 0 or <= 0.3 (all waits of one message sum to <= 70 ms, far below E), OnRetryHook set in half of the cases; " +
			"the result of Retry.Middleware(h) is built ONCE and used for messages that arrive later than E after it was built: variant reused (one failing message at once, an idle pause of E + 10..60 ms, then 2-3 more messages with failing scripts), " +
			"idle-first (the pause comes before the first message), same-message (as reused, but the very same *message.Message is presented every time), slow-first (no pause; the first attempt of the message itself takes E + 5..25 ms before it fails). " +
			"Every message has its own budget: attempt counts, hook delays and back-off gaps are judged exactly as in class schedule as long as the harness's own measurement shows that the message's budget was not used up " +
			"(start of the retry - end of attempt 1 <= E for delays/gaps, return - end of attempt 1 < E for a lower call count); beyond that the observation is tolerated and counted (own_budget_used_up). " +
			"j%3==1 = class redeliver: a schedule-class config with MaxElapsedTime 0 / 1 h / 5..30 s; ONE *message.Message (context.Background or a cancelable context that the harness never cancels) is presented 4-6 times in a row to wrapped Retry handlers " +
			"(two instances of the config, one with and one without MaxElapsedTime, picked at random per delivery) with the schedule-class scripts: every delivery must get its full number of attempts (unless the harness's own measurement cannot exclude that a seconds-range MaxElapsedTime was used up). " +
			"j%3==2 = class nested: outer Retry (MaxRetries 1..4) wrapped around inner Retry (MaxRetries 1..4) wrapped around the scripted handler (fail forever / succeed at global attempt g), MaxElapsedTime 0 or 1 h on each level, intervals 0 / 0.1..2 ms: " +
			"each level is judged like a schedule-class invocation (the inner chain is the outer level's handler), i.e. the handler runs min(g, (MRo+1)(MRi+1)) times, the outer hook is numbered 1.. once per failed outer retry, each inner run has its own hook numbering and back-off progression. " +
			"In the classes schedule, redeliver, nested and long-lived the harness never ends the message context, so every delivery and every nesting level must get its full number of attempts; a context that Retry itself left ended or replaced on the message is only counted (msg_context_ended_by_retry, msg_context_replaced). " +
			"Non-trivial: schedule = at least one retry was made and at least one hook delay and one back-off gap were judged; ctx/elapsed = Retry gave up with fewer than MaxRetries+1 calls; long-lived = a message first failed later than E after Middleware() was called and at least one of its back-off gaps was judged inside its own budget; redeliver = a delivery after an earlier failing delivery of the same object made a retry; nested = the outer level retried after the inner level had retried. " +
			"The last 240 (quick) / 3000 (thorough) cases, m = idx-720 / idx-61500, class msgctx/*: the message's OWN context carries a deadline and/or values, built in one of 7 ways picked per case " +
			"(WithTimeout; WithDeadline; a WithValue or WithCancel layer above or below the deadline; a second, later deadline stacked on the first) or, for kind none, carries no deadline " +
			"(Background; WithCancel; WithValue; WithValue over WithCancel; WithoutCancel of an already cancelled context, with or without a value below it). The harness never cancels these contexts before the judgement; a carried value is looked up in every attempt (counted only). " +
			"m%4==0 = msgctx/elapsed/<kind>: the configuration of class elapsed (MaxRetries 2000, interval 1..2 ms, handler >= 100 us, failing forever) with kind far (message deadline in 1..3 h, MaxElapsedTime E = 5..20 ms), later (deadline E + 1..5 min), " +
			"none (no deadline, E = 5..20 ms), sooner (deadline D = 5..20 ms, E = D + 10..30 s), sooner-1h (E = 1 h), sooner-near (E = D + 1..5 ms): Retry must give up with fewer than 2001 calls whatever deadline the message has (2000 waits of >= 1 ms cannot fit into E resp. D). " +
			"m%4==1 = msgctx/inside-wait/<kind>: the configuration of class elapsed-inside-wait (Initial 40..80 ms, Multiplier 6, the third attempt cannot start before 7 x Initial) with kind far / later / none (E = 1.5 x Initial, message deadline 1..3 h / E + 1..5 min / none) " +
			"and kind sooner (message deadline D = 1.5 x Initial, E = 1 h / D + 10..30 s / 3 x Initial); attempts 1 and 2 fail, a third one would succeed (so a Retry that ignores the limit returns there): a third attempt must not happen (reported as in class elapsed-inside-wait: no run in which Retry gave up and 4 runs with a conclusive third attempt, each run with a fresh context). " +
			"m%4==2 = msgctx/deadline-in-wait/<kind>: Initial = MaxInterval = 1 h, message deadline D = 1..5 ms, kind E=0 / E=1h / E=D+10..30s / E=2..4xD: once the harness sees its own context ended after attempt 1, Retry has to return after exactly that one call (quiescence detector, as in ctx/deadline). " +
			"m%4==3 = msgctx/schedule/<kind>: a schedule-class config and scripts with MaxElapsedTime 0 / 1 h / 5..30 s and kind far (deadline 2..3 h), between (E = 1 h, deadline 20..40 min), later-sec (E = 5..30 s, deadline E + 1..5 min), none: the deadline is far beyond the case, so every invocation must get its full number of attempts " +
			"and the ordinary hook / delay / gap clauses apply (inconclusive if the harness finds its own context ended). " +
			"Non-trivial for msgctx/*: elapsed = gave up with 2..2000 calls; inside-wait = gave up after exactly 2 calls; deadline-in-wait = returned after 1 call; schedule = as class schedule. " +
			"The last 480 (quick) / 9600 (thorough) cases, q = idx-960 / idx-64500, class errval/<class>: the error VALUE of a failed attempt must not matter. The workload of another class is run unchanged " +
			"(q%16 in 0..4 schedule, 5 ctx/*, 6 redeliver, 7 nested, 8 long-lived/*, 9 msgctx/schedule/*, 10 elapsed or msgctx/elapsed/*, 11 msgctx/deadline-in-wait/*, 12 concurrent, 13 elapsed-inside-wait or msgctx/inside-wait/*, 14 ctx-zero-wait, 15 redeliver or nested) " +
			"but every failing attempt takes its error from a script drawn per invocation (in class nested per inner run, in class concurrent also one value for the first attempt of all the other messages): " +
			"mode same-value (one value, returned by every failing attempt), same-kind (a fresh value of one kind per attempt), per-attempt (a random kind per attempt), plain-then-special (plain errors up to attempt 1..3, then one special kind); " +
			"kinds: *attemptErr, errors.New; context.Canceled, context.DeadlineExceeded; the same wrapped by fmt.Errorf %w (once / twice), pkg/errors Wrap / WithStack, errors.Join (either position), hashicorp/go-multierror, a custom type with Unwrap; " +
			"the error of a per-call context derived from the LIVE message context (WithDeadline in the past -> fmt.Errorf(%w sub.Err()); WithCancel + cancel -> sub.Err(); WithCancelCause -> context.Cause(sub)); " +
			"backoff.Permanent(plain), backoff.Permanent(context error), fmt.Errorf(%w backoff.Permanent(..)) (*backoff.PermanentError of the vendored cenkalti/backoff/v3); io.EOF, io.ErrUnexpectedEOF, os.ErrDeadlineExceeded, fmt.Errorf(%w io.EOF); " +
			"an error type whose Error() is \"\", errors.New(\"\"); errors.New(\"context canceled\" / \"context deadline exceeded\") (the text of the sentinel, not the sentinel); non-comparable error values (a slice type, a struct with func and map fields, and a %w wrapper of one); " +
			"a typed nil pointer (*T)(nil) in a non-nil error interface (a FAILED attempt: err != nil; the unchanged Retry retries it); an error whose Is method matches every target; a net.Error-like value with random Timeout()/Temporary(). " +
			"Attempt counts, hook calls, hook delays, back-off gaps, give-up behaviour and the returned error are judged by the unchanged clauses of the underlying class (the returned error must be the last attempt's value - identity, for non-comparable values type + id - or wrap it); non-trivial as in the underlying class. " +
			"Classes elapsed and msgctx/elapsed (all cases, errval or not) additionally demand a second call unless the harness's own measurement cannot exclude that a limit was reached (see Assumptions). " +
			"Distinct = distinct (class, config, scripts incl. error script, observed call counts).",
		Assumptions: []string{
			"MaxInterval >= InitialInterval (a cap below the initial interval is a mis-configuration which the vendored back-off does not honour on the first wait; excluded)",
			"cur_k is min(Initial*Mult^(k-1), Max) computed in float64; the reported delay may deviate from cur_k*(1+-RF) by the accumulated integer truncation of the iterative computation (<= sum Mult^j ns) plus 2 ns",
			"OnRetryHook is expected once per FAILED retry (DESIGN C12); its position relative to the attempt is only counted (counter hook_not_after_failed_retry), not judged",
			"durations: lower bounds only (gap between the end of attempt k and the start of attempt k+1 >= delay reported to hook k, or >= the arithmetic minimum when no hook saw it), monotonic clock",
			"class ctx/handler-k2,k3 uses Multiplier 2e5..1e7, outside the 1..3 range of the quantifier, only to make the wait after attempt k effectively infinite while the earlier waits stay in the ms range",
			"'Retry keeps waiting after the context ended' is decided by the quiescence detector (Retry's own 1 h / >=40 s timer is not counted as a wake-up source once the harness knows the context has ended), not by a time-out",
			"class elapsed judges only: fewer than MaxRetries+1 calls, non-nil last error, hook numbering, gap >= reported delay; a delay of -1 (backoff.Stop) is tolerated there; inconclusive when the harness's own control timer of MaxElapsedTime fired > 50 ms late",
			"a returned error is accepted when it is the last attempt's error value or wraps it (errors.Is)",
			"'MaxElapsedTime passes' is per message: the budget of a message starts no earlier than the end of its first (failed) attempt, whatever the age of the middleware instance; the harness measures from the end of attempt 1 (taken inside the handler, so not later than Retry's own start) to the start of the retry / to the return (taken outside, so not earlier than Retry's own reading): 'budget not used up' by this measurement implies the same for Retry's own clock, the converse is tolerated",
			"'the message context ends' refers to the context the caller put on the message: a Retry that ends the message's context itself (observed as msg.Context().Err() != nil after the call while the harness's context is alive) makes its own give-up condition true for every later Retry that sees the message; that is counted (msg_context_ended_by_retry), and the consequences (a later delivery / an outer Retry giving up although nobody ended the context) are judged by the ordinary calls clause",
			"classes elapsed-inside-wait and msgctx/inside-wait: correct code can make a third attempt in two ways. (1) A slow process: when the second wait is computed later than MaxElapsedTime (1.5 x Initial, i.e. only 0.5 x Initial after the earliest possible moment) on the back-off policy's own clock, NextBackOff returns backoff.Stop (-1), the wait ends at once and both select branches are ready (Go picks at random); " +
				"recognised by retry 2 starting less than 6 x Initial after the end of attempt 2 or by OnRetryHook(2) reporting less than 6 x Initial (counter elapsed_inside_wait_third_attempt_without_full_wait). (2) A process stalled from the limit until after the end of the full second wait; recognised by the harness's own timer set to the middle of that wait (3 x Initial, started in attempt 2) firing about 3 x Initial late (threshold used: > Initial; counter elapsed_inside_wait_third_attempt_in_stalled_run). Neither is counted as a sighting",
			"class nested: a failed inner chain counts as one failed attempt of the outer level; the product rule for the number of handler runs follows from judging both levels",
			"class msgctx/*: 'gives up early when the message context ends or MaxElapsedTime passes' holds for every message context, whatever deadline it carries itself: the earlier of the two ends the retries. Only call counts are judged (no upper bound on any duration): " +
				"msgctx/elapsed reports only the use of all 2001 calls (impossible while either limit is honoured, since 2000 waits of >= 1 ms are needed), msgctx/inside-wait only a conclusive third attempt in 4 runs (and no run in which Retry gave up), msgctx/deadline-in-wait only a second call or a Retry that is quiescent in its 1 h wait after the harness saw the deadline pass",
			"classes errval/*: a failed attempt is one whose returned error interface is non-nil, whatever its dynamic value (incl. a typed nil pointer); 'the message context ends' and 'MaxElapsedTime passes' are facts about the message's context and the clock, not about the error value: " +
				"an error that is or wraps context.Canceled / context.DeadlineExceeded while the message context is alive is an ordinary failure, and so is a *backoff.PermanentError (the property knows no permanent errors). The Logger of these cases is nil or watermill.NopLogger (no Error() call on the values by a logger)",
			"classes elapsed, msgctx/elapsed: fewer than 2 handler calls are reported (clause calls) only when Retry returned less than MaxElapsedTime after the end of attempt 1 (end taken inside the handler, i.e. before Retry starts its budget; return taken outside, i.e. after Retry's last reading of its clock) " +
				"and the context the harness put on the message still had a nil Err() after the return: then neither give-up reason existed and at least one retry was due (MaxRetries 2000); otherwise the early return is tolerated and counted (early_giveup_limit_possibly_reached)",
			"class msgctx/*: whether a value of the message context is visible through msg.Context() inside an attempt is counted (msgctx_value_seen / msgctx_value_missing), not judged",
		},
		Run: run,
	})
}

// ---------------------------------------------------------------------------------------------
// configuration + reference model

type cfg struct {
	MaxRetries int           `json:"max_retries"`
	Initial    time.Duration `json:"initial_ns"`
	Max        time.Duration `json:"max_ns"`
	Mult       float64       `json:"mult"`
	RF         float64       `json:"rf"`
	MaxElapsed time.Duration `json:"max_elapsed_ns"`
	Logger     bool          `json:"logger"`
}

func (c cfg) retry(hook func(int, time.Duration)) middleware.Retry {
	r := middleware.Retry{
		MaxRetries:          c.MaxRetries,
		InitialInterval:     c.Initial,
		MaxInterval:         c.Max,
		Multiplier:          c.Mult,
		MaxElapsedTime:      c.MaxElapsed,
		RandomizationFactor: c.RF,
		OnRetryHook:         hook,
	}
	if c.Logger {
		r.Logger = watermill.NopLogger{}
	}
	return r
}

// bounds returns the admissible [lo,hi] (ns) of the delay before the k-th retry:
// cur_k*(1-RF) .. cur_k*(1+RF), cur_k = min(Initial*Mult^(k-1), Max), widened by the truncation slack.
func (c cfg) bounds(k int) (lo, hi float64) {
	cur, tol := float64(c.Initial), 0.0
	for j := 1; j < k; j++ {
		cur *= c.Mult
		tol = tol*c.Mult + 1
		if cur >= float64(c.Max) {
			cur = float64(c.Max)
			if tol > cur {
				tol = cur
			}
		}
	}
	slack := tol*(1+c.RF) + 2 + cur*1e-9
	lo = cur*(1-c.RF) - slack
	hi = cur*(1+c.RF) + slack
	if lo < 0 {
		lo = 0
	}
	return lo, hi
}

// ---------------------------------------------------------------------------------------------
// one monitored invocation of the wrapped handler

type attemptErr struct {
	run string
	n   int
}

func (e *attemptErr) Error() string { return fmt.Sprintf("%s: attempt %d failed", e.run, e.n) }

type attempt struct {
	start, end time.Time
	ok         bool
	out        []*message.Message
	err        error
}

type hookCall struct {
	N         int
	Delay     time.Duration
	afterEnds int  // number of attempts that had ended when the hook ran
	inAttempt bool // an attempt was running (cannot happen: same goroutine) - kept for completeness
}

type invocation struct {
	name     string
	failN    int  // attempts 1..failN fail, attempt failN+1 succeeds
	forever  bool // every attempt fails
	work     time.Duration
	outs     [][]*message.Message // pre-generated outputs of attempts 1..len(outs)
	onAttemt func(n int)          // called inside attempt n (before it returns)
	// delegate != nil: attempt n is not scripted, it is the result of delegate (class nested: the inner Retry chain)
	delegate func(n int, msg *message.Message) ([]*message.Message, error)
	// errs != nil (classes errval/*): the error of a failing attempt comes from this script instead of a fresh *attemptErr
	errs *errScript

	mu       sync.Mutex
	attempts []attempt
	hooks    []hookCall
	running  bool

	retOut   []*message.Message
	retErr   error
	panicked string
	returned bool
	retAt    time.Time // taken after Retry returned

	ctxBefore, ctxAfter context.Context // msg.Context() right before / right after the call
	ctxErrAfter         error
	callerCtxErrAfter   error // Err() of the context the caller had put on the message, read right after the call returned
}

// call runs h(msg) on the calling goroutine and records the result and the message context around the call.
func (iv *invocation) call(h message.HandlerFunc, msg *message.Message) ([]*message.Message, error) {
	before := msg.Context()
	out, err := h(msg)
	at := time.Now()
	after := msg.Context()
	callerErr := before.Err() // read after `at`: nil means the caller's context had not ended when Retry returned
	iv.mu.Lock()
	iv.retOut, iv.retErr, iv.returned, iv.retAt = out, err, true, at
	iv.ctxBefore, iv.ctxAfter, iv.ctxErrAfter, iv.callerCtxErrAfter = before, after, after.Err(), callerErr
	iv.mu.Unlock()
	return out, err
}

func (iv *invocation) handler(msg *message.Message) ([]*message.Message, error) {
	iv.mu.Lock()
	n := len(iv.attempts) + 1
	iv.attempts = append(iv.attempts, attempt{start: time.Now()})
	iv.running = true
	iv.mu.Unlock()

	if iv.work > 0 {
		vlib.TimerWait(iv.work)
	}
	if iv.onAttemt != nil {
		iv.onAttemt(n)
	}
	var out []*message.Message
	var err error
	if iv.delegate != nil {
		out, err = iv.delegate(n, msg)
	} else {
		if n <= len(iv.outs) {
			out = iv.outs[n-1]
		}
		if iv.forever || n <= iv.failN {
			if iv.errs != nil {
				err = iv.errs.next(n, msg)
			} else {
				err = &attemptErr{run: iv.name, n: n}
			}
		}
	}

	iv.mu.Lock()
	a := &iv.attempts[n-1]
	a.ok, a.out, a.err = err == nil, out, err
	iv.running = false
	a.end = time.Now()
	iv.mu.Unlock()
	return out, err
}

func (iv *invocation) hook(n int, d time.Duration) {
	iv.mu.Lock()
	ends := len(iv.attempts)
	if iv.running {
		ends--
	}
	iv.hooks = append(iv.hooks, hookCall{N: n, Delay: d, afterEnds: ends, inAttempt: iv.running})
	iv.mu.Unlock()
}

func (iv *invocation) calls() int {
	iv.mu.Lock()
	defer iv.mu.Unlock()
	return len(iv.attempts)
}

// exec runs h(msg) in its own goroutine. armed==nil: plain wait (a pending Retry timer means "not
// quiescent"). armed!=nil: once armed() is true the harness knows that the message context has ended and
// the attempt in which it ended has returned; from then on Retry's own back-off timer (1 h / >= 40 s) is
// not accepted as a reason to keep waiting, so a Retry that sits in its back-off is reported Stuck.
func (iv *invocation) exec(h message.HandlerFunc, msg *message.Message, armed func() bool) (vlib.Outcome, string) {
	done := make(chan struct{})
	go func() {
		defer close(done)
		defer func() {
			if r := recover(); r != nil {
				iv.mu.Lock()
				iv.panicked = fmt.Sprint(r)
				iv.mu.Unlock()
			}
		}()
		iv.call(h, msg)
	}()
	// The Retry closure may be inlined into the caller ("c12.runSchedule.Retry.Middleware.func4"), in which
	// case vlib's default timer frame "middleware.Retry.Middleware" does not match: name it here.
	timed := vlib.WaitOpts{Watchdog: 60 * time.Second, TimerFrames: []string{"Retry.Middleware"}}
	if armed == nil {
		return vlib.WaitClosed(done, timed)
	}
	oc, dump := vlib.WaitUntil(func() bool { return vlib.IsClosed(done) || armed() }, timed)
	if oc != vlib.Done {
		return oc, dump
	}
	return vlib.WaitClosed(done, vlib.WaitOpts{Watchdog: 60 * time.Second, NoTimerCheck: []string{retryFrame}, MinSpan: 30 * time.Millisecond})
}

// ---------------------------------------------------------------------------------------------
// oracle

type expect struct {
	class      string
	calls      int  // exact number of handler calls expected; <0: not exact
	callsBelow int  // >0: number of calls must be < callsBelow (class elapsed)
	checkDelay bool // judge hook delays against cfg.bounds
	allowStop  bool // a delay of -1 (backoff.Stop) is tolerated
	ctxClause  bool // a wrong call count is reported as ctx-giveup
	noHook     bool // Retry was configured without OnRetryHook: skip the hook clauses, judge gaps against the arithmetic minimum
	// ownBudget > 0: MaxElapsedTime of the message is small enough to be used up by a stalled process. Fewer calls than
	// expected / a Stop delay / a short gap are tolerated when the harness's own measurement (from the end of attempt 1)
	// does not prove that the budget was still open.
	ownBudget time.Duration
	ctxIntact bool // the harness never ends the message context: it must not have ended when Retry returns
	// callsAtLeast > 0 (classes elapsed, msgctx/elapsed): fewer calls are a violation when the harness's own measurement proves that
	// neither limit had been reached when Retry returned: return - end of attempt 1 < giveUpBudget (= MaxElapsedTime) and the
	// context the caller put on the message had not ended after the return. Otherwise tolerated (counted).
	callsAtLeast int
	giveUpBudget time.Duration
	// class msgctx/*: how the message context was built and the deadline it carries (0: none), for the reports
	msgCtx      string
	msgDeadline time.Duration
}

func (ex expect) ctxDesc() string {
	if ex.msgCtx == "" {
		return "none set"
	}
	if ex.msgDeadline == 0 {
		return ex.msgCtx + " (no deadline)"
	}
	return fmt.Sprintf("%s (deadline %v after its creation)", ex.msgCtx, ex.msgDeadline)
}

type trace struct {
	Run      string   `json:"run"`
	Script   string   `json:"script"`
	Calls    int      `json:"calls"`
	Outcome  string   `json:"outcome"`
	HookNums []int    `json:"hook_nums,omitempty"`
	DelaysNs []int64  `json:"hook_delays_ns,omitempty"`
	GapsNs   []int64  `json:"gaps_ns,omitempty"`
	Attempts []string `json:"attempts,omitempty"`
	ErrKinds []string `json:"error_kinds,omitempty"` // classes errval/*: kind of the error value of the first failing attempts
}

func (iv *invocation) script() string {
	s := fmt.Sprintf("fail^%d-then-succeed", iv.failN)
	if iv.forever {
		s = "fail-forever"
	}
	if iv.errs != nil {
		s += " " + iv.errs.desc()
	}
	return s
}

func (iv *invocation) trace() trace {
	iv.mu.Lock()
	defer iv.mu.Unlock()
	t := trace{Run: iv.name, Script: iv.script(), Calls: len(iv.attempts), ErrKinds: iv.errs.seen()}
	switch {
	case iv.panicked != "":
		t.Outcome = "panic: " + iv.panicked
	case !iv.returned:
		t.Outcome = "not returned"
	case iv.retErr != nil:
		t.Outcome = fmt.Sprintf("error %q, %d messages", errText(iv.retErr), len(iv.retOut))
	default:
		t.Outcome = fmt.Sprintf("nil error, %d messages", len(iv.retOut))
	}
	lim := len(iv.attempts)
	if lim > 12 {
		lim = 12
	}
	for i := 0; i < lim; i++ {
		a := iv.attempts[i]
		s := "fail"
		if a.ok {
			s = "ok"
		}
		t.Attempts = append(t.Attempts, fmt.Sprintf("#%d:%s/%dmsgs", i+1, s, len(a.out)))
		if i > 0 {
			t.GapsNs = append(t.GapsNs, int64(a.start.Sub(iv.attempts[i-1].end)))
		}
	}
	for i, h := range iv.hooks {
		if i >= 12 {
			break
		}
		t.HookNums = append(t.HookNums, h.N)
		t.DelaysNs = append(t.DelaysNs, int64(h.Delay))
	}
	return t
}

func sameMsgs(a, b []*message.Message) bool {
	if len(a) != len(b) {
		return false
	}
	for i := range a {
		if a[i] != b[i] {
			return false
		}
	}
	return true
}

// judge compares one finished invocation with the reference model. It returns the number of judged events.
func judge(res *vlib.Result, c cfg, iv *invocation, ex expect) int {
	iv.mu.Lock()
	defer iv.mu.Unlock()
	events := 0
	fail := func(clause, format string, args ...any) {
		if res.Failed() {
			return
		}
		what := iv.script()
		if ex.msgCtx != "" {
			what += " message-context=" + ex.ctxDesc()
		}
		res.Fail(clause, "[%s run=%s cfg={MaxRetries:%d Initial:%v Max:%v Mult:%v RF:%v MaxElapsed:%v} script=%s] %s",
			ex.class, iv.name, c.MaxRetries, c.Initial, c.Max, c.Mult, c.RF, c.MaxElapsed, what, fmt.Sprintf(format, args...))
	}
	if iv.panicked != "" {
		fail("panic", "Retry panicked: %s", iv.panicked)
		return events
	}
	n := len(iv.attempts)
	events += n + 1

	// --- first success wins, and stops
	firstOK := 0
	for i, a := range iv.attempts {
		if a.ok {
			firstOK = i + 1
			break
		}
	}
	if firstOK > 0 && n > firstOK {
		fail("call-after-success", "attempt %d succeeded but the handler was invoked %d times", firstOK, n)
	}
	// --- bounded attempts
	if n == 0 {
		fail("calls", "the handler was never invoked")
		return events
	}
	budgetUsedUp := false
	if ex.calls >= 0 && n < ex.calls && n >= 1 && ex.ownBudget > 0 && !iv.retAt.IsZero() && iv.retAt.Sub(iv.attempts[0].end) >= ex.ownBudget {
		// Retry returned not earlier than MaxElapsedTime after the first attempt had ended: a legitimate give-up cannot be excluded
		budgetUsedUp = true
		res.Count("own_budget_used_up", 1)
	}
	if ex.calls >= 0 && n != ex.calls && !budgetUsedUp {
		if ex.ctxClause {
			fail("ctx-giveup", "the message context ended in/after attempt %d: expected Retry to return after exactly %d handler calls, observed %d", ex.calls, ex.calls, n)
		} else {
			fail("calls", "expected min(i+1, MaxRetries+1) = %d handler calls, observed %d", ex.calls, n)
		}
	}
	if ex.callsAtLeast > 0 && n < ex.callsAtLeast && iv.returned && !iv.retAt.IsZero() {
		if spent := iv.retAt.Sub(iv.attempts[0].end); spent < ex.giveUpBudget && iv.callerCtxErrAfter == nil {
			fail("calls", "attempt %d failed and Retry gave up after %d handler call(s) of at most %d, although it returned %v after the end of attempt 1 (MaxElapsedTime %v not passed) and the message context had not ended after the return",
				n, n, c.MaxRetries+1, spent, c.MaxElapsed)
		} else {
			res.Count("early_giveup_limit_possibly_reached", 1)
		}
	}
	if ex.callsBelow > 0 && n >= ex.callsBelow {
		if ex.ctxClause {
			fail("ctx-giveup", "the message context's own deadline (%v after its creation, MaxElapsedTime %v) passed but Retry used all %d calls (MaxRetries+1 = %d)", ex.msgDeadline, c.MaxElapsed, n, ex.callsBelow)
		} else {
			fail("elapsed-giveup", "MaxElapsedTime %v passed but Retry used all %d calls (MaxRetries+1 = %d)", c.MaxElapsed, n, ex.callsBelow)
		}
	}
	// --- returned (messages, error)
	last := iv.attempts[n-1]
	if last.ok {
		if iv.retErr != nil {
			fail("success-result", "attempt %d succeeded but Retry returned error %q", n, errText(iv.retErr))
		} else if !sameMsgs(iv.retOut, last.out) {
			fail("success-result", "attempt %d succeeded with %d messages %v but Retry returned %d messages %v", n, len(last.out), uuids(last.out), len(iv.retOut), uuids(iv.retOut))
		}
	} else {
		if iv.retErr == nil {
			fail("failure-to-success", "all %d attempts failed (last: %q, a %T) but Retry returned a nil error with %d messages", n, errText(last.err), last.err, len(iv.retOut))
		} else if !sameErr(iv.retErr, last.err) && !errors.Is(iv.retErr, last.err) {
			fail("last-error", "last attempt (%d) failed with %q (a %T) but Retry returned %q (a %T)", n, errText(last.err), last.err, errText(iv.retErr), iv.retErr)
		}
	}
	// --- hooks: 1,2,... in order, once per failed retry
	failedRetries := 0
	for i := 1; i < n; i++ {
		if !iv.attempts[i].ok {
			failedRetries++
		}
	}
	events += len(iv.hooks)
	for i, h := range iv.hooks {
		if h.N != i+1 {
			fail("hook-sequence", "OnRetryHook call #%d got retryNum %d (all: %v)", i+1, h.N, hookNums(iv.hooks))
			break
		}
	}
	if len(iv.hooks) != failedRetries && !ex.noHook {
		fail("hook-sequence", "%d retries failed (of %d calls) but OnRetryHook was called %d times (%v)", failedRetries, n, len(iv.hooks), hookNums(iv.hooks))
	}
	for _, h := range iv.hooks {
		if h.afterEnds != h.N+1 {
			res.Count("hook_not_after_failed_retry", 1)
		}
	}
	// --- hook delay within cur_k*(1+-RF)
	delayOf := map[int]time.Duration{}
	for _, h := range iv.hooks {
		if _, dup := delayOf[h.N]; !dup {
			delayOf[h.N] = h.Delay
		}
		if ex.allowStop && h.Delay == -1 {
			res.Count("hook_delay_stop", 1)
			continue
		}
		if !ex.checkDelay {
			continue
		}
		if ex.ownBudget > 0 && h.N >= 1 && h.N < n && iv.attempts[h.N].start.Sub(iv.attempts[0].end) > ex.ownBudget {
			// the delay was computed at some moment before retry h.N started; that moment may lie beyond the message's own budget (Stop)
			res.Count("own_budget_used_up", 1)
			continue
		}
		lo, hi := c.bounds(h.N)
		res.Count("hook_delays_judged", 1)
		if d := float64(h.Delay); d < lo || d > hi {
			fail("hook-delay", "OnRetryHook(%d) reported delay %v (%d ns), outside cur_k*(1+-RF) = [%.0f, %.0f] ns", h.N, h.Delay, int64(h.Delay), lo, hi)
		}
	}
	// --- measured gap >= delay (lower bound only)
	for k := 1; k < n; k++ {
		gap := iv.attempts[k].start.Sub(iv.attempts[k-1].end)
		events++
		want, src := time.Duration(0), "arithmetic minimum cur_k*(1-RF)"
		if d, ok := delayOf[k]; ok {
			want, src = d, "delay reported to OnRetryHook"
		} else if ex.checkDelay {
			lo, _ := c.bounds(k)
			want = time.Duration(lo)
		}
		if ex.ownBudget > 0 && iv.attempts[k].start.Sub(iv.attempts[0].end) > ex.ownBudget {
			res.Count("own_budget_used_up", 1)
			continue
		}
		if want > 0 {
			res.Count("gaps_judged_positive", 1)
		}
		if gap < want {
			fail("backoff-gap", "retry %d started %v (%d ns) after the end of attempt %d, less than the %s %v (%d ns)", k, gap, int64(gap), k, src, want, int64(want))
		}
	}
	// --- the message context is the caller's: Retry must not end it
	if ex.ctxIntact && iv.returned {
		events++
		res.Count("msg_context_checked", 1)
		if iv.ctxErrAfter != nil {
			// Not a clause: the statement speaks about attempts, not about the context Retry leaves behind. What follows
			// from it (a later delivery / an outer Retry giving up although nobody ended the context) is judged by "calls".
			res.Count("msg_context_ended_by_retry", 1)
		} else if !sameCtx(iv.ctxAfter, iv.ctxBefore) {
			res.Count("msg_context_replaced", 1)
		}
	}
	res.Count("handler_calls", n)
	res.Count("hook_calls", len(iv.hooks))
	return events
}

// sameCtx compares two contexts by identity (a context of an uncomparable dynamic type counts as different).
func sameCtx(a, b context.Context) (same bool) {
	defer func() {
		if recover() != nil {
			same = false
		}
	}()
	return a == b
}

func hookNums(h []hookCall) []int {
	o := make([]int, 0, len(h))
	for i, x := range h {
		if i >= 16 {
			break
		}
		o = append(o, x.N)
	}
	return o
}

func uuids(m []*message.Message) []string {
	o := make([]string, 0, len(m))
	for _, x := range m {
		if x == nil {
			o = append(o, "<nil>")
		} else {
			o = append(o, x.UUID)
		}
	}
	return o
}

// ---------------------------------------------------------------------------------------------
// generators

func genOuts(r *vlib.Rand, prefix string, n int) [][]*message.Message {
	outs := make([][]*message.Message, n)
	for i := range outs {
		switch r.Intn(5) {
		case 0:
			outs[i] = nil
		case 1:
			outs[i] = []*message.Message{}
		default:
			k := r.Range(1, 3)
			for j := 0; j < k; j++ {
				outs[i] = append(outs[i], message.NewMessage(fmt.Sprintf("%s-a%d-o%d", prefix, i+1, j), r.Payload(8)))
			}
		}
	}
	return outs
}

func genCfg(r *vlib.Rand) cfg {
	c := cfg{MaxRetries: r.Range(1, 8)}
	switch r.Intn(6) {
	case 0:
		c.Initial = 0
	case 1:
		c.Initial = time.Duration(r.Range(1, 999))
	case 2:
		c.Initial = time.Duration(r.Range(1000, 200000))
	default:
		c.Initial = time.Duration(r.Range(200000, 3000000))
	}
	switch r.Intn(4) {
	case 0:
		c.Max = c.Initial
	case 1:
		c.Max = c.Initial + time.Duration(r.Range(1, 1000))
	default:
		c.Max = c.Initial + time.Duration(r.Range(0, 6000000))
	}
	switch r.Intn(6) {
	case 0:
		c.Mult = 1
	case 1:
		c.Mult = 1.5
	case 2:
		c.Mult = 2
	case 3:
		c.Mult = 3
	default:
		c.Mult = 1 + 2*r.Float()
	}
	switch r.Intn(6) {
	case 0:
		c.RF = 0
	case 1:
		c.RF = 1
	case 2:
		c.RF = 0.5
	default:
		c.RF = r.Float()
	}
	if r.Intn(3) == 0 {
		c.MaxElapsed = hour
	}
	c.Logger = r.Bool()
	return c
}

// ---------------------------------------------------------------------------------------------
// case runner

func run(e *vlib.Env) vlib.Result {
	if base := vlib.TierN(e.Tier, c12Quick+c12QuickExtra+c12QuickMsgCtx, c12Thorough+c12ThoroughExtra+c12ThoroughMsgCtx); e.Idx >= base {
		return runErrVal(e, e.Idx-base)
	}
	if base := vlib.TierN(e.Tier, c12Quick+c12QuickExtra, c12Thorough+c12ThoroughExtra); e.Idx >= base {
		m := e.Idx - base
		switch m % c12MsgCtxStride {
		case 0:
			return runMsgCtxElapsed(e, m/c12MsgCtxStride, nil)
		case 1:
			return runMsgCtxInsideWait(e, m/c12MsgCtxStride, nil)
		case 2:
			return runMsgCtxDeadlineInWait(e, m/c12MsgCtxStride, nil)
		}
		return runMsgCtxSchedule(e, m/c12MsgCtxStride, nil)
	}
	if base := vlib.TierN(e.Tier, c12Quick, c12Thorough); e.Idx >= base {
		j := e.Idx - base
		switch j % c12ExtraStride {
		case 0:
			return runLongLived(e, j/c12ExtraStride, nil)
		case 1:
			return runRedeliver(e, nil)
		}
		return runNested(e, nil)
	}
	switch e.Idx % c12Stride {
	case 5:
		return runCtx(e, e.Idx/c12Stride, nil)
	case 6:
		return runElapsed(e, nil)
	case 7:
		return runConcurrent(e, nil)
	case 8:
		return runElapsedInsideWait(e, nil)
	case 9:
		return runCtxZeroWait(e, nil)
	}
	return runSchedule(e, nil)
}

func finish(res *vlib.Result, oc vlib.Outcome, dump string, iv *invocation, what string) bool {
	switch oc {
	case vlib.Stuck:
		res.Fail("blocks", "%s: Retry never returned (process quiescent) after %d handler calls", what, iv.calls())
		res.Witness = dump
		return false
	case vlib.Inconclusive:
		res.Inconclusive("%s: Retry did not return before the watchdog (%d handler calls so far)", what, iv.calls())
		return false
	}
	return true
}

func runSchedule(e *vlib.Env, plan *errPlan) vlib.Result {
	res := vlib.Result{Class: "schedule"}
	c := genCfg(e.R)
	// one wrapped handler for all scripts of the config: state must not leak between invocations
	var curMu sync.Mutex
	var cur *invocation
	get := func() *invocation { curMu.Lock(); defer curMu.Unlock(); return cur }
	h := c.retry(func(n int, d time.Duration) { get().hook(n, d) }).Middleware(func(m *message.Message) ([]*message.Message, error) {
		return get().handler(m)
	})

	type sc struct {
		failN   int
		forever bool
	}
	scripts := []sc{{forever: true}, {failN: c.MaxRetries}, {failN: e.R.Intn(c.MaxRetries)}}
	if e.R.Intn(4) == 0 {
		scripts = append(scripts, sc{failN: 0})
	}
	order := e.R.Perm(len(scripts))
	var traces []trace
	var sigParts []any
	retries, delays, gaps := 0, 0, 0
	for ri, si := range order {
		s := scripts[si]
		iv := &invocation{name: fmt.Sprintf("%s-r%d", e.ID(), ri), failN: s.failN, forever: s.forever}
		iv.errs = plan.script(iv.name)
		iv.outs = genOuts(e.R, iv.name, c.MaxRetries+3)
		curMu.Lock()
		cur = iv
		curMu.Unlock()
		msg := message.NewMessage(iv.name, e.R.Payload(8))
		want := c.MaxRetries + 1
		if !s.forever && s.failN+1 < want {
			want = s.failN + 1
		}
		oc, dump := iv.exec(h, msg, nil)
		traces = append(traces, iv.trace())
		if !finish(&res, oc, dump, iv, iv.script()) {
			break
		}
		res.Events += judge(&res, c, iv, expect{class: "schedule", calls: want, checkDelay: true, ctxIntact: true})
		sigParts = append(sigParts, iv.script(), iv.calls())
		retries += iv.calls() - 1
		if res.Failed() {
			res.Witness = iv.trace()
			break
		}
	}
	delays = res.Counters["hook_delays_judged"]
	gaps = res.Counters["gaps_judged_positive"]
	res.Count("invocations", len(traces))
	res.NonTrivial = retries > 0 && delays > 0 && gaps > 0
	res.Sig = vlib.Sig("schedule", c.MaxRetries, c.Initial, c.Max, c.Mult, c.RF, c.MaxElapsed, sigParts)
	res.Sample = map[string]any{"cfg": c, "invocations": traces}
	return res
}

func runCtx(e *vlib.Env, vi int, plan *errPlan) vlib.Result {
	variants := []string{"handler-k1", "handler-k2", "handler-k3", "external", "pre-cancelled", "deadline"}
	v := variants[vi%len(variants)]
	res := vlib.Result{Class: "ctx/" + v}
	c := cfg{Initial: hour, Max: hour, Mult: 1 + 2*e.R.Float(), RF: 0.5 * e.R.Float(), Logger: e.R.Bool()}
	k := 1
	switch v {
	case "handler-k2":
		k = 2
		c.Initial = time.Duration(e.R.Range(100000, 1500000)) // wait before attempt 2: 0.1..1.5 ms
		c.Mult = 1e7                                          // wait after attempt 2: >= 1000 s * (1-RF), capped at 1 h
		c.RF = 0.3 * e.R.Float()
	case "handler-k3":
		k = 3
		c.Initial = time.Duration(e.R.Range(1, 5)) // 1..5 ns
		c.Mult = 200000 + 800000*e.R.Float()       // second wait 0.2..5 ms, third >= 40 s
		c.RF = 0.3 * e.R.Float()
	}
	c.MaxRetries = e.R.Range(k, 8)
	if e.R.Intn(3) == 0 {
		c.MaxElapsed = hour
	}
	iv := &invocation{name: e.ID() + "-ctx", forever: true}
	iv.errs = plan.script(iv.name)
	iv.outs = genOuts(e.R, iv.name, 4)
	// sometimes the attempt in which the context ends succeeds: the success must still be returned
	succeeds := e.R.Intn(5) == 0
	if succeeds {
		iv.forever, iv.failN = false, k-1
	}

	var armed atomic.Bool
	ctx, cancel := context.WithCancel(context.Background())
	defer cancel()
	var armedFn func() bool = armed.Load
	attempt1 := make(chan struct{})
	switch v {
	case "handler-k1", "handler-k2", "handler-k3":
		iv.onAttemt = func(n int) {
			if n == k {
				cancel()
				armed.Store(true)
			}
		}
	case "pre-cancelled":
		cancel()
		iv.onAttemt = func(n int) { armed.Store(true) }
	case "external":
		d := time.Duration(e.R.Range(0, 400)) * time.Microsecond
		iv.onAttemt = func(n int) {
			if n == 1 {
				close(attempt1)
			}
		}
		go func() {
			<-attempt1
			vlib.TimerWait(d)
			cancel()
			armed.Store(true)
		}()
	case "deadline":
		var c2 context.CancelFunc
		ctx, c2 = context.WithTimeout(ctx, time.Duration(e.R.Range(1000, 5000))*time.Microsecond)
		defer c2()
		var a1 atomic.Bool
		iv.onAttemt = func(n int) { a1.Store(true) }
		dctx := ctx
		armedFn = func() bool { return a1.Load() && dctx.Err() != nil }
	}
	h := c.retry(iv.hook).Middleware(iv.handler)
	msg := message.NewMessage(iv.name, e.R.Payload(8))
	msg.SetContext(ctx)

	oc, dump := iv.exec(h, msg, armedFn)
	if v == "external" && !vlib.IsClosed(attempt1) {
		close(attempt1) // never leave the canceller behind (handler was not called at all)
	}
	tr := iv.trace()
	res.Sample = map[string]any{"cfg": c, "variant": v, "ctx_ends_in_attempt": k, "that_attempt_succeeds": succeeds, "invocation": tr}
	res.Sig = vlib.Sig("ctx", v, c.MaxRetries, succeeds, c.MaxElapsed, tr.Calls)
	switch oc {
	case vlib.Stuck:
		res.Fail("ctx-giveup", "[ctx/%s cfg={MaxRetries:%d Initial:%v Max:%v Mult:%v RF:%v}] the message context ended in/after attempt %d, yet Retry did not return: it sits in its back-off wait (process quiescent) after %d handler calls",
			v, c.MaxRetries, c.Initial, c.Max, c.Mult, c.RF, k, iv.calls())
		res.Witness = map[string]any{"trace": tr, "goroutines": dump}
		return res
	case vlib.Inconclusive:
		res.Inconclusive("ctx/%s: Retry did not return before the watchdog", v)
		return res
	}
	res.Events += judge(&res, c, iv, expect{class: "ctx/" + v, calls: k, checkDelay: true, ctxClause: true})
	if res.Failed() {
		res.Witness = tr
	}
	res.Count("invocations", 1)
	res.Count("ctx_giveups", 1)
	res.NonTrivial = !succeeds && tr.Calls < c.MaxRetries+1
	return res
}

func runElapsed(e *vlib.Env, plan *errPlan) vlib.Result {
	res := vlib.Result{Class: "elapsed"}
	iv2 := time.Duration(e.R.Range(1000, 2000)) * time.Microsecond
	c := cfg{MaxRetries: c12BigMR, Initial: iv2, Max: iv2, Mult: 1, RF: 0, MaxElapsed: time.Duration(e.R.Range(5, 20)) * time.Millisecond, Logger: e.R.Bool()}
	iv := &invocation{name: e.ID() + "-el", forever: true, work: 100 * time.Microsecond}
	iv.errs = plan.script(iv.name)
	h := c.retry(iv.hook).Middleware(iv.handler)
	msg := message.NewMessage(iv.name, e.R.Payload(8))

	// the harness's own control timer of MaxElapsedTime
	lateCh := make(chan time.Duration, 1)
	t0 := time.Now()
	go func() {
		vlib.TimerWait(c.MaxElapsed)
		lateCh <- time.Since(t0) - c.MaxElapsed
	}()
	oc, dump := iv.exec(h, msg, nil)
	total := time.Since(t0)
	late := <-lateCh
	tr := iv.trace()
	res.Sample = map[string]any{"cfg": c, "invocation": tr, "control_timer_late_ns": int64(late), "retry_returned_after_ns": int64(total)}
	res.Sig = vlib.Sig("elapsed", c.Initial, c.MaxElapsed, tr.Calls)
	if !finish(&res, oc, dump, iv, "elapsed") {
		return res
	}
	res.Events += judge(&res, c, iv, expect{class: "elapsed", calls: -1, callsBelow: c.MaxRetries + 1, checkDelay: true, allowStop: true, callsAtLeast: 2, giveUpBudget: c.MaxElapsed})
	if res.Failed() {
		res.Witness = tr
		return res
	}
	if late > 50*time.Millisecond {
		res.Inconclusive("elapsed: the harness's own %v control timer fired %v late", c.MaxElapsed, late)
		return res
	}
	res.Count("invocations", 1)
	res.Count("elapsed_giveups", 1)
	res.NonTrivial = tr.Calls < c.MaxRetries+1 && tr.Calls >= 2
	return res
}

// runConcurrent: a permanently failing message is retried while other messages pass through the SAME wrapped handler.
func runConcurrent(e *vlib.Env, plan *errPlan) vlib.Result {
	res := vlib.Result{Class: "concurrent"}
	c := cfg{MaxRetries: e.R.Range(3, 4), Initial: time.Duration(e.R.Range(8, 12)) * time.Millisecond, Max: time.Second, Mult: 2, RF: 0, Logger: e.R.Bool()}
	a := &invocation{name: e.ID() + "-A", forever: true}
	a.errs = plan.script(a.name)
	var others atomic.Int64
	var stop atomic.Bool
	var seenMu sync.Mutex
	seen := map[string]int{}
	var otherErr error = errors.New("first attempt of another message fails")
	otherKind := ""
	if v, k := plan.single(e.ID()+"-others", message.NewMessage(e.ID()+"-probe", nil)); v != nil {
		otherErr, otherKind = v, k // one immutable value, returned to every other message
	}
	inner := func(msg *message.Message) ([]*message.Message, error) {
		if msg.UUID == a.name {
			return a.handler(msg)
		}
		// the other messages fail once and succeed on their first retry, so each of them starts its own back-off
		seenMu.Lock()
		seen[msg.UUID]++
		first := seen[msg.UUID] == 1
		seenMu.Unlock()
		if first {
			return nil, otherErr
		}
		others.Add(1)
		return nil, nil
	}
	// no OnRetryHook here: its (retryNum, delay) arguments cannot be attributed to a message when several retry at once
	h := c.retry(nil).Middleware(inner)
	gap := time.Duration(e.R.Range(1, 4)) * time.Millisecond
	var feeders sync.WaitGroup
	for f := 0; f < 3; f++ {
		feeders.Add(1)
		go func(f int) {
			defer feeders.Done()
			for i := 0; !stop.Load() && i < 2000; i++ {
				h(message.NewMessage(fmt.Sprintf("%s-other%d.%d", e.ID(), f, i), nil))
				vlib.TimerWait(gap)
			}
		}(f)
	}
	oc, dump := a.exec(h, message.NewMessage(a.name, e.R.Payload(8)), nil)
	stop.Store(true)
	feeders.Wait()
	tr := a.trace()
	res.Sample = map[string]any{"cfg": c, "invocation": tr, "other_messages_through_the_same_handler": others.Load(), "first_attempt_error_of_the_other_messages": otherKind}
	res.Sig = vlib.Sig("concurrent", c.MaxRetries, c.Initial, gap, tr.Calls)
	if !finish(&res, oc, dump, a, "concurrent") {
		return res
	}
	res.Events += judge(&res, c, a, expect{class: "concurrent", calls: c.MaxRetries + 1, checkDelay: true, noHook: true})
	if res.Failed() {
		res.Witness = tr
		return res
	}
	res.Count("invocations", 1)
	res.Count("concurrent_other_messages", int(others.Load()))
	res.NonTrivial = others.Load() >= 3 && tr.Calls >= 3
	return res
}

// insideWaitMaxReps bounds the repetitions of an inside-wait scenario: a violation needs 4 runs with a conclusive third attempt
// (see thirdAttempt) and no run at all in which Retry gave up.
const insideWaitMaxReps = 8

// stallProbe is the harness's own timer, started inside attempt 2 of an inside-wait scenario and set to 3 x Initial, the middle
// of the second wait (6 x Initial) inside which Retry has to notice that its limit has passed. A process that was stalled from
// before the limit until after the end of that wait (then both select branches of Retry are ready and Go picks one at random)
// wakes the probe about 3 x Initial late; such a run does not count as a sighting of a third attempt.
type stallProbe struct {
	d       time.Duration
	started atomic.Bool
	stop    chan struct{}
	done    chan time.Duration
}

func newStallProbe(d time.Duration) *stallProbe {
	return &stallProbe{d: d, stop: make(chan struct{}), done: make(chan time.Duration, 1)}
}

func (p *stallProbe) start() {
	if !p.started.CompareAndSwap(false, true) {
		return
	}
	t0 := time.Now()
	go func() {
		select {
		case <-time.After(p.d):
			p.done <- time.Since(t0) - p.d
		case <-p.stop:
			p.done <- 0
		}
	}()
}

// finish is called after Retry returned. wait (a third attempt was started at least 6 x Initial after the end of attempt 2, so
// the probe's timer, started before the end of attempt 2, is due): the lateness of the probe is awaited and returned.
// Otherwise the probe is stopped and its reading is not used.
func (p *stallProbe) finish(wait bool) time.Duration {
	if !p.started.Load() {
		return 0
	}
	if wait {
		return <-p.done
	}
	close(p.stop)
	<-p.done
	return 0
}

// thirdAttempt judges a run of an inside-wait scenario in which a third attempt was made. Correct code has two ways to get there:
// (1) the process was so slow that the back-off policy's own clock was beyond MaxElapsedTime already when the second wait was
// computed: NextBackOff returns backoff.Stop (-1), the "wait" ends at once, both select branches are ready and Go picks at random.
// Seen from outside: retry 2 starts less than 6 x Initial after the end of attempt 2 and/or OnRetryHook(2) reports -1.
// (2) the full wait of 6 x Initial was made and the process was stalled from the limit to the end of the wait: seen by the probe.
// Only a third attempt that started >= 6 x Initial after the end of attempt 2 (the harness's own measurement, a lower bound of
// Retry's wait), without a reported Stop, in a run that the probe found undisturbed, is a conclusive sighting.
func (iv *invocation) thirdAttempt(res *vlib.Result, ini time.Duration, probe *stallProbe) (conclusive bool) {
	iv.mu.Lock()
	full := len(iv.attempts) >= 3 && iv.attempts[2].start.Sub(iv.attempts[1].end) >= 6*ini
	for _, h := range iv.hooks {
		if h.N == 2 && h.Delay < 6*ini {
			full = false
		}
	}
	iv.mu.Unlock()
	late := probe.finish(full)
	res.Count("elapsed_inside_wait_third_attempt_seen", 1)
	switch {
	case !full:
		res.Count("elapsed_inside_wait_third_attempt_without_full_wait", 1)
		return false
	case late > ini:
		res.Count("elapsed_inside_wait_third_attempt_in_stalled_run", 1)
		return false
	}
	return true
}

const insideWaitInconclusive = "%s: a third attempt was made in all %d runs, but only %d of them were conclusive (in the others the second wait was not the full 6 x Initial - the back-off policy found MaxElapsedTime used up already - or the harness's own 3 x Initial timer, started in attempt 2, fired more than Initial late: stalled process)"

// runElapsedInsideWait: MaxElapsedTime ends inside a back-off wait, far away from both of its ends.
func runElapsedInsideWait(e *vlib.Env, plan *errPlan) vlib.Result {
	res := vlib.Result{Class: "elapsed-inside-wait"}
	ini := time.Duration(e.R.Range(40, 80)) * time.Millisecond
	c := cfg{MaxRetries: 6, Initial: ini, Max: time.Hour, Mult: 6, RF: 0, MaxElapsed: ini + ini/2, Logger: e.R.Bool()}
	// attempts: #1 at 0, #2 after a wait of Initial (< MaxElapsedTime), #3 only after a further wait of 6 x Initial, i.e. not
	// before 7 x Initial = MaxElapsedTime + 5.5 x Initial (>= 220 ms later): Retry has to give up inside that wait.
	// A slow or stalled process can legitimately get to a third attempt (see thirdAttempt), so it is reported only when Retry
	// gave up in no run of the scenario and 4 runs showed a conclusive third attempt.
	var tr trace
	sightings := 0
	for rep := 0; rep < insideWaitMaxReps; rep++ {
		iv := &invocation{name: fmt.Sprintf("%s-eiw%d", e.ID(), rep), forever: true}
		iv.errs = plan.script(iv.name)
		h := c.retry(iv.hook).Middleware(iv.handler)
		probe := newStallProbe(3 * ini)
		iv.onAttemt = func(n int) {
			if n == 2 {
				probe.start()
			}
		}
		oc, dump := iv.exec(h, message.NewMessage(iv.name, nil), nil)
		if oc != vlib.Done || iv.calls() < 3 {
			probe.finish(false)
		}
		tr = iv.trace()
		res.Sample = map[string]any{"cfg": c, "invocation": tr, "repetition": rep}
		res.Sig = vlib.Sig("elapsed-inside-wait", c.Initial, tr.Calls)
		if !finish(&res, oc, dump, iv, "elapsed-inside-wait") {
			return res
		}
		iv.mu.Lock()
		retErr := iv.retErr
		iv.mu.Unlock()
		res.Events += tr.Calls + 1
		if retErr == nil {
			res.Fail("failure-to-success", "[elapsed-inside-wait] every attempt failed but Retry returned a nil error")
			return res
		}
		if tr.Calls <= 2 {
			res.Count("invocations", 1)
			res.Count("elapsed_giveups", 1)
			res.NonTrivial = tr.Calls == 2
			return res
		}
		if !iv.thirdAttempt(&res, ini, probe) {
			continue
		}
		if sightings++; sightings == 4 {
			break
		}
	}
	if sightings < 4 {
		res.Inconclusive(insideWaitInconclusive, "elapsed-inside-wait", insideWaitMaxReps, sightings)
		return res
	}
	res.Fail("elapsed-giveup", "[elapsed-inside-wait Initial=%v Mult=6 MaxElapsedTime=%v] in 4 of 4 runs Retry made %d handler calls: attempt 3 cannot start before 7 x Initial = %v, long after MaxElapsedTime passed, so Retry did not give up when the budget ended inside the wait", c.Initial, c.MaxElapsed, tr.Calls, 7*c.Initial)
	res.Witness = tr
	return res
}

// runCtxZeroWait: zero back-off waits and a context that ends in the first attempt (statistical: see the Rule).
func runCtxZeroWait(e *vlib.Env, plan *errPlan) vlib.Result {
	res := vlib.Result{Class: "ctx-zero-wait"}
	c := cfg{MaxRetries: 8, Initial: 0, Max: 0, Mult: 1, RF: 0, Logger: e.R.Bool()}
	const n = 40
	all, dist := 0, map[int]int{}
	for i := 0; i < n; i++ {
		iv := &invocation{name: fmt.Sprintf("%s-z%d", e.ID(), i), forever: true}
		iv.errs = plan.script(iv.name)
		msg := message.NewMessage(iv.name, nil)
		ctx, cancel := context.WithCancel(context.Background())
		msg.SetContext(ctx)
		iv.onAttemt = func(k int) {
			if k == 1 {
				cancel()
			}
		}
		h := c.retry(iv.hook).Middleware(iv.handler)
		oc, dump := iv.exec(h, msg, nil)
		cancel()
		if !finish(&res, oc, dump, iv, "ctx-zero-wait") {
			return res
		}
		iv.mu.Lock()
		retErr := iv.retErr
		iv.mu.Unlock()
		calls := iv.calls()
		res.Events += calls + 1
		dist[calls]++
		if retErr == nil {
			res.Fail("failure-to-success", "[ctx-zero-wait] every attempt failed but Retry returned a nil error")
			return res
		}
		if calls > c.MaxRetries+1 {
			res.Fail("calls", "[ctx-zero-wait] %d handler calls with MaxRetries %d", calls, c.MaxRetries)
			return res
		}
		if calls == c.MaxRetries+1 {
			all++
		}
	}
	res.Sample = map[string]any{"cfg": c, "messages": n, "handler_calls_distribution": fmt.Sprint(dist)}
	res.Sig = vlib.Sig("ctx-zero-wait", e.Idx, all)
	res.Count("invocations", n)
	res.Count("ctx_zero_wait_messages_using_all_calls", all)
	if all >= 30 {
		res.Fail("ctx-giveup", "[ctx-zero-wait InitialInterval=0 MaxRetries=8] the message context ended in attempt 1 but %d of %d messages were retried all 8 times (calls distribution %v): the context is not consulted when the wait is zero", all, n, dist)
		return res
	}
	res.NonTrivial = true
	return res
}

// ---------------------------------------------------------------------------------------------
// classes added for long-lived middleware instances, re-presented messages and nested Retry

type script struct {
	failN   int
	forever bool
}

func (s script) want(maxRetries int) int {
	if !s.forever && s.failN+1 < maxRetries+1 {
		return s.failN + 1
	}
	return maxRetries + 1
}

// current is the "invocation under observation" of a wrapped handler that is built once and used for many invocations.
type current struct {
	mu sync.Mutex
	iv *invocation
}

func (c *current) get() *invocation { c.mu.Lock(); defer c.mu.Unlock(); return c.iv }
func (c *current) set(iv *invocation) {
	c.mu.Lock()
	c.iv = iv
	c.mu.Unlock()
}
func (c *current) handler(m *message.Message) ([]*message.Message, error) { return c.get().handler(m) }
func (c *current) hook(n int, d time.Duration)                            { c.get().hook(n, d) }

// runLongLived: one Retry.Middleware(h) result serves messages that arrive later than MaxElapsedTime after it was built.
func runLongLived(e *vlib.Env, vi int, plan *errPlan) vlib.Result {
	variants := []string{"reused", "idle-first", "same-message", "slow-first"}
	v := variants[vi%len(variants)]
	res := vlib.Result{Class: "long-lived/" + v}
	ini := time.Duration(e.R.Range(2000, 6000)) * time.Microsecond
	c := cfg{MaxRetries: e.R.Range(2, 4), Initial: ini, Max: 3 * ini, Mult: []float64{1, 1.5, 2}[e.R.Intn(3)],
		MaxElapsed: time.Duration(e.R.Range(120, 250)) * time.Millisecond, Logger: e.R.Bool()}
	if e.R.Bool() {
		c.RF = 0.3 * e.R.Float()
	}
	withHook := e.R.Bool()
	pause := c.MaxElapsed + time.Duration(e.R.Range(10, 60))*time.Millisecond

	var cur current
	var hook func(int, time.Duration)
	if withHook {
		hook = cur.hook
	}
	built := time.Now() // not later than the moment Middleware() runs
	h := c.retry(hook).Middleware(cur.handler)

	scripts := []script{{forever: true}, {failN: e.R.Range(1, c.MaxRetries)}}
	if e.R.Bool() {
		scripts = append(scripts, script{failN: c.MaxRetries})
	}
	order := e.R.Perm(len(scripts))
	type step struct {
		s         script
		pauseFrom bool // the idle pause comes before this message
		slow      bool
	}
	var steps []step
	switch v {
	case "reused", "same-message":
		steps = append(steps, step{s: script{forever: e.R.Bool(), failN: e.R.Range(0, c.MaxRetries)}})
		for i, si := range order {
			steps = append(steps, step{s: scripts[si], pauseFrom: i == 0})
		}
	case "idle-first":
		for i, si := range order {
			steps = append(steps, step{s: scripts[si], pauseFrom: i == 0})
		}
	case "slow-first":
		for _, si := range order[:2] {
			steps = append(steps, step{s: scripts[si], slow: true})
		}
	}
	var shared *message.Message
	if v == "same-message" {
		shared = message.NewMessage(e.ID()+"-shared", e.R.Payload(8))
		if e.R.Bool() {
			ctx, cancel := context.WithCancel(context.Background())
			defer cancel()
			shared.SetContext(ctx)
		}
	}
	var traces []trace
	var sigParts []any
	aged, agedJudged := 0, 0
	for ri, st := range steps {
		if st.pauseFrom {
			vlib.TimerWait(pause)
		}
		iv := &invocation{name: fmt.Sprintf("%s-l%d", e.ID(), ri), failN: st.s.failN, forever: st.s.forever}
		iv.errs = plan.script(iv.name)
		iv.outs = genOuts(e.R, iv.name, c.MaxRetries+2)
		if st.slow {
			d := c.MaxElapsed + time.Duration(e.R.Range(5, 25))*time.Millisecond
			iv.onAttemt = func(n int) {
				if n == 1 {
					vlib.TimerWait(d)
				}
			}
		}
		cur.set(iv)
		msg := shared
		if msg == nil {
			msg = message.NewMessage(iv.name, e.R.Payload(8))
		}
		before := res.Counters["gaps_judged_positive"]
		oc, dump := iv.exec(h, msg, nil)
		traces = append(traces, iv.trace())
		if !finish(&res, oc, dump, iv, v+"/"+iv.script()) {
			break
		}
		res.Events += judge(&res, c, iv, expect{class: "long-lived/" + v, calls: st.s.want(c.MaxRetries), checkDelay: true, noHook: !withHook, ownBudget: c.MaxElapsed, ctxIntact: true})
		sigParts = append(sigParts, iv.script(), iv.calls())
		if res.Failed() {
			res.Witness = map[string]any{"trace": iv.trace(), "middleware_age_at_first_failure_ns": int64(iv.firstEnd().Sub(built)), "max_elapsed_ns": int64(c.MaxElapsed)}
			break
		}
		if iv.calls() >= 2 && iv.firstEnd().Sub(built) > c.MaxElapsed {
			aged++
			if res.Counters["gaps_judged_positive"] > before {
				agedJudged++
			}
		}
	}
	res.Count("invocations", len(traces))
	res.Count("long_lived_messages_after_max_elapsed", aged)
	res.NonTrivial = agedJudged > 0
	res.Sig = vlib.Sig("long-lived", v, c.MaxRetries, c.Initial, c.Mult, c.RF, c.MaxElapsed, withHook, sigParts)
	res.Sample = map[string]any{"cfg": c, "variant": v, "hook": withHook, "idle_pause_ns": int64(pause), "invocations": traces}
	return res
}

func (iv *invocation) firstEnd() time.Time {
	iv.mu.Lock()
	defer iv.mu.Unlock()
	if len(iv.attempts) == 0 {
		return time.Time{}
	}
	return iv.attempts[0].end
}

// runRedeliver: the same *message.Message is presented again and again to wrapped Retry handlers.
func runRedeliver(e *vlib.Env, plan *errPlan) vlib.Result {
	res := vlib.Result{Class: "redeliver"}
	c := genCfg(e.R)
	switch e.R.Intn(3) {
	case 0:
		c.MaxElapsed = hour
	case 1:
		c.MaxElapsed = time.Duration(e.R.Range(5, 30)) * time.Second
	}
	cB := c
	if c.MaxElapsed > 0 {
		cB.MaxElapsed = 0
	} else {
		cB.MaxElapsed = hour
	}
	var cur current
	hs := []message.HandlerFunc{c.retry(cur.hook).Middleware(cur.handler), cB.retry(cur.hook).Middleware(cur.handler)}
	cfgs := []cfg{c, cB}

	scripts := []script{{forever: true}, {failN: c.MaxRetries}, {failN: e.R.Range(1, c.MaxRetries)}, {failN: e.R.Range(1, c.MaxRetries)}}
	if e.R.Intn(3) == 0 {
		scripts = append(scripts, script{failN: 0})
	}
	if e.R.Bool() {
		scripts = append(scripts, script{forever: true})
	}
	order := e.R.Perm(len(scripts))

	msg := message.NewMessage(e.ID()+"-m", e.R.Payload(8))
	ctxKind := "background"
	if e.R.Bool() {
		ctxKind = "cancelable"
		ctx, cancel := context.WithCancel(context.Background())
		defer cancel() // after the last judgement
		msg.SetContext(ctx)
	}
	var traces []trace
	var sigParts []any
	failedBefore, retriedAfterFailure := false, 0
	for ri, si := range order {
		s := scripts[si]
		iv := &invocation{name: fmt.Sprintf("%s-d%d", e.ID(), ri), failN: s.failN, forever: s.forever}
		iv.errs = plan.script(iv.name)
		iv.outs = genOuts(e.R, iv.name, c.MaxRetries+2)
		cur.set(iv)
		which := 0
		if e.R.Intn(10) < 3 {
			which = 1
		}
		oc, dump := iv.exec(hs[which], msg, nil)
		traces = append(traces, iv.trace())
		if !finish(&res, oc, dump, iv, iv.script()) {
			break
		}
		res.Events += judge(&res, cfgs[which], iv, expect{class: fmt.Sprintf("redeliver delivery=%d", ri+1), calls: s.want(c.MaxRetries), checkDelay: true, ctxIntact: true, ownBudget: cfgs[which].MaxElapsed})
		sigParts = append(sigParts, iv.script(), which, iv.calls())
		if res.Failed() {
			res.Witness = map[string]any{"trace": iv.trace(), "earlier_deliveries_of_the_same_message": traces[:len(traces)-1]}
			break
		}
		if failedBefore && iv.calls() >= 2 {
			retriedAfterFailure++
		}
		if s.forever || s.failN > 0 {
			failedBefore = true
		}
	}
	res.Count("invocations", len(traces))
	res.Count("redeliveries_retried_after_failed_delivery", retriedAfterFailure)
	res.NonTrivial = retriedAfterFailure > 0
	res.Sig = vlib.Sig("redeliver", c.MaxRetries, c.Initial, c.Max, c.Mult, c.RF, c.MaxElapsed, ctxKind, sigParts)
	res.Sample = map[string]any{"cfg": c, "message_context": ctxKind, "deliveries": traces}
	return res
}

func genNestedCfg(r *vlib.Rand) cfg {
	c := cfg{MaxRetries: r.Range(1, 4), Logger: r.Bool()}
	if r.Intn(6) != 0 {
		c.Initial = time.Duration(r.Range(100, 2000)) * time.Microsecond
	}
	c.Mult = []float64{1, 2, 1 + 2*r.Float()}[r.Intn(3)]
	c.Max = c.Initial + time.Duration(r.Range(0, 3000000))
	if r.Bool() {
		c.RF = 0.5 * r.Float()
	}
	return c
}

// runNested: outer Retry around inner Retry around the scripted handler.
func runNested(e *vlib.Env, plan *errPlan) vlib.Result {
	res := vlib.Result{Class: "nested"}
	co, ci := genNestedCfg(e.R), genNestedCfg(e.R)
	if e.R.Intn(3) != 0 {
		ci.MaxElapsed = hour
	}
	if e.R.Intn(3) == 0 {
		co.MaxElapsed = hour
	}
	per := ci.MaxRetries + 1
	total := per * (co.MaxRetries + 1)
	// the handler succeeds at global attempt g (g > total: never within this call)
	g := total + 1
	switch e.R.Intn(4) {
	case 0:
		g = e.R.Range(per+1, total) // some outer retry succeeds
	case 1:
		g = e.R.Range(1, total)
	}
	name := e.ID() + "-n"
	outs := genOuts(e.R, name, total)

	var cur current // the inner run under observation
	var inners []*invocation
	var innersMu sync.Mutex
	innerH := ci.retry(cur.hook).Middleware(cur.handler)
	outer := &invocation{name: name + "-outer"}
	outer.delegate = func(t int, msg *message.Message) ([]*message.Message, error) {
		// inner run t covers the global attempts (t-1)*per+1 .. t*per
		iv := &invocation{name: fmt.Sprintf("%s-inner%d", name, t), forever: true}
		iv.errs = plan.script(iv.name)
		lo := (t - 1) * per
		if g > lo && g <= lo+per {
			iv.forever, iv.failN = false, g-lo-1
		}
		if lo < len(outs) {
			iv.outs = outs[lo:]
		}
		innersMu.Lock()
		inners = append(inners, iv)
		innersMu.Unlock()
		cur.set(iv)
		return iv.call(innerH, msg)
	}
	h := co.retry(outer.hook).Middleware(outer.handler)
	msg := message.NewMessage(name, e.R.Payload(8))
	ctxKind := "background"
	if e.R.Bool() {
		ctxKind = "cancelable"
		ctx, cancel := context.WithCancel(context.Background())
		defer cancel()
		msg.SetContext(ctx)
	}
	oc, dump := outer.exec(h, msg, nil)
	innersMu.Lock()
	ins := append([]*invocation(nil), inners...)
	innersMu.Unlock()
	otr := outer.trace()
	otr.Script = fmt.Sprintf("inner chain; handler succeeds at global attempt %d of at most %d", g, total)
	if g > total {
		otr.Script = fmt.Sprintf("inner chain; handler fails forever (at most %d attempts)", total)
	}
	var itr []trace
	handlerRuns := 0
	for i, iv := range ins {
		handlerRuns += iv.calls()
		if i < 4 {
			itr = append(itr, iv.trace())
		}
	}
	res.Sample = map[string]any{"outer_cfg": co, "inner_cfg": ci, "message_context": ctxKind, "outer": otr, "inner_runs": itr, "handler_runs": handlerRuns}
	res.Sig = vlib.Sig("nested", co.MaxRetries, ci.MaxRetries, co.Initial, ci.Initial, co.MaxElapsed, ci.MaxElapsed, g, otr.Calls, handlerRuns)
	if !finish(&res, oc, dump, outer, "nested") {
		return res
	}
	// inner runs first (they happened first), then the outer level
	for t, iv := range ins {
		s := script{forever: iv.forever, failN: iv.failN}
		res.Events += judge(&res, ci, iv, expect{class: fmt.Sprintf("nested inner-run=%d", t+1), calls: s.want(ci.MaxRetries), checkDelay: true, ctxIntact: true})
		if res.Failed() {
			res.Witness = map[string]any{"outer": otr, "inner_run": iv.trace()}
			return res
		}
	}
	wantOuter := co.MaxRetries + 1
	if g <= total {
		wantOuter = (g + per - 1) / per
	}
	res.Events += judge(&res, co, outer, expect{class: "nested outer", calls: wantOuter, checkDelay: true, ctxIntact: true})
	if res.Failed() {
		res.Witness = map[string]any{"outer": otr, "inner_runs": itr, "handler_runs": handlerRuns, "expected_handler_runs": minInt(g, total)}
		return res
	}
	if want := minInt(g, total); handlerRuns != want {
		res.Fail("calls", "[nested outer MaxRetries=%d inner MaxRetries=%d, success at global attempt %d] expected %d handler runs, observed %d", co.MaxRetries, ci.MaxRetries, g, want, handlerRuns)
		res.Witness = map[string]any{"outer": otr, "inner_runs": itr}
		return res
	}
	res.Count("invocations", 1+len(ins))
	res.Count("nested_handler_runs", handlerRuns)
	res.NonTrivial = otr.Calls >= 2 && len(ins) >= 2 && ins[0].calls() >= 2
	return res
}

func minInt(a, b int) int {
	if a < b {
		return a
	}
	return b
}

// ---------------------------------------------------------------------------------------------
// classes msgctx/*: the message's own context carries a deadline and/or values

type ctxKey struct{ id string }

// msgCtx is a message context built by the harness. The harness never ends it before the judgement (release is deferred).
type msgCtx struct {
	desc     string
	ctx      context.Context
	deadline time.Duration // as configured, relative to the creation of the context; 0: no deadline
	key      any           // != nil: ctx.Value(key) == val
	val      string
	cancels  []context.CancelFunc
	seen     *atomic.Int64 // attempts in which msg.Context().Value(key) == val
	missing  *atomic.Int64
}

func (mc *msgCtx) release() {
	for i := len(mc.cancels) - 1; i >= 0; i-- {
		mc.cancels[i]()
	}
}

// look is called inside an attempt: is the value of the caller's context visible through the message?
func (mc *msgCtx) look(msg *message.Message) {
	if mc.key == nil {
		return
	}
	if v, _ := msg.Context().Value(mc.key).(string); v == mc.val {
		mc.seen.Add(1)
	} else {
		mc.missing.Add(1)
	}
}

func (mc *msgCtx) count(res *vlib.Result) {
	res.Count("msgctx_value_seen", int(mc.seen.Load()))
	res.Count("msgctx_value_missing", int(mc.missing.Load()))
}

const msgCtxFlavours = 42 // a multiple of both flavour counts (7 with a deadline, 6 without)

// mkMsgCtx builds a message context with deadline d after now (d == 0: without a deadline) in one of several shapes.
func mkMsgCtx(flavour int, d time.Duration, id string) *msgCtx {
	mc := &msgCtx{deadline: d, seen: new(atomic.Int64), missing: new(atomic.Int64)}
	bg := context.Background()
	withValue := func(p context.Context) context.Context {
		mc.key, mc.val = ctxKey{id}, "value-of-"+id
		return context.WithValue(p, mc.key, mc.val)
	}
	withCancel := func(p context.Context) context.Context {
		c, cancel := context.WithCancel(p)
		mc.cancels = append(mc.cancels, cancel)
		return c
	}
	withTimeout := func(p context.Context, d time.Duration) context.Context {
		c, cancel := context.WithTimeout(p, d)
		mc.cancels = append(mc.cancels, cancel)
		return c
	}
	if d > 0 {
		switch flavour % 7 {
		case 0:
			mc.desc, mc.ctx = "WithTimeout", withTimeout(bg, d)
		case 1:
			c, cancel := context.WithDeadline(bg, time.Now().Add(d))
			mc.cancels = append(mc.cancels, cancel)
			mc.desc, mc.ctx = "WithDeadline", c
		case 2:
			mc.desc, mc.ctx = "WithValue(WithTimeout)", withValue(withTimeout(bg, d))
		case 3:
			mc.desc, mc.ctx = "WithTimeout(WithValue)", withTimeout(withValue(bg), d)
		case 4:
			mc.desc, mc.ctx = "WithCancel(WithTimeout)", withCancel(withTimeout(bg, d))
		case 5:
			mc.desc, mc.ctx = "WithTimeout(WithCancel)", withTimeout(withCancel(bg), d)
		default:
			mc.desc, mc.ctx = "WithTimeout(WithTimeout(d), d+1h)", withTimeout(withTimeout(bg, d), d+hour)
		}
		return mc
	}
	switch flavour % 6 {
	case 0:
		mc.desc, mc.ctx = "Background", bg
	case 1:
		mc.desc, mc.ctx = "WithCancel", withCancel(bg)
	case 2:
		mc.desc, mc.ctx = "WithValue", withValue(bg)
	case 3:
		mc.desc, mc.ctx = "WithValue(WithCancel)", withValue(withCancel(bg))
	case 4:
		p, cancel := context.WithCancel(bg)
		cancel()
		mc.desc, mc.ctx = "WithoutCancel(cancelled)", context.WithoutCancel(p)
	default:
		p, cancel := context.WithCancel(withValue(bg))
		cancel()
		mc.desc, mc.ctx = "WithoutCancel(cancelled WithValue)", context.WithoutCancel(p)
	}
	return mc
}

func pickElapsed(r *vlib.Rand) time.Duration {
	switch r.Intn(3) {
	case 0:
		return 0
	case 1:
		return hour
	}
	return time.Duration(r.Range(5, 30)) * time.Second
}

// runMsgCtxElapsed: class elapsed with a message context of its own: MaxElapsedTime (kinds far, later, none) or the sooner
// message deadline (kinds sooner*) has to end the retries; using all 2001 calls needs 2000 waits of >= 1 ms.
func runMsgCtxElapsed(e *vlib.Env, vi int, plan *errPlan) vlib.Result {
	kinds := []string{"far", "later", "none", "sooner", "sooner-1h", "sooner-near"}
	kind := kinds[vi%len(kinds)]
	res := vlib.Result{Class: "msgctx/elapsed/" + kind}
	ival := time.Duration(e.R.Range(1000, 2000)) * time.Microsecond
	lim := time.Duration(e.R.Range(5, 20)) * time.Millisecond
	c := cfg{MaxRetries: c12BigMR, Initial: ival, Max: ival, Mult: 1, RF: 0, MaxElapsed: lim, Logger: e.R.Bool()}
	var d time.Duration
	sooner := false
	switch kind {
	case "far":
		d = time.Duration(e.R.Range(60, 180)) * time.Minute
	case "later":
		d = lim + time.Duration(e.R.Range(60, 300))*time.Second
	case "sooner":
		d, sooner, c.MaxElapsed = lim, true, lim+time.Duration(e.R.Range(10, 30))*time.Second
	case "sooner-1h":
		d, sooner, c.MaxElapsed = lim, true, hour
	case "sooner-near":
		d, sooner, c.MaxElapsed = lim, true, lim+time.Duration(e.R.Range(1, 5))*time.Millisecond
	}
	flavour := e.R.Intn(msgCtxFlavours)
	iv := &invocation{name: e.ID() + "-mce", forever: true, work: 100 * time.Microsecond}
	iv.errs = plan.script(iv.name)
	h := c.retry(iv.hook).Middleware(iv.handler)
	msg := message.NewMessage(iv.name, e.R.Payload(8))
	mc := mkMsgCtx(flavour, d, e.ID())
	defer mc.release()
	msg.SetContext(mc.ctx)
	iv.onAttemt = func(int) { mc.look(msg) }

	oc, dump := iv.exec(h, msg, nil)
	tr := iv.trace()
	res.Sample = map[string]any{"cfg": c, "kind": kind, "message_context": mc.desc, "message_deadline_ns": int64(d), "invocation": tr}
	res.Sig = vlib.Sig("msgctx/elapsed", kind, mc.desc, c.Initial, c.MaxElapsed, d, tr.Calls)
	if !finish(&res, oc, dump, iv, res.Class) {
		return res
	}
	res.Events += judge(&res, c, iv, expect{class: res.Class, calls: -1, callsBelow: c.MaxRetries + 1, checkDelay: true, allowStop: true,
		ctxClause: sooner, ctxIntact: !sooner, msgCtx: mc.desc, msgDeadline: d, callsAtLeast: 2, giveUpBudget: c.MaxElapsed})
	mc.count(&res)
	if res.Failed() {
		res.Witness = map[string]any{"trace": tr, "message_context": mc.desc, "message_deadline_ns": int64(d)}
		return res
	}
	res.Count("invocations", 1)
	if tr.Calls < c.MaxRetries+1 {
		if sooner {
			res.Count("msgctx_giveups_at_sooner_message_deadline", 1)
		} else if d > 0 {
			res.Count("msgctx_elapsed_giveups_with_later_message_deadline", 1)
		} else {
			res.Count("elapsed_giveups", 1)
		}
	}
	res.NonTrivial = tr.Calls < c.MaxRetries+1 && tr.Calls >= 2
	return res
}

// runMsgCtxInsideWait: class elapsed-inside-wait with a message context of its own. The limit that ends first (MaxElapsedTime for
// the kinds far, later, none; the message deadline for kind sooner) ends inside the second wait, 5.5 x Initial before its end.
func runMsgCtxInsideWait(e *vlib.Env, vi int, plan *errPlan) vlib.Result {
	kinds := []string{"far", "later", "sooner", "none"}
	kind := kinds[vi%len(kinds)]
	res := vlib.Result{Class: "msgctx/inside-wait/" + kind}
	ini := time.Duration(e.R.Range(40, 80)) * time.Millisecond
	first := ini + ini/2
	c := cfg{MaxRetries: 6, Initial: ini, Max: time.Hour, Mult: 6, RF: 0, MaxElapsed: first, Logger: e.R.Bool()}
	var d time.Duration
	sooner := false
	switch kind {
	case "far":
		d = time.Duration(e.R.Range(60, 180)) * time.Minute
	case "later":
		d = first + time.Duration(e.R.Range(60, 300))*time.Second
	case "sooner":
		d, sooner = first, true
		switch e.R.Intn(3) {
		case 0:
			c.MaxElapsed = hour
		case 1:
			c.MaxElapsed = first + time.Duration(e.R.Range(10, 30))*time.Second
		default:
			c.MaxElapsed = 3 * ini
		}
	}
	flavour := e.R.Intn(msgCtxFlavours)
	var tr trace
	desc := ""
	sightings := 0
	for rep := 0; rep < insideWaitMaxReps; rep++ {
		// attempts 1 and 2 fail; a third attempt (which a correct Retry never makes here) succeeds, so that a Retry that ignores
		// the limit returns right after it instead of going on with waits of 36 x, 216 x ... Initial
		iv := &invocation{name: fmt.Sprintf("%s-mcw%d", e.ID(), rep), failN: 2}
		iv.errs = plan.script(iv.name)
		h := c.retry(iv.hook).Middleware(iv.handler)
		msg := message.NewMessage(iv.name, nil)
		mc := mkMsgCtx(flavour, d, iv.name)
		desc = mc.desc
		msg.SetContext(mc.ctx)
		probe := newStallProbe(3 * ini)
		iv.onAttemt = func(n int) {
			mc.look(msg)
			if n == 2 {
				probe.start()
			}
		}
		oc, dump := iv.exec(h, msg, nil)
		if oc != vlib.Done || iv.calls() < 3 {
			probe.finish(false)
		}
		mc.release()
		mc.count(&res)
		tr = iv.trace()
		res.Sample = map[string]any{"cfg": c, "kind": kind, "message_context": mc.desc, "message_deadline_ns": int64(d), "invocation": tr, "repetition": rep}
		res.Sig = vlib.Sig("msgctx/inside-wait", kind, mc.desc, c.Initial, c.MaxElapsed, tr.Calls)
		if !finish(&res, oc, dump, iv, res.Class) {
			return res
		}
		iv.mu.Lock()
		retErr := iv.retErr
		var lastErr error
		if n := len(iv.attempts); n > 0 {
			lastErr = iv.attempts[n-1].err
		}
		iv.mu.Unlock()
		res.Events += tr.Calls + 1
		if retErr == nil && tr.Calls <= 2 {
			res.Fail("failure-to-success", "[%s] every attempt failed but Retry returned a nil error", res.Class)
			return res
		}
		if tr.Calls <= 2 && lastErr != nil && !sameErr(retErr, lastErr) && !errors.Is(retErr, lastErr) {
			res.Fail("last-error", "[%s] last attempt (%d) failed with %q but Retry returned %q", res.Class, tr.Calls, errText(lastErr), errText(retErr))
			res.Witness = tr
			return res
		}
		if tr.Calls <= 2 {
			res.Count("invocations", 1)
			if sooner {
				res.Count("msgctx_giveups_at_sooner_message_deadline", 1)
			} else if d > 0 {
				res.Count("msgctx_elapsed_giveups_with_later_message_deadline", 1)
			} else {
				res.Count("elapsed_giveups", 1)
			}
			res.NonTrivial = tr.Calls == 2
			return res
		}
		if !iv.thirdAttempt(&res, ini, probe) {
			continue
		}
		if sightings++; sightings == 4 {
			break
		}
	}
	if sightings < 4 {
		res.Inconclusive(insideWaitInconclusive, res.Class, insideWaitMaxReps, sightings)
		return res
	}
	if sooner {
		res.Fail("ctx-giveup", "[%s Initial=%v Mult=6 MaxElapsedTime=%v message context %s with a deadline %v after its creation] in 4 of 4 runs Retry made %d handler calls: attempt 3 cannot start before 7 x Initial = %v, long after the message deadline passed, so Retry did not give up when the message context ended inside the wait",
			res.Class, c.Initial, c.MaxElapsed, desc, d, tr.Calls, 7*c.Initial)
	} else {
		res.Fail("elapsed-giveup", "[%s Initial=%v Mult=6 MaxElapsedTime=%v message context %s, deadline %v after its creation (0: none)] in 4 of 4 runs Retry made %d handler calls: attempt 3 cannot start before 7 x Initial = %v, long after MaxElapsedTime passed, so Retry did not give up when the budget ended inside the wait",
			res.Class, c.Initial, c.MaxElapsed, desc, d, tr.Calls, 7*c.Initial)
	}
	res.Witness = tr
	return res
}

// runMsgCtxDeadlineInWait: the message deadline (1..5 ms) ends inside a 1 h back-off wait, with every relation to MaxElapsedTime.
func runMsgCtxDeadlineInWait(e *vlib.Env, vi int, plan *errPlan) vlib.Result {
	kinds := []string{"E=0", "E=1h", "E=D+10..30s", "E=2..4xD"}
	kind := kinds[vi%len(kinds)]
	res := vlib.Result{Class: "msgctx/deadline-in-wait/" + kind}
	d := time.Duration(e.R.Range(1000, 5000)) * time.Microsecond
	c := cfg{MaxRetries: e.R.Range(1, 8), Initial: hour, Max: hour, Mult: 1 + 2*e.R.Float(), RF: 0.5 * e.R.Float(), Logger: e.R.Bool()}
	switch kind {
	case "E=1h":
		c.MaxElapsed = hour
	case "E=D+10..30s":
		c.MaxElapsed = d + time.Duration(e.R.Range(10, 30))*time.Second
	case "E=2..4xD":
		c.MaxElapsed = d * time.Duration(e.R.Range(2, 4))
	}
	flavour := e.R.Intn(msgCtxFlavours)
	iv := &invocation{name: e.ID() + "-mcd", forever: true}
	iv.errs = plan.script(iv.name)
	iv.outs = genOuts(e.R, iv.name, 3)
	h := c.retry(iv.hook).Middleware(iv.handler)
	msg := message.NewMessage(iv.name, e.R.Payload(8))
	mc := mkMsgCtx(flavour, d, e.ID())
	defer mc.release()
	msg.SetContext(mc.ctx)
	var a1 atomic.Bool
	iv.onAttemt = func(int) { mc.look(msg); a1.Store(true) }
	dctx := mc.ctx
	// armed: the harness's own context has ended (so the deadline, invisible to the detector, is no longer pending) and attempt 1 was made
	oc, dump := iv.exec(h, msg, func() bool { return a1.Load() && dctx.Err() != nil })
	tr := iv.trace()
	res.Sample = map[string]any{"cfg": c, "kind": kind, "message_context": mc.desc, "message_deadline_ns": int64(d), "invocation": tr}
	res.Sig = vlib.Sig("msgctx/deadline-in-wait", kind, mc.desc, c.MaxRetries, c.MaxElapsed, tr.Calls)
	mc.count(&res)
	switch oc {
	case vlib.Stuck:
		res.Fail("ctx-giveup", "[%s cfg={MaxRetries:%d Initial:%v Max:%v Mult:%v RF:%v MaxElapsed:%v} message context %s with a deadline %v after its creation] the message context ended, yet Retry did not return: it sits in its back-off wait (process quiescent) after %d handler calls",
			res.Class, c.MaxRetries, c.Initial, c.Max, c.Mult, c.RF, c.MaxElapsed, mc.desc, d, iv.calls())
		res.Witness = map[string]any{"trace": tr, "goroutines": dump}
		return res
	case vlib.Inconclusive:
		res.Inconclusive("%s: Retry did not return before the watchdog", res.Class)
		return res
	}
	res.Events += judge(&res, c, iv, expect{class: res.Class, calls: 1, checkDelay: true, ctxClause: true, msgCtx: mc.desc, msgDeadline: d})
	if res.Failed() {
		res.Witness = tr
		return res
	}
	res.Count("invocations", 1)
	res.Count("msgctx_giveups_at_sooner_message_deadline", 1)
	res.NonTrivial = tr.Calls == 1
	return res
}

// runMsgCtxSchedule: class schedule on messages whose context carries a deadline far beyond the case (or none, in odd shapes).
func runMsgCtxSchedule(e *vlib.Env, vi int, plan *errPlan) vlib.Result {
	kinds := []string{"far", "between", "later-sec", "none"}
	kind := kinds[vi%len(kinds)]
	res := vlib.Result{Class: "msgctx/schedule/" + kind}
	c := genCfg(e.R)
	var d time.Duration
	switch kind {
	case "far":
		c.MaxElapsed = pickElapsed(e.R)
		d = time.Duration(e.R.Range(120, 180)) * time.Minute
	case "between":
		c.MaxElapsed = hour
		d = time.Duration(e.R.Range(20, 40)) * time.Minute
	case "later-sec":
		c.MaxElapsed = time.Duration(e.R.Range(5, 30)) * time.Second
		d = c.MaxElapsed + time.Duration(e.R.Range(60, 300))*time.Second
	default:
		c.MaxElapsed = pickElapsed(e.R)
	}
	flavour := e.R.Intn(msgCtxFlavours)
	oneCtx := e.R.Bool() // one context (and one message) for all invocations, or a fresh one for each

	var cur current
	h := c.retry(cur.hook).Middleware(cur.handler)
	scripts := []script{{forever: true}, {failN: c.MaxRetries}, {failN: e.R.Intn(c.MaxRetries)}}
	if e.R.Intn(4) == 0 {
		scripts = append(scripts, script{failN: 0})
	}
	order := e.R.Perm(len(scripts))
	var shared *msgCtx
	var sharedMsg *message.Message
	if oneCtx {
		shared = mkMsgCtx(flavour, d, e.ID())
		defer shared.release()
		sharedMsg = message.NewMessage(e.ID()+"-shared", e.R.Payload(8))
		sharedMsg.SetContext(shared.ctx)
	}
	var traces []trace
	var sigParts []any
	retries, desc := 0, ""
	for ri, si := range order {
		s := scripts[si]
		iv := &invocation{name: fmt.Sprintf("%s-s%d", e.ID(), ri), failN: s.failN, forever: s.forever}
		iv.errs = plan.script(iv.name)
		iv.outs = genOuts(e.R, iv.name, c.MaxRetries+3)
		mc, msg := shared, sharedMsg
		if mc == nil {
			mc = mkMsgCtx(flavour, d, iv.name)
			defer mc.release()
			msg = message.NewMessage(iv.name, e.R.Payload(8))
			msg.SetContext(mc.ctx)
		}
		desc = mc.desc
		iv.onAttemt = func(int) { mc.look(msg) }
		cur.set(iv)
		oc, dump := iv.exec(h, msg, nil)
		traces = append(traces, iv.trace())
		if !finish(&res, oc, dump, iv, iv.script()) {
			break
		}
		if err := mc.ctx.Err(); err != nil {
			res.Inconclusive("%s: the harness's own message context (%s, deadline %v) has ended (%v) before the judgement", res.Class, mc.desc, d, err)
			break
		}
		res.Events += judge(&res, c, iv, expect{class: res.Class, calls: s.want(c.MaxRetries), checkDelay: true, ctxIntact: true, ownBudget: c.MaxElapsed, msgCtx: mc.desc, msgDeadline: d})
		sigParts = append(sigParts, iv.script(), iv.calls())
		retries += iv.calls() - 1
		if res.Failed() {
			res.Witness = map[string]any{"trace": iv.trace(), "message_context": mc.desc, "message_deadline_ns": int64(d)}
			break
		}
		if mc != shared {
			mc.count(&res)
		}
	}
	if shared != nil {
		shared.count(&res)
	}
	res.Count("invocations", len(traces))
	res.NonTrivial = retries > 0 && res.Counters["hook_delays_judged"] > 0 && res.Counters["gaps_judged_positive"] > 0
	res.Sig = vlib.Sig("msgctx/schedule", kind, desc, oneCtx, c.MaxRetries, c.Initial, c.Max, c.Mult, c.RF, c.MaxElapsed, d, sigParts)
	res.Sample = map[string]any{"cfg": c, "kind": kind, "message_context": desc, "message_deadline_ns": int64(d), "one_context_for_all": oneCtx, "invocations": traces}
	return res
}
