package c12

// Class family errval/*: "the error VALUE must not matter".
//
// The statement speaks about attempts that FAIL (the handler returned a non-nil error) and gives Retry exactly two reasons to
// give up before MaxRetries: the MESSAGE CONTEXT ended, or MaxElapsedTime passed. Neither depends on what the error value is,
// wraps, prints or compares to. The cases of this family run the workloads of the other classes with handler errors drawn from
// a pool of values that a "smart" Retry could be tempted to look at (context.Canceled / context.DeadlineExceeded bare and
// wrapped, the error of a per-call sub-context of a live message context, *backoff.PermanentError, io.EOF, errors with an empty
// text, non-comparable error values, a typed nil pointer in a non-nil interface, an error whose Is method matches every target,
// net.Error-like values, ...) and judge them with the unchanged oracle.

import (
	"context"
	"errors"
	"fmt"
	"io"
	"os"
	"reflect"
	"sort"
	"strings"
	"sync"
	"time"

	"github.com/cenkalti/backoff/v3"
	multierror "github.com/hashicorp/go-multierror"
	pkgerrors "github.com/pkg/errors"

	"github.com/ThreeDotsLabs/watermill/message"

	"verifharness/vlib"
)

const (
	// appended after the msgctx cases (idx >= 960 quick / 64500 thorough), q = idx-base, slot = q%16:
	// 0..4 schedule, 5 ctx/*, 6 redeliver, 7 nested, 8 long-lived/*, 9 msgctx/schedule/*, 10 elapsed | msgctx/elapsed/*,
	// 11 msgctx/deadline-in-wait/*, 12 concurrent, 13 elapsed-inside-wait | msgctx/inside-wait/*, 14 ctx-zero-wait, 15 redeliver | nested
	c12QuickErrVal    = 480
	c12ThoroughErrVal = 9600
	c12ErrValStride   = 16
)

// ---------------------------------------------------------------------------------------------
// error types of the pool

// identified is implemented by the pool's non-comparable error types: two values are "the same value" iff they have the same
// dynamic type and the same id (interface comparison would panic for them, errors.Is never matches them).
type identified interface{ ident() string }

// emptyErr: Error() returns the empty string.
type emptyErr struct{ id string }

func (e *emptyErr) Error() string { return "" }

// sliceErr is a non-comparable error value (slice type used by value).
type sliceErr []string

func (e sliceErr) Error() string { return "non-comparable slice error " + e.ident() }
func (e sliceErr) ident() string {
	if len(e) == 0 {
		return ""
	}
	return e[0]
}

// funcFieldErr is a non-comparable error value (struct used by value with a func and a map field).
type funcFieldErr struct {
	id   string
	f    func() string
	tags map[string]string
}

func (e funcFieldErr) Error() string { return "non-comparable struct error " + e.id }
func (e funcFieldErr) ident() string { return e.id }

// nilPtrErr is used as a typed nil pointer: (*nilPtrErr)(nil) in an error interface is a NON-nil error, i.e. a failed attempt
// (checked against the unchanged Retry: 4 calls / 3 hooks with MaxRetries 3, with and without a Logger).
type nilPtrErr struct{ s string }

func (e *nilPtrErr) Error() string {
	if e == nil {
		return "typed nil *nilPtrErr"
	}
	return e.s
}

// greedyErr matches every target of errors.Is.
type greedyErr struct{ id string }

func (e *greedyErr) Error() string   { return "error whose Is() matches everything " + e.id }
func (e *greedyErr) Is(error) bool   { return true }
func (e *greedyErr) Timeout() bool   { return false }
func (e *greedyErr) Temporary() bool { return true }

// netLikeErr looks like a net.Error.
type netLikeErr struct {
	id                 string
	timeout, temporary bool
}

func (e *netLikeErr) Error() string {
	return fmt.Sprintf("net-like error %s timeout=%v temporary=%v", e.id, e.timeout, e.temporary)
}
func (e *netLikeErr) Timeout() bool   { return e.timeout }
func (e *netLikeErr) Temporary() bool { return e.temporary }

// unwrapErr is a custom wrapper type (Unwrap method, no fmt / pkg/errors involved).
type unwrapErr struct {
	id    string
	inner error
}

func (e *unwrapErr) Error() string { return "custom wrapper " + e.id + ": " + e.inner.Error() }
func (e *unwrapErr) Unwrap() error { return e.inner }

// sameErr: is a the very value b? Never panics (non-comparable dynamic types are compared by type and id).
func sameErr(a, b error) (same bool) {
	if ia, ok := a.(identified); ok {
		ib, ok := b.(identified)
		return ok && reflect.TypeOf(a) == reflect.TypeOf(b) && ia.ident() == ib.ident()
	}
	defer func() {
		if recover() != nil {
			same = false
		}
	}()
	return a == b
}

// errText is err.Error() that survives an Error method that panics.
func errText(err error) (s string) {
	if err == nil {
		return "<nil>"
	}
	defer func() {
		if r := recover(); r != nil {
			s = fmt.Sprintf("<%T: Error() panicked: %v>", err, r)
		}
	}()
	return err.Error()
}

// ---------------------------------------------------------------------------------------------
// the pool

type errKind struct {
	name  string
	group string // counter group
	mk    func(r *vlib.Rand, tag string, msg *message.Message) error
}

func ctxSentinel(r *vlib.Rand) error {
	if r.Bool() {
		return context.Canceled
	}
	return context.DeadlineExceeded
}

func sentinelName(err error) string {
	if err == context.Canceled {
		return "context.Canceled"
	}
	return "context.DeadlineExceeded"
}

// errPoolFirstSpecial: the kinds before this index form the group "plain".
const errPoolFirstSpecial = 2

var errPool = []errKind{
	{"attemptErr", "plain", func(r *vlib.Rand, tag string, _ *message.Message) error { return &attemptErr{run: tag, n: 0} }},
	{"errors.New", "plain", func(r *vlib.Rand, tag string, _ *message.Message) error { return errors.New("failed " + tag) }},
	{"context.Canceled", "ctx_sentinel", func(*vlib.Rand, string, *message.Message) error { return context.Canceled }},
	{"context.DeadlineExceeded", "ctx_sentinel", func(*vlib.Rand, string, *message.Message) error { return context.DeadlineExceeded }},
	{"fmt.Errorf(%w ctx)", "ctx_wrapped", func(r *vlib.Rand, tag string, _ *message.Message) error {
		return fmt.Errorf("calling downstream for %s: %w", tag, ctxSentinel(r))
	}},
	{"fmt.Errorf(%w fmt.Errorf(%w ctx))", "ctx_wrapped", func(r *vlib.Rand, tag string, _ *message.Message) error {
		return fmt.Errorf("handler %s: %w", tag, fmt.Errorf("repository: %w", ctxSentinel(r)))
	}},
	{"pkgerrors.Wrap(ctx)", "ctx_wrapped", func(r *vlib.Rand, tag string, _ *message.Message) error {
		if r.Bool() {
			return pkgerrors.WithStack(ctxSentinel(r))
		}
		return pkgerrors.Wrap(ctxSentinel(r), "query for "+tag)
	}},
	{"errors.Join(plain, ctx)", "ctx_wrapped", func(r *vlib.Rand, tag string, _ *message.Message) error {
		if r.Bool() {
			return errors.Join(ctxSentinel(r), errors.New("failed "+tag))
		}
		return errors.Join(errors.New("failed "+tag), ctxSentinel(r))
	}},
	{"multierror.Append(plain, ctx)", "ctx_wrapped", func(r *vlib.Rand, tag string, _ *message.Message) error {
		return multierror.Append(errors.New("failed "+tag), ctxSentinel(r))
	}},
	{"custom Unwrap(ctx)", "ctx_wrapped", func(r *vlib.Rand, tag string, _ *message.Message) error {
		return &unwrapErr{id: tag, inner: ctxSentinel(r)}
	}},
	// the realistic origin of such values: the handler gives its downstream call a context of its own, derived from the
	// message context, and that one ends - the message context does not
	{"per-call deadline: fmt.Errorf(%w sub.Err())", "per_call_ctx", func(r *vlib.Rand, tag string, msg *message.Message) error {
		sub, cancel := context.WithDeadline(msg.Context(), time.Now().Add(-time.Second))
		defer cancel()
		<-sub.Done()
		return fmt.Errorf("calling downstream for %s: %w", tag, sub.Err())
	}},
	{"per-call cancel: sub.Err()", "per_call_ctx", func(r *vlib.Rand, tag string, msg *message.Message) error {
		sub, cancel := context.WithCancel(msg.Context())
		cancel()
		<-sub.Done()
		return sub.Err()
	}},
	{"per-call cancel cause: context.Cause(sub)", "per_call_ctx", func(r *vlib.Rand, tag string, msg *message.Message) error {
		sub, cancel := context.WithCancelCause(msg.Context())
		cancel(fmt.Errorf("downstream of %s gave up: %w", tag, context.DeadlineExceeded))
		<-sub.Done()
		if msg.Context().Err() != nil { // the message context itself has ended (ctx classes): its cause wins
			return fmt.Errorf("calling downstream for %s: %w", tag, sub.Err())
		}
		return context.Cause(sub)
	}},
	{"backoff.Permanent(plain)", "permanent", func(r *vlib.Rand, tag string, _ *message.Message) error {
		return backoff.Permanent(errors.New("failed " + tag))
	}},
	{"backoff.Permanent(ctx)", "permanent", func(r *vlib.Rand, tag string, _ *message.Message) error {
		return backoff.Permanent(ctxSentinel(r))
	}},
	{"fmt.Errorf(%w backoff.Permanent)", "permanent", func(r *vlib.Rand, tag string, _ *message.Message) error {
		return fmt.Errorf("handler %s: %w", tag, backoff.Permanent(errors.New("failed "+tag)))
	}},
	{"io.EOF", "io", func(*vlib.Rand, string, *message.Message) error { return io.EOF }},
	{"io.ErrUnexpectedEOF", "io", func(*vlib.Rand, string, *message.Message) error { return io.ErrUnexpectedEOF }},
	{"os.ErrDeadlineExceeded", "io", func(*vlib.Rand, string, *message.Message) error { return os.ErrDeadlineExceeded }},
	{"fmt.Errorf(%w io.EOF)", "io", func(r *vlib.Rand, tag string, _ *message.Message) error {
		return fmt.Errorf("reading for %s: %w", tag, io.EOF)
	}},
	{"empty Error()", "empty_text", func(r *vlib.Rand, tag string, _ *message.Message) error { return &emptyErr{id: tag} }},
	{"errors.New(\"\")", "empty_text", func(*vlib.Rand, string, *message.Message) error { return errors.New("") }},
	{"text 'context deadline exceeded'", "ctx_text", func(r *vlib.Rand, tag string, _ *message.Message) error {
		// looks like the sentinel in a log line, is not the sentinel
		if r.Bool() {
			return errors.New("context canceled")
		}
		return errors.New("context deadline exceeded")
	}},
	{"non-comparable slice", "non_comparable", func(r *vlib.Rand, tag string, _ *message.Message) error { return sliceErr{tag, "x"} }},
	{"non-comparable struct", "non_comparable", func(r *vlib.Rand, tag string, _ *message.Message) error {
		return funcFieldErr{id: tag, f: func() string { return tag }, tags: map[string]string{"k": tag}}
	}},
	{"fmt.Errorf(%w non-comparable)", "non_comparable", func(r *vlib.Rand, tag string, _ *message.Message) error {
		return fmt.Errorf("handler %s: %w", tag, sliceErr{tag, "inner"})
	}},
	{"typed nil pointer", "typed_nil", func(*vlib.Rand, string, *message.Message) error { return (*nilPtrErr)(nil) }},
	{"Is() matches everything", "greedy_is", func(r *vlib.Rand, tag string, _ *message.Message) error { return &greedyErr{id: tag} }},
	{"net.Error-like", "net_like", func(r *vlib.Rand, tag string, _ *message.Message) error {
		return &netLikeErr{id: tag, timeout: r.Bool(), temporary: r.Bool()}
	}},
}

// ---------------------------------------------------------------------------------------------
// plan (one per case) and script (one per invocation)

// errPlan hands out the error scripts of one errval case. A nil *errPlan (all the other classes) hands out nil scripts:
// the invocation then fails with its own *attemptErr per attempt, as before, and no random number is drawn.
type errPlan struct {
	mu      sync.Mutex
	r       *vlib.Rand
	descs   []string
	groups  map[string]int
	modes   map[string]int
	special int // failing attempts that returned something else than a plain error
}

func newErrPlan(r *vlib.Rand) *errPlan {
	return &errPlan{r: r, groups: map[string]int{}, modes: map[string]int{}}
}

// errScript yields the error of every failing attempt of one invocation. It is used by one goroutine at a time (the attempts of
// an invocation are sequential) and has its own PRNG.
type errScript struct {
	plan *errPlan
	r    *vlib.Rand
	name string
	mode string // same-value | same-kind | per-attempt | plain-then-special
	kind int    // same-value, same-kind, plain-then-special: the kind
	from int    // plain-then-special: first attempt that returns the special kind
	val  error  // same-value: the value (made in the first failing attempt, a per-call kind needs the message)

	mu    sync.Mutex
	kinds []string // kind names of the first attempts, for the reports
}

func (p *errPlan) script(name string) *errScript {
	if p == nil {
		return nil
	}
	p.mu.Lock()
	defer p.mu.Unlock()
	s := &errScript{plan: p, r: p.r.Fork(), name: name, kind: p.r.Intn(len(errPool))}
	switch p.r.Intn(8) {
	case 0, 1, 2:
		s.mode = "same-value"
	case 3, 4:
		s.mode = "same-kind"
	case 5, 6:
		s.mode = "per-attempt"
	default:
		s.mode = "plain-then-special"
		s.from = p.r.Range(2, 4)
	}
	// a single-kind script rarely uses a kind of the plain group (the other classes do that all the time)
	if plain := errPool[s.kind].group == "plain"; plain && (s.mode == "plain-then-special" || p.r.Intn(3) != 0) {
		s.kind = errPoolFirstSpecial + p.r.Intn(len(errPool)-errPoolFirstSpecial)
	}
	p.modes[s.mode]++
	return s
}

// single draws one value for code paths outside an invocation (class concurrent: the first attempt of the other messages).
func (p *errPlan) single(tag string, msg *message.Message) (error, string) {
	if p == nil {
		return nil, ""
	}
	p.mu.Lock()
	defer p.mu.Unlock()
	k := errPool[errPoolFirstSpecial+p.r.Intn(len(errPool)-errPoolFirstSpecial)]
	return k.mk(p.r, tag, msg), k.name
}

func (s *errScript) next(n int, msg *message.Message) error {
	tag := fmt.Sprintf("%s#%d", s.name, n)
	k := s.kind
	var err error
	switch s.mode {
	case "same-value":
		if s.val == nil {
			s.val = errPool[k].mk(s.r, s.name, msg)
		}
		err = s.val
	case "same-kind":
		err = errPool[k].mk(s.r, tag, msg)
	case "plain-then-special":
		if n < s.from {
			k = s.r.Intn(errPoolFirstSpecial)
		}
		err = errPool[k].mk(s.r, tag, msg)
	default:
		k = s.r.Intn(len(errPool))
		err = errPool[k].mk(s.r, tag, msg)
	}
	if a, ok := err.(*attemptErr); ok && s.mode != "same-value" {
		a.n = n
	}
	s.mu.Lock()
	if len(s.kinds) < 12 {
		s.kinds = append(s.kinds, errPool[k].name)
	}
	s.mu.Unlock()
	s.plan.mu.Lock()
	s.plan.groups[errPool[k].group]++
	if errPool[k].group != "plain" {
		s.plan.special++
	}
	s.plan.mu.Unlock()
	return err
}

// desc describes the script for reports and signatures.
func (s *errScript) desc() string {
	if s == nil {
		return ""
	}
	switch s.mode {
	case "same-value":
		return "errors=the same value in every attempt: " + errPool[s.kind].name
	case "same-kind":
		return "errors=a fresh value per attempt of kind: " + errPool[s.kind].name
	case "plain-then-special":
		return fmt.Sprintf("errors=plain up to attempt %d, then a fresh value per attempt of kind: %s", s.from-1, errPool[s.kind].name)
	}
	return "errors=a value of a random kind per attempt"
}

func (s *errScript) seen() []string {
	if s == nil {
		return nil
	}
	s.mu.Lock()
	defer s.mu.Unlock()
	return append([]string(nil), s.kinds...)
}

// summary is the part of the plan that goes into the case signature / sample.
func (p *errPlan) summary() string {
	p.mu.Lock()
	defer p.mu.Unlock()
	var parts []string
	for g, n := range p.groups {
		parts = append(parts, fmt.Sprintf("%s:%d", g, n))
	}
	sort.Strings(parts)
	var modes []string
	for m, n := range p.modes {
		modes = append(modes, fmt.Sprintf("%s:%d", m, n))
	}
	sort.Strings(modes)
	return strings.Join(modes, ",") + " / " + strings.Join(parts, ",")
}

func (p *errPlan) count(res *vlib.Result) {
	p.mu.Lock()
	defer p.mu.Unlock()
	for g, n := range p.groups {
		res.Count("errval_failed_attempts_"+g, n)
	}
	for m, n := range p.modes {
		res.Count("errval_scripts_"+strings.ReplaceAll(m, "-", "_"), n)
	}
}

// ---------------------------------------------------------------------------------------------
// dispatcher

func runErrVal(e *vlib.Env, q int) vlib.Result {
	plan := newErrPlan(e.R.Fork())
	slot, vi := q%c12ErrValStride, q/c12ErrValStride
	var res vlib.Result
	switch slot {
	case 5:
		res = runCtx(e, vi, plan)
	case 6:
		res = runRedeliver(e, plan)
	case 7:
		res = runNested(e, plan)
	case 8:
		res = runLongLived(e, vi, plan)
	case 9:
		res = runMsgCtxSchedule(e, vi, plan)
	case 10:
		if vi%2 == 0 {
			res = runElapsed(e, plan)
		} else {
			res = runMsgCtxElapsed(e, vi/2, plan)
		}
	case 11:
		res = runMsgCtxDeadlineInWait(e, vi, plan)
	case 12:
		res = runConcurrent(e, plan)
	case 13:
		if vi%2 == 0 {
			res = runElapsedInsideWait(e, plan)
		} else {
			res = runMsgCtxInsideWait(e, vi/2, plan)
		}
	case 14:
		res = runCtxZeroWait(e, plan)
	case 15:
		if vi%2 == 0 {
			res = runRedeliver(e, plan)
		} else {
			res = runNested(e, plan)
		}
	default:
		res = runSchedule(e, plan)
	}
	res.Class = "errval/" + res.Class
	sum := plan.summary()
	res.Sig = vlib.Sig("errval", res.Sig, sum)
	if m, ok := res.Sample.(map[string]any); ok {
		m["error_values"] = sum
	}
	plan.count(&res)
	return res
}
