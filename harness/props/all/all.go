// Package all links every property workload into the child binary.
package all

import (
	_ "verifharness/props/c03"
)
