package c14

// Classes "fault-decorator" / "fault-middleware": the wrapped publisher (the handler) FAILS for some invocations.
//
// The statement: "Among all messages that map to the same deduplication key within the retention window ... exactly one
// reaches the handler (or the wrapped publisher); the others are dropped as successes (acked) without invoking it ...
// A key is remembered for at least the configured window".
//
// A program of Publish calls (batches of 1..4 messages over 2..6 keys; a batch may hold fresh keys, duplicates of keys
// presented earlier, and the same key twice) resp. middleware calls is presented sequentially or by 2..8 goroutines.
// The wrapped publisher / handler returns an error or panics whenever its batch holds a message marked "error" /
// "panic" (so the outcome does not depend on the schedule), and, additionally, for a few invocation numbers chosen in
// advance whatever the batch holds (this also fails EMPTY batches: every member was a duplicate).
// Afterwards every key is presented again, twice, with no faults.
//
// What the oracle demands (and what it does not):
//   - a key is CONFIRMED once a message of it was part of an invocation of the wrapped publisher / handler that returned
//     nil. From the end of that invocation on (logical clock) no other message of the key may reach the wrapped
//     publisher / handler, in whatever invocation, successful or not; nor may two messages of the key be part of
//     successful invocations at all, in any order (confirmed-key-passed-again). Retention is 1 h / the default minute
//     and the case must have taken less than a quarter of it (else inconclusive).
//   - two messages of one key never travel in the same invocation (batch-internal-duplicate-passed).
//   - what happens to the keys of a REJECTED invocation (error / panic) is not specified by the statement: the
//     unchanged tree keeps them remembered (a retry is dropped), another implementation might forget them. Nothing is
//     demanded there; it is counted (fault_rejected_key_retry_dropped / fault_rejected_key_retry_passed).
//   - a message that did not reach the wrapped publisher / handler although its call returned success must be acked
//     (decorator) resp. answered (nil,nil) (middleware), and some message of its key must have reached the wrapped
//     publisher / handler (in any invocation, rejected ones included): dropped-without-winner, judged at the instant
//     of the drop when sequential and at the end otherwise. A forwarded message is not settled by the decorator.
//   - a call may come back with an error / panic only if the wrapped publisher / handler was invoked by it and failed
//     (error-returned); whether and how the failure of the wrapped publisher is passed on is not judged here.

import (
	"errors"
	"fmt"
	"runtime"
	"strings"
	"sync"
	"sync/atomic"
	"time"

	"github.com/ThreeDotsLabs/watermill/message"
	"github.com/ThreeDotsLabs/watermill/message/router/middleware"

	"verifharness/vlib"
)

const (
	fNone = iota
	fError
	fPanic
)

var faultNames = [...]string{"ok", "error", "panic"}

type fMsg struct {
	idx   int
	key   int
	fault int
	phase int // 0 program, 1 / 2 re-presentations
	call  int // id of the presenting call (messages of one batch share it)
	msg   *message.Message
	// written by the presenting goroutine, read by others only after it finished
	result  string // ok|handled|dropped|error:..|panic:..|unexpected..
	reached atomic.Int32
}

// fInv is one invocation of the wrapped publisher / handler.
type fInv struct {
	no         int
	start, end uint64 // logical clock
	msgs       []*fMsg
	outcome    int
}

type fLog struct {
	mu      sync.Mutex
	invs    []*fInv
	failNos map[int]int // invocation number -> fault, whatever the batch holds
	anyKey  []int       // per key: messages that reached the wrapped publisher / handler so far
	byMsg   map[*message.Message]*fMsg
}

// invoke records one invocation and decides its outcome.
func (l *fLog) invoke(msgs []*message.Message) error {
	inv := &fInv{start: vlib.Now()}
	l.mu.Lock()
	inv.no = len(l.invs)
	l.invs = append(l.invs, inv)
	if f, ok := l.failNos[inv.no]; ok {
		inv.outcome = f
	}
	for _, m := range msgs {
		fm := l.byMsg[m]
		if fm == nil {
			continue
		}
		inv.msgs = append(inv.msgs, fm)
		fm.reached.Add(1)
		l.anyKey[fm.key]++
		// a batch with an "error" member is rejected, else one with a "panic" member panics
		if inv.outcome == fNone || fm.fault == fError {
			if fm.fault != fNone {
				inv.outcome = fm.fault
			}
		}
	}
	oc := inv.outcome
	inv.end = vlib.Now()
	l.mu.Unlock()
	switch oc {
	case fError:
		return errors.New("harness: the wrapped publisher rejects this batch")
	case fPanic:
		panic("harness: the wrapped publisher panics on this batch")
	}
	return nil
}

func (l *fLog) reachedAny(k int) int {
	l.mu.Lock()
	defer l.mu.Unlock()
	return l.anyKey[k]
}

type fInner struct{ l *fLog }

func (p fInner) Publish(topic string, msgs ...*message.Message) error { return p.l.invoke(msgs) }
func (p fInner) Close() error                                         { return nil }

func faultClass(e *vlib.Env, decorator bool) vlib.Result {
	r := e.R
	class, target := "fault-middleware", "handler"
	if decorator {
		class, target = "fault-decorator", "wrapped publisher"
	}
	hs := pickHasher(r)
	nkeys := r.Range(2, 6)
	ncalls := r.Range(4, 14)
	g := 1
	if r.Chance(0.4) {
		g = r.Range(2, 8)
	}
	defaultRepo := r.Chance(0.4)
	pErr := []float64{0.15, 0.3, 0.5}[r.Intn(3)]
	pPanic := []float64{0, 0.08, 0.2}[r.Intn(3)]
	yieldP := []float64{0, 0.3, 0.7}[r.Intn(3)]
	spec := fmt.Sprintf("%s hasher=%s keys=%d calls=%d goroutines=%d defaultRepo=%v pError=%.2f pPanic=%.2f yield=%.1f", class, hs.name, nkeys, ncalls, g, defaultRepo, pErr, pPanic, yieldP)
	res := vlib.Result{Class: class, Spec: spec}
	harnessErr := func(err error) vlib.Result {
		res.Verdict = vlib.HarnessError
		res.Reason = err.Error()
		return res
	}
	var repo middleware.ExpiringKeyRepository
	retention := time.Minute
	if !defaultRepo {
		var err error
		retention = time.Hour
		if repo, err = middleware.NewMapExpiringKeyRepository(retention); err != nil {
			return harnessErr(err)
		}
	}
	ctl := vlib.NewCtl(r.Uint64(), yieldP, 30)
	defer ctl.Uninstall()

	// ---- messages and program ----------------------------------------------------------------------------------
	n := eff(hs.limit)
	if n > 200 {
		n = r.Range(0, 200)
	}
	prefixes := make([][]byte, nkeys)
	for k := range prefixes {
		prefixes[k] = append(r.Bytes(n), byte(k))
	}
	log := &fLog{failNos: map[int]int{}, anyKey: make([]int, nkeys), byMsg: map[*message.Message]*fMsg{}}
	var all []*fMsg
	mk := func(k, fault, phase int) *fMsg {
		fm := &fMsg{idx: len(all), key: k, fault: fault, phase: phase}
		var payload []byte
		if hs.limit > 1<<20 || hs.name == "metadata(k)" {
			payload = append([]byte{}, prefixes[k]...)
		} else {
			p := append([]byte{}, prefixes[k]...)
			for len(p) < eff(hs.limit) {
				p = append(p, byte(k))
			}
			payload = append(p, r.Bytes(r.Intn(40))...)
		}
		fm.msg = message.NewMessage(fmt.Sprintf("%s/%d", e.ID(), fm.idx), payload)
		fm.msg.Metadata.Set("k", fmt.Sprintf("%s-key%d", e.ID(), k))
		all = append(all, fm)
		log.byMsg[fm.msg] = fm
		return fm
	}
	calls := make([][]*fMsg, ncalls)
	shape := ""
	for c := range calls {
		nb := 1
		if decorator {
			nb = []int{1, 1, 1, 2, 2, 2, 2, 3, 3, 4}[r.Intn(10)]
		}
		for ; nb > 0; nb-- {
			f := fNone
			if x := r.Float(); x < pPanic {
				f = fPanic
			} else if x < pPanic+pErr {
				f = fError
			}
			fm := mk(r.Intn(nkeys), f, 0)
			calls[c] = append(calls[c], fm)
			shape += fmt.Sprintf("%d%c", fm.key, "opx"[f])
		}
		shape += "|"
	}
	// invocation numbers that fail whatever the batch holds (also an empty one)
	for no := 0; no < ncalls; no++ {
		if r.Chance(0.12) {
			log.failNos[no] = []int{fError, fError, fPanic}[r.Intn(3)]
		}
	}
	// two re-presentations of every key, no faults: one by one, or (decorator) as one batch per round
	var reCalls [][]*fMsg
	for phase := 1; phase <= 2; phase++ {
		asBatch := decorator && r.Chance(0.4)
		var batch []*fMsg
		for _, k := range r.Perm(nkeys) {
			fm := mk(k, fNone, phase)
			if asBatch {
				batch = append(batch, fm)
			} else {
				reCalls = append(reCalls, []*fMsg{fm})
			}
		}
		if asBatch {
			reCalls = append(reCalls, batch)
		}
	}

	// ---- deduplicator under test ------------------------------------------------------------------------------------
	d := &middleware.Deduplicator{KeyFactory: hs.mk(), Repository: repo, Timeout: time.Minute}
	out := message.NewMessage(e.ID()+"/out", nil)
	var wrapped message.HandlerFunc
	var decPub message.Publisher
	if decorator {
		var err error
		if decPub, err = d.PublisherDecorator()(fInner{log}); err != nil {
			return harnessErr(err)
		}
	} else {
		wrapped = d.Middleware(func(m *message.Message) ([]*message.Message, error) {
			if err := log.invoke([]*message.Message{m}); err != nil {
				return nil, err
			}
			return []*message.Message{out}, nil
		})
	}
	type failure struct{ clause, text string }
	var failMu sync.Mutex
	var failures []failure
	fail := func(clause, f string, a ...any) {
		failMu.Lock()
		failures = append(failures, failure{clause, fmt.Sprintf(f, a...)})
		failMu.Unlock()
	}
	var events atomic.Int64
	var callSeq atomic.Int64
	present := func(batch []*fMsg, sequential bool) {
		id := int(callSeq.Add(1))
		for _, fm := range batch {
			fm.call = id
		}
		result := ""
		func() {
			defer func() {
				if v := recover(); v != nil {
					result = fmt.Sprintf("panic:%v", v)
				}
			}()
			if decorator {
				ms := make([]*message.Message, len(batch))
				for i, fm := range batch {
					ms[i] = fm.msg
				}
				// whatever the outcome (error, panic), the slice handed over is the caller's: same messages, same order
				defer func() {
					for i, fm := range batch {
						if ms[i] != fm.msg {
							fail("caller-batch-rewritten", "the slice passed to Publish was rewritten by the decorator: position %d held message %d and now holds %q", i, fm.idx, uuidOf(ms[i]))
							break
						}
					}
				}()
				if err := decPub.Publish("t", ms...); err != nil {
					result = "error:" + err.Error()
				} else {
					result = "ok"
				}
				return
			}
			outs, err := wrapped(batch[0].msg)
			switch {
			case err != nil:
				result = "error:" + err.Error()
			case len(outs) == 1 && outs[0] == out:
				result = "handled"
			case outs == nil:
				result = "dropped"
			default:
				result = fmt.Sprintf("unexpected-outputs(%d)", len(outs))
			}
		}()
		events.Add(int64(len(batch)))
		for _, fm := range batch {
			fm.result = result
			if sequential && (result == "ok" || result == "dropped") && fm.reached.Load() == 0 && log.reachedAny(fm.key) == 0 {
				fail("dropped-without-winner", "message %d (key %d) was dropped as a duplicate (%s) although no message of its key has reached the %s so far", fm.idx, fm.key, result, target)
			}
		}
	}

	// ---- presentations --------------------------------------------------------------------------------------------
	start := time.Now()
	barrier := make(chan struct{})
	var wg sync.WaitGroup
	for w := 0; w < g; w++ {
		wg.Add(1)
		rr := r.Fork()
		go func(w int) {
			defer wg.Done()
			defer func() {
				if v := recover(); v != nil {
					fail("panic", "harness goroutine: panic: %v", v)
				}
			}()
			<-barrier
			for c := w; c < ncalls; c += g {
				for y := rr.Intn(3); y > 0; y-- {
					runtime.Gosched()
				}
				present(calls[c], g == 1)
			}
		}(w)
	}
	done := make(chan struct{})
	go func() { wg.Wait(); close(done) }()
	close(barrier)
	wait := func(ch chan struct{}, what string) bool {
		if oc, dump := vlib.WaitClosed(ch, vlib.WD); oc == vlib.Stuck {
			res.Fail("blocks", "a deduplicated call never returned (quiescent, %s): %s", what, spec)
			res.Witness = dump
			return false
		} else if oc == vlib.Inconclusive {
			res.Inconclusive("%s did not finish", what)
			return false
		}
		return true
	}
	if !wait(done, "program") {
		return res
	}
	// keys whose only invocations so far were rejected: what happens to their retry is counted, not judged
	log.mu.Lock()
	log.failNos = map[int]int{} // no more faults
	confirmedBefore := make([]bool, nkeys)
	reachedBefore := make([]bool, nkeys)
	for _, inv := range log.invs {
		for _, fm := range inv.msgs {
			reachedBefore[fm.key] = true
			if inv.outcome == fNone {
				confirmedBefore[fm.key] = true
			}
		}
	}
	rejectedInvs := 0
	emptyRejected := 0
	for _, inv := range log.invs {
		if inv.outcome != fNone {
			rejectedInvs++
			if len(inv.msgs) == 0 {
				emptyRejected++
			}
		}
	}
	log.mu.Unlock()
	done2 := make(chan struct{})
	go func() {
		defer close(done2)
		defer func() {
			if v := recover(); v != nil {
				fail("panic", "harness goroutine: panic: %v", v)
			}
		}()
		for _, b := range reCalls {
			present(b, true)
		}
	}()
	if !wait(done2, "re-presentations") {
		return res
	}
	elapsed := time.Since(start)

	// ---- judgement ---------------------------------------------------------------------------------------------
	for _, f := range failures {
		res.Fail(f.clause, "%s (%s)", f.text, spec)
	}
	log.mu.Lock()
	defer log.mu.Unlock()
	invOf := map[*fMsg]*fInv{}
	perKey := make([][]*fInv, nkeys) // one entry per (message, invocation)
	perKeyMsg := make([][]*fMsg, nkeys)
	for _, inv := range log.invs {
		seen := map[int]*fMsg{}
		for _, fm := range inv.msgs {
			if other, dup := seen[fm.key]; dup {
				res.Fail("batch-internal-duplicate-passed", "messages %d and %d of the same key %d reached the %s in ONE invocation (#%d, outcome %s): %s", other.idx, fm.idx, fm.key, target, inv.no, faultNames[inv.outcome], spec)
			}
			seen[fm.key] = fm
			invOf[fm] = inv
			perKey[fm.key] = append(perKey[fm.key], inv)
			perKeyMsg[fm.key] = append(perKeyMsg[fm.key], fm)
		}
	}
	describe := func(k int) string {
		s := ""
		for i, inv := range perKey[k] {
			s += fmt.Sprintf("[message %d (phase %d) in invocation #%d [%d,%d] of %d message(s) -> %s] ", perKeyMsg[k][i].idx, perKeyMsg[k][i].phase, inv.no, inv.start, inv.end, len(inv.msgs), faultNames[inv.outcome])
		}
		return s
	}
	tooLong := elapsed >= retention/4
	confirmedKeys, retryDropped, retryPassed := 0, 0, 0
	for k := 0; k < nkeys; k++ {
		okN := 0
		for i, inv := range perKey[k] {
			if inv.outcome != fNone {
				continue
			}
			okN++
			for j, other := range perKey[k] {
				if perKeyMsg[k][j] == perKeyMsg[k][i] {
					continue
				}
				// The key was recorded before inv started and, inv having succeeded, is never taken back. The other message is
				// tolerated only if its invocation was rejected and had ENDED before inv started (the key of a rejected batch
				// may or may not be remembered). Two successful invocations are reported once.
				if (other.outcome != fNone && other.end > inv.start) || (other.outcome == fNone && j > i) {
					if tooLong {
						res.Inconclusive("case took %v, too close to the retention window %v to judge a second acceptance", elapsed, retention)
					} else {
						res.Fail("confirmed-key-passed-again", "key %d: message %d reached the %s in invocation #%d, which returned nil (logical [%d,%d]); message %d of the same key reached the %s again in invocation #%d (logical [%d,%d], outcome %s) within %v, retention window %v: %s; invocations with the key: %s",
							k, perKeyMsg[k][i].idx, target, inv.no, inv.start, inv.end, perKeyMsg[k][j].idx, target, other.no, other.start, other.end, faultNames[other.outcome], elapsed, retention, spec, describe(k))
					}
				}
			}
		}
		if okN > 0 {
			confirmedKeys++
		}
		if reachedBefore[k] && !confirmedBefore[k] {
			// retry of a key all of whose invocations were rejected
			passed := false
			for i := range perKey[k] {
				if perKeyMsg[k][i].phase > 0 {
					passed = true
				}
			}
			if passed {
				retryPassed++
			} else {
				retryDropped++
			}
		}
	}
	dropped, swallowed := 0, 0
	failedCalls := map[int]bool{}
	for _, fm := range all {
		if fm.result == "" {
			res.Fail("panic", "message %d was never presented (%s)", fm.idx, spec)
			continue
		}
		inv := invOf[fm]
		reached := inv != nil
		success := fm.result == "ok" || fm.result == "handled" || fm.result == "dropped"
		switch {
		case !success && strings.HasPrefix(fm.result, "unexpected"):
			res.Fail("duplicate-not-dropped-as-success", "message %d: the middleware returned %s: %s", fm.idx, fm.result, spec)
		case !success:
			// error / panic: legitimate only if this call invoked the wrapped publisher / handler and that failed. The failing
			// invocation belongs to this call iff it holds one of the call's messages, or (empty batch) cannot be told: then
			// at least one rejected EMPTY invocation must exist.
			legit := false
			if reached && inv.outcome != fNone {
				legit = true
			}
			if !legit && decorator {
				legit = callHasFailedInvocation(all, fm, invOf, log.invs)
			}
			if legit {
				failedCalls[fm.call] = true
			}
			if !legit {
				res.Fail("error-returned", "the call presenting message %d came back with %q although the %s was not invoked by it or succeeded: %s", fm.idx, vlib.Trunc(fm.result, 80), target, spec)
			}
		case reached && inv.outcome != fNone:
			// the wrapped publisher / handler failed and the call reported success: not a matter of this property
			swallowed++
		case reached:
			if decorator {
				if s := vlib.Settled(fm.msg); s != "" {
					res.Fail("forwarded-message-settled", "message %d was forwarded to the wrapped publisher but the decorator %sed it: %s", fm.idx, s, spec)
				}
			} else if fm.result != "handled" {
				res.Fail("winner-result-changed", "message %d reached the handler, which succeeded, but the middleware returned %q: %s", fm.idx, fm.result, spec)
			}
		default: // success, not forwarded: dropped as a duplicate
			dropped++
			if decorator {
				if s := vlib.Settled(fm.msg); s != "ack" {
					res.Fail("duplicate-not-acked", "message %d was filtered as a duplicate but is %q instead of acked: %s", fm.idx, s, spec)
				}
			} else if fm.result != "dropped" {
				res.Fail("duplicate-not-dropped-as-success", "message %d did not reach the handler but the middleware returned %q instead of (nil,nil): %s", fm.idx, fm.result, spec)
			}
			if len(perKey[fm.key]) == 0 {
				res.Fail("dropped-without-winner", "message %d (key %d) was dropped as a duplicate and no message of its key ever reached the %s: %s", fm.idx, fm.key, target, spec)
			}
		}
	}
	res.Events = int(events.Load())
	res.Hooks = ctl.Counts()
	res.Count("fault_calls_failed_with_the_wrapped_fault", len(failedCalls))
	res.Count("fault_failures_not_passed_on", swallowed)
	res.Count("fault_invocations", len(log.invs))
	res.Count("fault_invocations_rejected", rejectedInvs)
	res.Count("fault_empty_invocations_rejected", emptyRejected)
	res.Count("fault_confirmed_keys", confirmedKeys)
	res.Count("fault_messages_dropped_as_duplicates", dropped)
	res.Count("fault_rejected_key_retry_dropped", retryDropped)
	res.Count("fault_rejected_key_retry_passed", retryPassed)
	res.Count("fault_representations", 2*nkeys)
	res.NonTrivial = rejectedInvs > 0 && confirmedKeys > 0
	outcomes := ""
	for _, inv := range log.invs {
		outcomes += fmt.Sprintf("%d%c", len(inv.msgs), "opx"[inv.outcome])
	}
	res.Sig = vlib.Sig(spec, shape, outcomes)
	res.Sample = map[string]any{"spec": spec, "program(key,fault)": shape, "invocations(size,outcome)": outcomes}
	return res
}

// callHasFailedInvocation: fm's Publish call came back with an error / panic and fm itself was filtered; that is
// legitimate if another message of the same call travelled in a failed invocation, or if no message of the call
// reached the wrapped publisher and a failed EMPTY invocation exists (an all-duplicates batch whose empty invocation
// was failed by number; an empty invocation cannot be attributed to a call).
func callHasFailedInvocation(all []*fMsg, fm *fMsg, invOf map[*fMsg]*fInv, invs []*fInv) bool {
	anyReached := false
	for _, other := range all {
		if other.call != fm.call {
			continue
		}
		if inv := invOf[other]; inv != nil {
			anyReached = true
			if inv.outcome != fNone {
				return true
			}
		}
	}
	if anyReached {
		return false
	}
	for _, inv := range invs {
		if inv.outcome != fNone && len(inv.msgs) == 0 {
			return true
		}
	}
	return false
}
