package c14

// Class "hot-expiry": long-running expiry behaviour of one repository.
//
// The statement: "A key is remembered for at least the configured window and is accepted again after it expired"
// ... "for all ... all window sizes in the ms range, and all interleavings of arrivals with the clean-up ticker".
// The window class polls a key from ONE goroutine for two re-acceptances; here a single hot key (sometimes 2..3 keys)
// is presented without pause by 1..32 goroutines over many windows (100..800 expiries per key), so that arrivals hit
// every phase of the clean-up tick (just before it, while it holds the repository, right after it emptied the map ...).
//
// What the oracle concludes, and from what:
//   - every presentation is bracketed by monotonic stamps [s,e] taken by the presenting goroutine; an acceptance
//     recorded its key at some instant r in [s,e]. Two acceptances of one key are at least one window apart
//     (|r1-r2| >= window, because an accepted key is remembered for at least the window), hence
//     max(e1,e2)-min(s1,s2) >= window must hold for every pair; a smaller span is a violation whatever the load
//     (accepted-twice-within-window). No upper bound is involved.
//   - "accepted again after it expired": the documentation of NewMapExpiringKeyRepository bounds the real retention
//     by window*1.5 (clean-up period window/2). Decided only in a final SEQUENTIAL phase (all presenters have
//     returned, so every acceptance is known): the key is presented again and again, one presentation per 4 ticks of a
//     control ticker of period window/2 (so it was left alone for 2 windows each time); it is a violation (stuck-after-expiry) only if a presentation that STARTED
//     later than lastAcceptanceEnd + window*1.5 + 1s still came back "duplicate" AND 40 control ticks were received
//     by the harness after that instant (4 between two presentations): the repository's clean-up ticker has the
//     same period and the same runtime, so it had the same 40 opportunities while the process was otherwise idle.
//     Time only ever enters as a lower bound ("at least this much later"); a slow machine delays the verdict, it
//     cannot produce one. While the presenters run, a gap of window*1.5+200ms without acceptance only interrupts
//     the hot phase (counted) and hands over to the sequential phase; if the key is accepted there, the presenters
//     are started again (up to 8 episodes, 8 s).

import (
	"context"
	"fmt"
	"runtime"
	"sort"
	"sync"
	"sync/atomic"
	"time"

	"github.com/ThreeDotsLabs/watermill/message"
	"github.com/ThreeDotsLabs/watermill/message/router/middleware"

	"verifharness/vlib"
)

const (
	hotMargin       = time.Second // generous: added to window*1.5 before a duplicate answer is called stale
	hotControlTicks = 40          // control ticks (period window/2) that must be seen after the stale instant
	hotSuspect      = 200 * time.Millisecond
	hotBudget       = 8 * time.Second // hot phase is ended (not judged) after this long
)

type hotAcc struct{ s, e time.Duration } // since the case's base instant

// hotPresenter presents one message of key k and reports whether it was accepted (reached the handler / the wrapped
// publisher / IsDuplicate answered false). problem != "" describes a result that is neither.
type hotPresenter func(k int) (accepted bool, problem string)

// w2style: presenter w of g. In an all-spin case (a quarter of the cases with at most 4 goroutines) nobody waits; else
// presenter 0 spins or is paced in half of the cases and everybody else presents in bursts around the expected expiry.
func w2style(w, g int, allSpin bool, rr *vlib.Rand) string {
	switch {
	case allSpin:
		return []string{"spin", "spin", "paced"}[rr.Intn(3)]
	case w == 0 && rr.Bool():
		return []string{"spin", "paced"}[rr.Intn(2)]
	}
	return "burst"
}

type hotInner struct{ hit *bool }

func (p hotInner) Publish(topic string, msgs ...*message.Message) error {
	if len(msgs) > 0 {
		*p.hit = true
	}
	return nil
}
func (p hotInner) Close() error { return nil }

func hotExpiry(e *vlib.Env) vlib.Result {
	r := e.R
	win := time.Duration([]int{1, 1, 1, 2, 2, 2, 3, 4, 5, 8}[r.Intn(10)]) * time.Millisecond
	nkeys := []int{1, 1, 1, 1, 1, 1, 2, 2, 3}[r.Intn(9)]
	g := []int{1, 2, 3, 4, 4, 6, 8, 8, 12, 16, 24, 32}[r.Intn(12)]
	path := []string{"repository", "middleware", "middleware", "decorator"}[r.Intn(4)]
	// expiries per key: 150..800, but not more than fit into ~1.2 s of an idle machine (an expiry takes 1..1.5 windows)
	rounds := r.Range(150, 800)
	if most := int(1200 * time.Millisecond / (win + win*2/5)); rounds > most {
		rounds = most
	}
	yieldP := []float64{0, 0, 0.2}[r.Intn(3)]
	allSpin := r.Chance(0.25)
	if allSpin && g > 4 {
		g = r.Range(1, 4)
	}
	hs := pickHasher(r)
	spec := fmt.Sprintf("hot-expiry path=%s window=%v keys=%d goroutines=%d rounds=%d hasher=%s yield=%.1f allSpin=%v", path, win, nkeys, g, rounds, hs.name, yieldP, allSpin)
	res := vlib.Result{Class: "hot-expiry/" + path, Spec: spec}
	repo, err := middleware.NewMapExpiringKeyRepository(win)
	if err != nil {
		res.Verdict = vlib.HarnessError
		res.Reason = err.Error()
		return res
	}
	ctl := vlib.NewCtl(r.Uint64(), yieldP, 20)
	defer ctl.Uninstall()

	// one payload per key (every presentation of a key is a fresh *message.Message with that payload)
	n := eff(hs.limit)
	if n > 200 {
		n = r.Range(0, 200)
	}
	payloads := make([][]byte, nkeys)
	metas := make([]string, nkeys)
	rawKeys := make([]string, nkeys)
	for k := range payloads {
		p := append(r.Bytes(n), byte(k))
		for len(p) < eff(hs.limit) && hs.limit <= 1<<20 {
			p = append(p, byte(k))
		}
		payloads[k] = p
		metas[k] = fmt.Sprintf("%s-hot%d", e.ID(), k)
		rawKeys[k] = fmt.Sprintf("%s/hot/%d", e.ID(), k)
	}
	d := &middleware.Deduplicator{KeyFactory: hs.mk(), Repository: repo, Timeout: time.Minute}
	out := message.NewMessage(e.ID()+"/out", nil)
	var seq atomic.Int64
	newMsg := func(k int) *message.Message {
		m := message.NewMessage(fmt.Sprintf("%s/%d", e.ID(), seq.Add(1)), payloads[k])
		m.Metadata.Set("k", metas[k])
		return m
	}
	// mkPresenter must be called from the main goroutine before the presenters start (Middleware / PublisherDecorator
	// apply defaults to d); the returned closure is used by one goroutine only.
	mkPresenter := func() (hotPresenter, error) {
		switch path {
		case "repository":
			ctx := context.Background()
			return func(k int) (bool, string) {
				dup, err := repo.IsDuplicate(ctx, rawKeys[k])
				if err != nil {
					return false, "IsDuplicate returned " + err.Error()
				}
				return !dup, ""
			}, nil
		case "middleware":
			hit := false
			h := d.Middleware(func(m *message.Message) ([]*message.Message, error) {
				hit = true
				return []*message.Message{out}, nil
			})
			return func(k int) (bool, string) {
				hit = false
				outs, err := h(newMsg(k))
				switch {
				case err != nil:
					return hit, "middleware returned " + err.Error()
				case hit && (len(outs) != 1 || outs[0] != out):
					return true, fmt.Sprintf("handler was invoked but the middleware returned %d messages", len(outs))
				case !hit && outs != nil:
					return false, fmt.Sprintf("handler was not invoked but the middleware returned %d messages instead of (nil,nil)", len(outs))
				}
				return hit, ""
			}, nil
		default:
			hit := false
			pub, err := d.PublisherDecorator()(hotInner{&hit})
			if err != nil {
				return nil, err
			}
			return func(k int) (bool, string) {
				hit = false
				m := newMsg(k)
				if err := pub.Publish("t", m); err != nil {
					return hit, "Publish returned " + err.Error()
				}
				if s := vlib.Settled(m); !hit && s != "ack" {
					return false, fmt.Sprintf("message filtered as a duplicate is %q instead of acked", s)
				} else if hit && s != "" {
					return true, "message forwarded to the wrapped publisher was " + s + "ed by the decorator"
				}
				return hit, ""
			}, nil
		}
	}

	base := time.Now()
	var mu sync.Mutex
	accs := make([][]hotAcc, nkeys)
	lastEnd := make([]atomic.Int64, nkeys) // latest known end of an accepting call, ns since base
	accN := make([]atomic.Int64, nkeys)
	var dups, presented atomic.Int64
	var problems []string
	record := func(k int, s, e time.Duration) {
		mu.Lock()
		accs[k] = append(accs[k], hotAcc{s, e})
		mu.Unlock()
		for {
			old := lastEnd[k].Load()
			if int64(e) <= old || lastEnd[k].CompareAndSwap(old, int64(e)) {
				break
			}
		}
		accN[k].Add(1)
	}
	problem := func(s string) {
		mu.Lock()
		if len(problems) < 5 {
			problems = append(problems, s)
		}
		mu.Unlock()
	}
	presentOnce := func(p hotPresenter, k int) bool {
		s := time.Since(base)
		acc, prob := p(k)
		en := time.Since(base)
		presented.Add(1)
		if prob != "" {
			problem(prob)
		}
		if acc {
			record(k, s, en)
		} else {
			dups.Add(1)
		}
		return acc
	}

	// ---- episodes: hot phase, then sequential phase -----------------------------------------------------------------
	presenters := make([]hotPresenter, g)
	for w := range presenters {
		p, err := mkPresenter()
		if err != nil {
			res.Verdict = vlib.HarnessError
			res.Reason = err.Error()
			return res
		}
		presenters[w] = p
	}
	final, err := mkPresenter()
	if err != nil {
		res.Verdict = vlib.HarnessError
		res.Reason = err.Error()
		return res
	}
	control := time.NewTicker(win / 2)
	defer control.Stop()
	enough := func() bool {
		for k := range accN {
			if accN[k].Load() < int64(rounds)+1 {
				return false
			}
		}
		return true
	}
	suspected, finalAccepted, slow, episodes := 0, 0, 0, 0
	var hotSpan time.Duration
	for !res.Failed() {
		episodes++
		// hot phase: all presenters, until every key was accepted rounds+1 times, a key looks stuck, or the budget is used up
		var stop atomic.Bool
		var wg sync.WaitGroup
		barrier := make(chan struct{})
		for w := 0; w < g; w++ {
			p := presenters[w]
			rr := r.Fork()
			// pacing (workload only, no verdict depends on it):
			//   spin:  present without pause (0..2 yields in between);
			//   paced: short timer waits (a fraction of the window) between presentations;
			//   burst: a hot key of this repository is accepted about every window*1.5 (it is re-accepted right after a
			//          clean-up tick and the period is window/2), so wait until shortly before the next expected expiry
			//          of some key and present without pause until it was accepted: the arrivals gather around the tick
			//          that expires the key, with little CPU in between (16 shards run on a shared machine).
			style := w2style(w, g, allSpin, rr)
			lead := win/4 + time.Duration(rr.Intn(int(win/4)+1))
			wg.Add(1)
			go func() {
				defer wg.Done()
				defer func() {
					if v := recover(); v != nil {
						problem(fmt.Sprintf("panic: %v", v))
					}
				}()
				<-barrier
				for !stop.Load() {
					k := rr.Intn(nkeys)
					if style == "burst" {
						now := time.Since(base)
						wait := time.Duration(-1)
						for i := 0; i < nkeys; i++ {
							kk := (k + i) % nkeys
							le := time.Duration(lastEnd[kk].Load())
							if w := le + win + win/2 - lead - now; le == 0 || w <= 0 {
								k, wait = kk, 0
								break
							} else if wait < 0 || w < wait {
								wait = w
							}
						}
						if wait > 0 {
							vlib.TimerWait(wait)
							continue
						}
					}
					presentOnce(p, k)
					if style == "paced" && rr.Chance(0.5) {
						vlib.TimerWait(time.Duration(rr.Intn(int(win/4))+1) * time.Nanosecond)
					} else {
						for y := rr.Intn(3); y > 0; y-- {
							runtime.Gosched()
						}
					}
				}
			}()
		}
		done := make(chan struct{})
		go func() { wg.Wait(); close(done) }()
		t0 := time.Since(base)
		close(barrier)
		suspect := false
		for !suspect && !enough() && time.Since(base) < hotBudget {
			vlib.TimerWait(win)
			now := time.Since(base)
			for k := range lastEnd {
				if le := time.Duration(lastEnd[k].Load()); le > 0 && now-le > win+win/2+hotSuspect {
					suspect = true
				}
			}
		}
		stop.Store(true)
		if oc, dump := vlib.WaitClosed(done, vlib.WD); oc == vlib.Stuck {
			res.Fail("blocks", "a deduplicated call never returned (quiescent): %s", spec)
			res.Witness = dump
			return res
		} else if oc == vlib.Inconclusive {
			res.Inconclusive("presenters did not finish")
			return res
		}
		hotSpan += time.Since(base) - t0
		if suspect {
			suspected++
		}

		// sequential phase: every presenter has returned, so every acceptance is known; every key must be accepted once more
		for k := 0; k < nkeys && !res.Failed(); k++ {
			mu.Lock()
			var last time.Duration
			for _, a := range accs[k] {
				if a.e > last {
					last = a.e
				}
			}
			never := len(accs[k]) == 0
			mu.Unlock()
			if never {
				// nothing of this key was ever accepted: a fresh key must be
				if !presentOnce(final, k) {
					res.Fail("fresh-key-duplicate", "a never-accepted key was reported as duplicate: %s", spec)
				}
				continue
			}
			staleAt := last + win + win/2 + hotMargin
			ticksPast, polls := 0, 0
			for {
				s := time.Since(base)
				if presentOnce(final, k) {
					finalAccepted++
					if s > last+win+win/2+hotSuspect {
						slow++
					}
					break
				}
				polls++
				if s > staleAt && ticksPast >= hotControlTicks {
					res.Fail("stuck-after-expiry", "key %d was last accepted by a call that ended at +%v; a presentation that started at +%v (%v later; window %v, clean-up period %v) "+
						"was still dropped as a duplicate, after %d sequential presentations and %d ticks of a control ticker of period window/2 received since +%v; "+
						"the key was accepted %d times before: %s", k, last, s, s-last, win, win/2, polls, ticksPast, staleAt, accN[k].Load(), spec)
					break
				}
				// 4 control ticks (2 windows, more than the documented maximum retention) between two presentations: the
				// verdict then also holds for a repository that would count the window from the last time a key was SEEN
				for i := 0; i < 4; i++ {
					<-control.C
					if time.Since(base) > staleAt {
						ticksPast++
					}
				}
			}
		}
		if enough() || time.Since(base) >= hotBudget || episodes >= 8 {
			break
		}
	}

	// ---- judgement ---------------------------------------------------------------------------------------------
	mu.Lock()
	for _, p := range problems {
		res.Fail("hot-unexpected-result", "%s (%s)", p, spec)
	}
	total, minAcc := 0, -1
	for k := range accs {
		a := accs[k]
		sort.Slice(a, func(i, j int) bool { return a[i].s < a[j].s })
		for i := range a {
			for j := i + 1; j < len(a) && a[j].s-a[i].s < win; j++ {
				hi := a[i].e
				if a[j].e > hi {
					hi = a[j].e
				}
				if hi-a[i].s < win {
					res.Fail("accepted-twice-within-window", "key %d was accepted by a call bracketed by [+%v,+%v] and by another bracketed by [+%v,+%v]: both happened within %v, the window is %v "+
						"(acceptances %d and %d of %d): %s", k, a[i].s, a[i].e, a[j].s, a[j].e, hi-a[i].s, win, i, j, len(a), spec)
				}
			}
		}
		total += len(a)
		if minAcc < 0 || len(a) < minAcc {
			minAcc = len(a)
		}
	}
	mu.Unlock()
	res.Events = int(presented.Load())
	res.Hooks = ctl.Counts()
	res.Count("hot_presentations", int(presented.Load()))
	res.Count("hot_duplicate_answers", int(dups.Load()))
	res.Count("hot_acceptances", total)
	res.Count("hot_final_sequential_acceptances", finalAccepted)
	res.Count("hot_final_acceptance_later_than_1.5_windows_plus_200ms", slow)
	res.Count("hot_suspected_stuck_handed_to_sequential_phase", suspected)
	res.Count("hot_episodes", episodes)
	if minAcc < rounds && !res.Failed() {
		res.Count("hot_budget_ended_early", 1)
	}
	res.NonTrivial = minAcc >= 4 && dups.Load() > 0
	res.Sig = vlib.Sig(spec, total/8, finalAccepted)
	res.Sample = map[string]any{"spec": spec, "presentations": presented.Load(), "acceptances": total, "duplicate_answers": dups.Load(),
		"hot_phases": hotSpan.String(), "episodes": episodes, "suspected_stuck": suspected}
	return res
}
