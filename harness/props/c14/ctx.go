package c14

// Class "ctx": the deduplicator in front of messages whose contexts are in every state.
//
// The statement: "Among all messages that map to the same deduplication key within the retention window ...
// exactly one reaches the handler (or the wrapped publisher); the others are dropped as successes (acked)
// without invoking it". Deduplicator.IsDuplicate derives the repository context from the MESSAGE's context
// (context.WithTimeout(m.Context(), d.Timeout)), so the state of that context is an input of the property.
//
// What the oracle may and may not conclude about an arrival that comes back with an ERROR (it was neither
// handled nor dropped as a success):
//   - an error is tolerated only when the derived context can legitimately be done: the message context is
//     cancelled / past its deadline / cancelled while the call is in progress, or Deduplicator.Timeout is
//     short (< 1 min: on a loaded machine it can elapse); an ExpiringKeyRepository that honours its context
//     and reports ctx.Err() is a correct repository. With a live context and Timeout >= 1 min an error is
//     a violation (the message is neither the one that got through nor a duplicate dropped as success);
//   - a rejected arrival did not reach the handler, so it must not count as "the one" of its key: whatever is
//     presented afterwards must still find exactly one message of the key getting through. Hence
//     (a) a message may be dropped as a success only if a message of its key reached the handler/publisher
//     (judged at the instant of the drop when the presentations are sequential, at the end otherwise), and
//     (b) after all arrivals a final presentation with context.Background() through a Deduplicator with
//     Timeout = 1 min on the same repository must get through iff nothing of its key got through before.
//     If the key were remembered although nothing reached the handler, the redelivery would be lost silently.
//   - nothing is demanded about WHICH arrival wins, nor that a done context is rejected (the built-in
//     repository ignores its context, so a cancelled first arrival normally just wins).

import (
	"context"
	"fmt"
	"math"
	"runtime"
	"sync"
	"sync/atomic"
	"time"

	"github.com/ThreeDotsLabs/watermill/message"
	"github.com/ThreeDotsLabs/watermill/message/router/middleware"

	"verifharness/vlib"
)

const (
	stLive = iota
	stLiveCancelable
	stLiveFarDeadline
	stCancelledBefore
	stDeadlinePassed
	stParentCancelled
	stCancelInKeyFactory
	stCancelAtRepoEnter
	stCancelAfterReturn
	stDeadlineRacing
	nStates
)

var stateNames = [nStates]string{"live", "live-cancelable", "live-far-deadline", "cancelled-before", "deadline-passed",
	"parent-cancelled", "cancel-in-keyfactory", "cancel-at-repo-enter", "cancel-after-return", "deadline-racing"}

var doneStates = []int{stCancelledBefore, stDeadlinePassed, stParentCancelled, stCancelInKeyFactory, stCancelAtRepoEnter, stDeadlineRacing}

// mayBeDone: the message context may be done while the deduplicator is consulted.
func mayBeDone(s int) bool {
	for _, d := range doneStates {
		if d == s {
			return true
		}
	}
	return false
}

type ctxMarker struct{}

type arrival struct {
	idx        int
	key        int // -1: message whose KeyFactory fails
	state      int
	msg        *message.Message
	cancel     context.CancelFunc
	probe      bool
	unhashable bool
	// written by the presenting goroutine, read after it finished
	result    string // middleware: handled|dropped|error:..|unexpected..; decorator: ok|error:..
	tolerated bool   // an error of this presentation is tolerated
	reached   atomic.Bool
}

func ctxClass(e *vlib.Env, decorator bool) vlib.Result {
	r := e.R
	class := "ctx-middleware"
	target := "handler"
	if decorator {
		class = "ctx-decorator"
		target = "inner publisher"
	}
	hs := pickHasher(r)
	defaultHasher := r.Chance(0.15)
	if defaultHasher {
		// KeyFactory left nil: documented default NewMessageHasherAdler32(math.MaxInt64), the whole payload is the key
		hs = hasherSpec{"default", math.MaxInt64, func() middleware.MessageHasher { return middleware.NewMessageHasherAdler32(math.MaxInt64) }, prefixRef(math.MaxInt64)}
	}
	timeouts := []time.Duration{-time.Second, 0, time.Millisecond, 5 * time.Millisecond, 50 * time.Millisecond, time.Second,
		time.Minute, time.Minute, time.Hour, time.Hour}
	timeout := timeouts[r.Intn(len(timeouts))]
	strict := timeout >= time.Minute
	nkeys := r.Range(1, 4)
	total := r.Range(nkeys, 4*nkeys+2)
	g := 1
	if r.Chance(0.4) {
		g = r.Range(2, 12)
	}
	yieldP := []float64{0, 0.3, 0.7}[r.Intn(3)]
	defaultRepo := r.Chance(0.5)
	doneBias := []float64{0.35, 0.6, 0.9}[r.Intn(3)]
	poison := decorator && !defaultHasher && r.Chance(0.35)
	spec := fmt.Sprintf("%s hasher=%s timeout=%v keys=%d arrivals=%d goroutines=%d yield=%.1f defaultRepo=%v poison=%v", class, hs.name, timeout, nkeys, total, g, yieldP, defaultRepo, poison)
	res := vlib.Result{Class: class, Spec: spec}
	harnessErr := func(err error) vlib.Result {
		res.Verdict = vlib.HarnessError
		res.Reason = err.Error()
		return res
	}

	var repo middleware.ExpiringKeyRepository
	retention := time.Minute // documented default
	if !defaultRepo {
		var err error
		retention = time.Hour
		if repo, err = middleware.NewMapExpiringKeyRepository(retention); err != nil {
			return harnessErr(err)
		}
	}

	// ---- messages -------------------------------------------------------------------------------------------
	n := eff(hs.limit)
	if n > 200 {
		n = r.Range(0, 200)
	}
	allKeys := nkeys
	if poison {
		allKeys++
	}
	prefixes := make([][]byte, allKeys)
	for k := range prefixes {
		prefixes[k] = append(r.Bytes(n), byte(k))
	}
	var cancels []context.CancelFunc
	defer func() {
		for _, c := range cancels {
			c()
		}
	}()
	byMsg := map[*message.Message]*arrival{}
	var all []*arrival
	mk := func(k, state int) *arrival {
		a := &arrival{idx: len(all), key: k, state: state}
		var payload []byte
		kk := k
		if kk < 0 {
			kk = 0
		}
		if hs.limit > 1<<20 || hs.name == "metadata(k)" {
			payload = append([]byte{}, prefixes[kk]...)
		} else {
			p := append([]byte{}, prefixes[kk]...)
			for len(p) < eff(hs.limit) {
				p = append(p, byte(kk))
			}
			payload = append(p, r.Bytes(r.Intn(40))...)
		}
		a.msg = message.NewMessage(fmt.Sprintf("%s/%d", e.ID(), a.idx), payload)
		a.msg.Metadata.Set("k", fmt.Sprintf("%s-key%d", e.ID(), k))
		all = append(all, a)
		byMsg[a.msg] = a
		return a
	}
	// contexts are attached right before the presentations start (deadline-racing ones are armed there)
	arm := func(a *arrival) {
		var ctx context.Context
		switch a.state {
		case stLive:
			return // message.NewMessage default: context.Background()
		case stLiveCancelable, stCancelInKeyFactory, stCancelAtRepoEnter, stCancelAfterReturn:
			ctx, a.cancel = context.WithCancel(context.WithValue(context.Background(), ctxMarker{}, a.idx))
		case stLiveFarDeadline:
			ctx, a.cancel = context.WithTimeout(context.Background(), time.Hour)
		case stCancelledBefore:
			ctx, a.cancel = context.WithCancel(context.Background())
			a.cancel()
		case stDeadlinePassed:
			ctx, a.cancel = context.WithDeadline(context.Background(), time.Now().Add(-time.Second))
		case stParentCancelled:
			parent, pc := context.WithCancel(context.Background())
			pc()
			ctx = context.WithValue(parent, ctxMarker{}, a.idx)
		case stDeadlineRacing:
			ctx, a.cancel = context.WithTimeout(context.Background(), time.Duration(50+r.Intn(3000))*time.Microsecond)
		}
		if a.cancel != nil {
			cancels = append(cancels, a.cancel)
		}
		a.msg.SetContext(ctx)
	}
	pickState := func() int {
		if r.Chance(doneBias) {
			return doneStates[r.Intn(len(doneStates))]
		}
		return r.Intn(nStates)
	}
	arrivals := make([]*arrival, total)
	for i := range arrivals {
		k := r.Intn(nkeys)
		if i < nkeys {
			k = i // every key is presented at least once
		}
		st := pickState()
		if defaultHasher && st == stCancelInKeyFactory {
			st = stCancelledBefore // no KeyFactory of ours to cancel in
		}
		arrivals[i] = mk(k, st)
	}
	order := r.Perm(total)
	shuffled := make([]*arrival, total)
	for i, j := range order {
		shuffled[i] = arrivals[j]
	}
	arrivals = shuffled
	probes := make([]*arrival, allKeys)
	for k := range probes {
		probes[k] = mk(k, stLive)
		probes[k].probe = true
	}
	var poisonBatch []*arrival
	if poison {
		a, b := mk(nkeys, []int{stLive, stLiveCancelable, stLiveFarDeadline}[r.Intn(3)]), mk(-1, stLive)
		b.unhashable = true
		poisonBatch = []*arrival{a, b}
		if r.Bool() {
			poisonBatch = []*arrival{b, a}
		}
	}

	// ---- deduplicator under test ------------------------------------------------------------------------------
	base := hs.mk()
	keyStr := make([]string, allKeys) // repository key per key index, for matching hook arrivals
	for k := range keyStr {
		var err error
		if keyStr[k], err = base(probes[k].msg); err != nil {
			return harnessErr(err)
		}
	}
	var kf middleware.MessageHasher
	if !defaultHasher {
		inner := hs.mk()
		kf = func(m *message.Message) (string, error) {
			a := byMsg[m]
			if a != nil && a.unhashable {
				return "", fmt.Errorf("harness: message %s cannot be hashed", m.UUID)
			}
			k, err := inner(m)
			if a != nil && a.state == stCancelInKeyFactory {
				a.cancel() // the message context ends while the deduplicator is already working on the message
			}
			return k, err
		}
	}
	ctl := vlib.NewCtl(r.Uint64(), yieldP, 30)
	defer ctl.Uninstall()
	var inflMu sync.Mutex
	inflight := map[string][]*arrival{} // repository key -> cancel-at-repo-enter arrivals being presented
	var hookCancels atomic.Int64
	ctl.Observe(func(point, a, b string) {
		if point != "dedup.isduplicate.enter" {
			return
		}
		// inside ExpiringKeyRepository.IsDuplicate, before its critical section: the derived context exists already
		inflMu.Lock()
		for _, ar := range inflight[a] {
			ar.cancel()
			hookCancels.Add(1)
		}
		inflMu.Unlock()
	})

	var mu sync.Mutex
	passed := make([][]int, allKeys) // key -> arrival indices that reached the handler / inner publisher
	npassed := func(k int) int {
		mu.Lock()
		defer mu.Unlock()
		return len(passed[k])
	}
	reach := func(m *message.Message) {
		a := byMsg[m]
		a.reached.Store(true)
		if a.key >= 0 {
			mu.Lock()
			passed[a.key] = append(passed[a.key], a.idx)
			mu.Unlock()
		}
	}
	out := message.NewMessage(e.ID()+"/out", nil)
	handler := func(m *message.Message) ([]*message.Message, error) {
		reach(m)
		return []*message.Message{out}, nil
	}
	innerPub := &vlib.Pub{Name: e.ID()}
	innerPub.Script = func(no int, topic string, ms []*message.Message) error {
		for _, m := range ms {
			reach(m)
		}
		return nil
	}
	d := &middleware.Deduplicator{KeyFactory: kf, Repository: repo, Timeout: timeout}
	var wrapped, wrappedProbe message.HandlerFunc
	var decPub, decProbe message.Publisher
	var err error
	if decorator {
		if decPub, err = d.PublisherDecorator()(innerPub); err != nil {
			return harnessErr(err)
		}
	} else {
		wrapped = d.Middleware(handler)
	}
	// the final presentations go through a second Deduplicator on the SAME repository and key factory whose
	// Timeout (1 min) cannot elapse, so that their outcome does not depend on the machine's load
	if d.Repository == nil {
		return harnessErr(fmt.Errorf("Deduplicator.Repository still nil after wrapping (defaults not applied?)"))
	}
	d2 := &middleware.Deduplicator{KeyFactory: kf, Repository: d.Repository, Timeout: time.Minute}
	if decorator {
		if decProbe, err = d2.PublisherDecorator()(innerPub); err != nil {
			return harnessErr(err)
		}
	} else {
		wrappedProbe = d2.Middleware(handler)
	}

	// ---- presentations ------------------------------------------------------------------------------------------
	type failure struct{ clause, text string }
	var failMu sync.Mutex
	var failures []failure
	fail := func(clause, f string, a ...any) {
		failMu.Lock()
		failures = append(failures, failure{clause, fmt.Sprintf(f, a...)})
		failMu.Unlock()
	}
	var events, doneFirst atomic.Int64
	// present hands one middleware call / one Publish batch to the deduplicator. sequential: no other presentation
	// is in progress, so "dropped as success" can be judged against the winners known at this instant.
	present := func(batch []*arrival, viaProbe, sequential bool) {
		tolerated := false
		for _, a := range batch {
			if mayBeDone(a.state) || a.unhashable || (!strict && !viaProbe) {
				tolerated = true
			}
			if sequential && mayBeDone(a.state) && a.key >= 0 && npassed(a.key) == 0 {
				doneFirst.Add(1)
			}
			if a.state == stCancelAtRepoEnter {
				inflMu.Lock()
				inflight[keyStr[a.key]] = append(inflight[keyStr[a.key]], a)
				inflMu.Unlock()
			}
		}
		if decorator {
			ms := make([]*message.Message, len(batch))
			for i, a := range batch {
				ms[i] = a.msg
			}
			p := decPub
			if viaProbe {
				p = decProbe
			}
			err := p.Publish("t", ms...)
			// the slice handed over is the caller's: same messages in the same order afterwards, whatever the outcome
			for i, a := range batch {
				if ms[i] != a.msg {
					fail("caller-batch-rewritten", "the slice passed to Publish was rewritten by the decorator (call returned %v): position %d held message %d and now holds %q", err, i, a.idx, uuidOf(ms[i]))
					break
				}
			}
			for _, a := range batch {
				a.tolerated = tolerated
				if err != nil {
					a.result = "error:" + err.Error()
				} else {
					a.result = "ok"
				}
			}
		} else {
			a := batch[0]
			h := wrapped
			if viaProbe {
				h = wrappedProbe
			}
			outs, err := h(a.msg)
			a.tolerated = tolerated
			switch {
			case err != nil:
				a.result = "error:" + err.Error()
			case len(outs) == 1 && outs[0] == out:
				a.result = "handled"
			case outs == nil:
				a.result = "dropped"
			default:
				a.result = fmt.Sprintf("unexpected-outputs(%d)", len(outs))
			}
		}
		events.Add(int64(len(batch)))
		for _, a := range batch {
			switch a.state {
			case stCancelAtRepoEnter:
				inflMu.Lock()
				l := inflight[keyStr[a.key]]
				for i := range l {
					if l[i] == a {
						l = append(l[:i:i], l[i+1:]...)
						break
					}
				}
				inflight[keyStr[a.key]] = l
				inflMu.Unlock()
			case stCancelAfterReturn:
				a.cancel()
			}
			if sequential && a.key >= 0 && (a.result == "dropped" || a.result == "ok") && !a.reached.Load() && npassed(a.key) == 0 && !(poison && a.key == nkeys) {
				fail("dropped-without-winner", "message %d (context %s) was dropped as a duplicate (%s) although no message of its key has reached the %s so far; earlier arrivals of the key: %s",
					a.idx, stateNames[a.state], a.result, target, historyOf(all, a))
			}
		}
	}
	for _, a := range all {
		arm(a)
	}
	start := time.Now()
	barrier := make(chan struct{})
	var wg sync.WaitGroup
	for w := 0; w < g; w++ {
		wg.Add(1)
		rr := r.Fork()
		go func(w int) {
			defer wg.Done()
			defer func() {
				if v := recover(); v != nil {
					fail("panic", "panic: %v", v)
				}
			}()
			<-barrier
			for i := w; i < total; {
				for y := rr.Intn(3); y > 0; y-- {
					runtime.Gosched()
				}
				var batch []*arrival
				nb := 1
				if decorator {
					nb = rr.Range(1, 3)
				}
				for ; nb > 0 && i < total; nb-- {
					batch = append(batch, arrivals[i])
					i += g
				}
				present(batch, false, g == 1)
			}
		}(w)
	}
	done := make(chan struct{})
	go func() { wg.Wait(); close(done) }()
	close(barrier)
	wait := func(ch chan struct{}, what string) bool {
		if oc, dump := vlib.WaitClosed(ch, vlib.WD); oc == vlib.Stuck {
			res.Fail("blocks", "a deduplicated call never returned (quiescent, %s): %s", what, spec)
			res.Witness = dump
			return false
		} else if oc == vlib.Inconclusive {
			res.Inconclusive("%s did not finish", what)
			return false
		}
		return true
	}
	if !wait(done, "arrivals") {
		return res
	}
	// the batch with a member whose KeyFactory fails, then one final live presentation per key: all sequential
	probeOrder := r.Perm(allKeys)
	done2 := make(chan struct{})
	go func() {
		defer close(done2)
		defer func() {
			if v := recover(); v != nil {
				fail("panic", "panic: %v", v)
			}
		}()
		if poisonBatch != nil {
			present(poisonBatch, true, true)
		}
		for _, k := range probeOrder {
			present([]*arrival{probes[k]}, true, true)
		}
	}()
	if !wait(done2, "final presentations") {
		return res
	}
	elapsed := time.Since(start)

	// ---- judgement -----------------------------------------------------------------------------------------------
	for _, f := range failures {
		res.Fail(f.clause, "%s (%s)", f.text, spec)
	}
	drops := make([]int, allKeys)
	rejected, doneArr, doneWon := 0, 0, 0
	for _, a := range all {
		if a.result == "" {
			res.Fail("panic", "arrival %d was never presented (%s)", a.idx, spec)
			continue
		}
		reached := a.reached.Load()
		if mayBeDone(a.state) {
			doneArr++
			if reached {
				doneWon++
			}
		}
		isErr := len(a.result) >= 6 && a.result[:6] == "error:"
		switch {
		case isErr && reached:
			res.Fail("error-returned", "message %d reached the %s, which succeeded, but the deduplicator returned %q: %s", a.idx, target, a.result, spec)
		case isErr && !a.tolerated:
			res.Fail("live-arrival-rejected", "message %d (context %s, Timeout %v, probe=%v) was neither passed on nor dropped as a success: %q: %s", a.idx, stateNames[a.state], timeout, a.probe, a.result, spec)
		case isErr:
			rejected++
		case decorator: // ok
			settled := vlib.Settled(a.msg)
			if reached && settled != "" {
				res.Fail("forwarded-message-settled", "message %d was forwarded to the inner publisher but the decorator %sed it: %s", a.idx, settled, spec)
			}
			if !reached {
				if a.key >= 0 {
					drops[a.key]++
				}
				if settled != "ack" {
					res.Fail("duplicate-not-acked", "message %d was filtered as a duplicate but is %q instead of acked: %s", a.idx, settled, spec)
				}
			}
		default:
			if reached && a.result != "handled" {
				res.Fail("winner-result-changed", "message %d reached the handler but the middleware returned %q: %s", a.idx, a.result, spec)
			}
			if !reached {
				if a.result != "dropped" {
					res.Fail("duplicate-not-dropped-as-success", "message %d did not reach the handler but the middleware returned %q instead of (nil,nil): %s", a.idx, a.result, spec)
				} else if a.key >= 0 {
					drops[a.key]++
				}
			}
		}
	}
	winners := ""
	for k := 0; k < allKeys; k++ {
		p := passed[k]
		poisoned := poison && k == nkeys
		switch {
		case len(p) > 1:
			if elapsed < retention/4 {
				res.Fail("duplicate-passed", "%d messages of the same key reached the %s (arrivals %v) within %v, retention window %v: %s; arrivals of the key: %s", len(p), target, p, elapsed, retention, spec, historyOfKey(all, k))
			} else {
				res.Inconclusive("case took %v, too close to the retention window %v to judge a second acceptance", elapsed, retention)
			}
		case len(p) == 0 && drops[k] > 0 && poisoned:
			// A Publish batch was rejected because a LATER member could not be hashed; the earlier, fresh member had already
			// been recorded, was not published, and its retry is now filtered as a duplicate. This was present on the
			// pinned tree (deduplicatingPublisherDecorator.Publish recorded keys while it walked the batch) and is fixed.
			res.Fail("batch-abort-key-remembered", "a Publish batch was rejected with an error after a fresh message of it had been recorded; nothing was published, and the retry of that message was dropped as a duplicate: %s; arrivals of the key: %s", spec, historyOfKey(all, k))
		case len(p) == 0 && drops[k] > 0:
			res.Fail("dropped-without-winner", "%d message(s) of one key were dropped as duplicates and none of its %d arrivals reached the %s (the key is remembered although every earlier arrival was rejected with an error): %s; arrivals of the key: %s", drops[k], countKey(all, k), target, spec, historyOfKey(all, k))
		case len(p) == 0:
			// every arrival incl. the final live one was rejected: reported above as live-arrival-rejected
			res.Fail("none-passed", "no arrival of a key reached the %s and none was dropped: %s; arrivals of the key: %s", target, spec, historyOfKey(all, k))
		default:
			a := all[p[0]]
			winners += fmt.Sprintf("%d:%s,", k, stateNames[a.state])
		}
	}
	shape := ""
	for _, a := range arrivals {
		shape += fmt.Sprintf("%d%c", a.key, 'a'+a.state)
	}
	res.Events = int(events.Load())
	res.Hooks = ctl.Counts()
	res.Count("ctx_arrivals", len(all))
	res.Count("ctx_arrivals_context_maybe_done", doneArr)
	res.Count("ctx_done_arrival_before_any_winner", int(doneFirst.Load()))
	res.Count("ctx_done_arrival_won", doneWon)
	res.Count("ctx_rejected_with_tolerated_error", rejected)
	res.Count("ctx_cancelled_inside_repository_call", int(hookCancels.Load()))
	res.Count("ctx_final_live_presentations", allKeys)
	if poison {
		res.Count("ctx_batches_with_unhashable_member", 1)
	}
	if decorator {
		res.Count("inner_publish_calls", len(innerPub.Calls()))
	}
	res.NonTrivial = doneArr > 0
	res.Sig = vlib.Sig(spec, shape, winners)
	res.Sample = map[string]any{"spec": spec, "arrivals(key,state)": shape, "winners": winners, "rejected": rejected}
	return res
}

func countKey(all []*arrival, k int) int {
	n := 0
	for _, a := range all {
		if a.key == k {
			n++
		}
	}
	return n
}

// historyOfKey lists the arrivals of a key in index order with context state and outcome (presentation order is
// the index order only for the probes; enough for a witness).
func historyOfKey(all []*arrival, k int) string {
	s := ""
	for _, a := range all {
		if a.key == k {
			s += fmt.Sprintf("[#%d %s probe=%v -> %s reached=%v] ", a.idx, stateNames[a.state], a.probe, vlib.Trunc(a.result, 60), a.reached.Load())
		}
	}
	return s
}

// historyOf is historyOfKey restricted to arrivals already presented (sequential mode only).
func historyOf(all []*arrival, cur *arrival) string {
	s := ""
	for _, a := range all {
		if a.key == cur.key && a != cur && a.result != "" {
			s += fmt.Sprintf("[#%d %s -> %s reached=%v] ", a.idx, stateNames[a.state], vlib.Trunc(a.result, 60), a.reached.Load())
		}
	}
	return s
}
