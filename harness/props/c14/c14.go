// Package c14: Deduplicator lets exactly one message per key through per window.
package c14

import (
	"context"
	"fmt"
	"math"
	"runtime"
	"strings"
	"sync"
	"sync/atomic"
	"time"

	"github.com/ThreeDotsLabs/watermill/message"
	"github.com/ThreeDotsLabs/watermill/message/router/middleware"

	"verifharness/vlib"
)

func uuidOf(m *message.Message) string {
	if m == nil {
		return "<nil>"
	}
	return m.UUID
}

func init() {
	vlib.Register(&vlib.Prop{
		ID:              "C14",
		Level:           "exploration",
		RaceIsViolation: true,
		Cases: func(tier string) int {
			return baseCases(tier) + ctxCases(tier) + r4Cases(tier) + r5Cases(tier) + ksCases(tier)
		},
		Rule: "cases 0..639 (quick) / 0..39999 (thorough): case i runs class i%4: (0) middleware-concurrent, (1) publisher-decorator-concurrent: a multiset of 4..96 messages over 1..5 keys (payload sizes around the 64-byte read limit: equal prefixes with different tails, keys from SHA-256/Adler-32 with limits 1..MaxInt64 or a metadata field), " +
			"presented by 1..32 goroutines released by a barrier with yield injection at the repository's hook point, retention window 1 h (or the default repository, Repository left nil: one minute); exactly one message per key may reach the handler / inner publisher, all others must come back as (nil,nil) resp. acked and filtered; " +
			"(2) window: windows 5..50 ms, IsDuplicate polled with conservative monotonic stamps: a key accepted at [a0,a1] must be reported duplicate by any call ending before a0+window, and must be accepted again before 40 ticks of the harness's own ticker of period window/2 were received later than a1+window*1.5+1s (30 s budget, then inconclusive); " +
			"(3) hashers (pure): pairs of payloads with a common prefix >= max(limit,64) must get equal keys from both built-in hashers, pairs differing inside it different SHA-256 keys. " +
			"The following 320 (quick) / 12000 (thorough) cases alternate (4) ctx-middleware, (5) ctx-decorator: 1..4 keys, 1..18 arrivals whose MESSAGE CONTEXTS are live (Background, cancelable, far deadline), cancelled before, past their deadline, child of a cancelled parent, " +
			"cancelled inside the KeyFactory (after the deduplicator took the message), cancelled at the repository's hook point (inside IsDuplicate, before its critical section), cancelled after the call returned, or carry a 0.05..3 ms deadline that races the presentation; " +
			"Deduplicator.Timeout in {-1s,0,1ms,5ms,50ms,1s,1min,1h}, KeyFactory nil (default) in 15%, Repository nil (default) in 50%, presented sequentially (60%) or by 2..12 barrier-released goroutines, decorator batches of 1..3; " +
			"an arrival may come back with an error only if its context may be done or Timeout < 1 min (live-arrival-rejected otherwise); a message may be dropped as a success only if a message of its key reached the handler/publisher (dropped-without-winner: judged at the drop when sequential, at the end otherwise); " +
			"after all arrivals one Background-context message per key is presented through a Deduplicator{Timeout: 1min} on the same repository: it must get through iff nothing of its key did, so a key remembered for a rejected arrival is seen as a lost redelivery; at most one arrival per key gets through (duplicate-passed). " +
			"35% of the ctx-decorator cases also publish a batch {fresh message, message whose KeyFactory fails} and retry the fresh one (clause batch-abort-key-remembered: the fresh one must get through). " +
			"The last 320 (quick) / 6000 (thorough) cases run, by index j%5: (6, j%5==0) hot-expiry: ONE repository with a window of 1..8 ms lives through 100..800 expiries per key (as many as fit into ~1.2 s): a single hot key (2..3 keys in a third of the cases) is presented without pause (spinning or with sub-window timer waits) by 1..32 goroutines through the repository, the middleware or the decorator, every presentation bracketed by monotonic stamps [s,e]; " +
			"any two acceptances of a key must span at least the window (max(e)-min(s) >= window: accepted-twice-within-window); after the presenters returned, every key is presented sequentially, once per 4 ticks of a control ticker of period window/2 (left alone for 2 windows in between), until it is accepted again: " +
			"a presentation started later than lastAcceptanceEnd + window*1.5 + 1 s that is still dropped after 40 control ticks received past that instant is a violation (stuck-after-expiry: the key is not accepted again after it expired); " +
			"(7, j%5 in 1..3) fault-decorator, (8, j%5==4) fault-middleware: a program of 4..14 calls (decorator: batches of 1..4) over 2..6 keys mixing fresh keys, duplicates of earlier ones and the same key twice in a batch, sequential (60%) or by 2..8 goroutines; the wrapped publisher / handler returns an error or panics when its batch holds a message marked error/panic (15..50% / 0..20% of the messages) and for ~12% of the invocation numbers whatever the batch holds (also empty batches); then every key is presented again twice without faults. " +
			"A key is confirmed by an invocation that held a message of it and returned nil: no other message of the key may reach the wrapped publisher / handler except in a rejected invocation that ended before the confirming one started (confirmed-key-passed-again), nor two messages of a key in one invocation (batch-internal-duplicate-passed); " +
			"the fate of the keys of a rejected invocation is counted, not judged; drops need a winner and an ack / (nil,nil); an error or panic comes back only from a call whose invocation failed (error-returned). " +
			"The last 240 (quick) / 6000 (thorough) cases run, by index j%4: (9, j%4 in 0..2) retained-decorator, (10, j%4==3) retained-middleware - the arguments of a call belong to the caller: 1..3 callers each KEEP one batch (one slice of 2..6 messages over 2..6 keys, the same key possibly twice; handed over as Publish(topic, batch...), so the decorator works on the caller's backing array; the middleware gets the kept message objects one by one) and present the very same slice again and again; " +
			"mode fan-out (55%): to 2..3 deduplicators independent of each other (own repository each: 1 h or the default minute) in random order, 0..2 of them again within the window, a quarter of the neighbouring steps to two deduplicators at the same time from two goroutines, callers one after the other or concurrently; every deduplicator was shown a random subset of the keys (25/40/60% each) by another producer before, so each drops different members; " +
			"mode expiry (45%): to one deduplicator with a window of 5..30 ms round after round (1..4 ticks of a control ticker of period window/2 in between, always 4 once a key is overdue) until every key of the batch was accepted again 1..3 times, then (half of the cases) to a second deduplicator with a 1 h window that has never seen it. " +
			"Expectations are computed from the batch as the caller built it (private copy): per long-window deduplicator and key presented to it exactly one message reaches the wrapped publisher / handler (none-passed: suppressed by other keys / by what another deduplicator remembers / lost; duplicate-passed); short window: two acceptances of a key span at least the window (accepted-twice-within-window), a presentation of the batch that started later than lastAcceptanceEnd + window*1.5 + 1 s, 40 control ticks past that instant, and let no message of the key through is stuck-after-expiry; " +
			"a member dropped while nothing of its key got through yet is dropped-without-winner (sequential presentations); no error comes back, dropped members are acked, never-dropped ones not settled, (nil,nil) / the handler's result from the middleware; " +
			"after every call the caller's slice holds the same message pointers in the same order (caller-batch-rewritten) and UUID, payload and metadata of every member are unchanged (caller-message-changed), reported after the clauses above; the slice passed to Publish is compared in the same way after every decorator call of classes 1, 5 and 7 (also when the call returned an error or panicked), the message values at the end of classes 0 and 1. " +
			"The last 240 (quick) / 6000 (thorough) cases run, by index j%3: (11) keyspace-repository (IsDuplicate called directly), (12) keyspace-middleware, (13) keyspace-decorator (batches of 1..4) - the key is an arbitrary string (metadata-field hasher 60%, a user KeyFactory returning the payload 40%; repository 1 h or the default minute): " +
			"2..8 keys that are different Go strings but close to each other, one family per case: common-prefix / common-suffix (shared part of 0..4096 bytes, lengths around 4, 8, 16, 32, 64, 128, 256; distinct tails incl. a single NUL), one-byte-differs (one offset: first, last, middle, 3..128; one bit or any), prefixes-of-each-other (incl. the empty key), padding (trailing/leading NUL, blank, newline, tab, '=', '0'), " +
			"case-and-unicode (letter case, NFC/NFD, look-alike letters, zero-width and no-break blanks, invalid UTF-8 vs U+FFFD), permutations (swap, reverse, rotate of the same bytes), repetitions of one period, numeric-spellings of one number, digest-encodings (raw/hex/HEX/base64/doubled/halved digest of 4..64 bytes); " +
			"every key presented 1..3 times in shuffled order, sequentially (60%) or by 2..8 barrier-released goroutines; per distinct string exactly one presentation gets through (different-key-suppressed: none did, so only other keys can have suppressed it; duplicate-passed), sequentially the first one (dropped-without-winner), no error comes back, drops are (nil,nil) / acked. " +
			"Non-trivial: at least one key had >=2 concurrent presentations (0,1) / at least one duplicate answer and one re-acceptance were observed (2) / >=20 pairs (3) / at least one arrival whose context may be done (4,5) / every key was accepted >= 4 times and duplicates were answered (6) / at least one rejected invocation and one confirmed key (7,8) / a presentation in which a member was dropped in front of one that got through, and the batch was presented again afterwards (9) / a message dropped by one presentation got through in a later one (10) / >=2 different keys and at least one duplicate dropped (11-13). Distinct = (class, shape, observed winner pattern).",
		Assumptions: []string{
			"keys are compared through an independent reference (payload prefix / metadata value); hash collisions between different prefixes are not observable and assumed absent",
			"time is used only as a lower bound (window) and with a control ticker for the bounded 'accepted again' clause",
			"keyspace classes: two keys are the same key iff the Go strings are equal (MessageHasher returns a string, IsDuplicate takes a string; no normalisation, length limit or charset is documented); the empty string is a key; a second acceptance is judged only if the case took less than a quarter of the window",
			"ctx classes: an ExpiringKeyRepository may honour its context, so an error for an arrival whose derived context may be done is tolerated and counted (ctx_rejected_with_tolerated_error); such an arrival then counts neither as the one that got through nor as a dropped duplicate",
			"hot-expiry: 'accepted again after it expired' is judged only sequentially, from a presentation that STARTED more than window*1.5 (documented maximum retention of NewMapExpiringKeyRepository) + 1 s after the end of the last accepting call, and only after 40 ticks of a harness ticker with the clean-up period were received past that instant; time enters as a lower bound only, a slow machine delays the verdict",
			"fault classes: what a deduplicator does with the keys of a batch the wrapped publisher rejected (error or panic) is not specified by the statement and not judged; retention 1 h or the default minute, second acceptances judged only if the case took less than a quarter of it",
			"retained classes: a caller may keep and re-use what it passed to Publish / to the middleware (Go passes batch... without copying; neither message.Publisher nor the Deduplicator documentation transfers ownership of the arguments): the statement's 'messages' are the ones the caller built its batch from. Settlement is not part of a message's value here: the decorator acks the duplicates it drops, as documented. " +
				"'accepted again after it expired' is judged as in hot-expiry (lower bounds, control ticks); a deduplicator with the default repository is judged only if the case took less than a quarter of its minute",
			"ctx classes: the final presentations use a second Deduplicator (Timeout 1 min) sharing Repository and KeyFactory with the one under test; a second acceptance is judged only if the whole case took less than a quarter of the retention window (else inconclusive)",
		},
		Run: run,
	})
}

// baseCases: the classes of round 1/2 keep their case indices (and therefore their per-case PRNG streams).
func baseCases(tier string) int { return vlib.TierN(tier, 640, 40000) }

// ctxCases: message-context classes appended behind them.
func ctxCases(tier string) int { return vlib.TierN(tier, 320, 12000) }

// r4Cases: long-running expiry and wrapped-publisher fault classes appended behind them.
func r4Cases(tier string) int { return vlib.TierN(tier, 320, 6000) }

// r5Cases: retained-batch classes ("arguments belong to the caller") appended behind them.
func r5Cases(tier string) int { return vlib.TierN(tier, 240, 6000) }

func run(e *vlib.Env) vlib.Result {
	if b := baseCases(e.Tier) + ctxCases(e.Tier) + r4Cases(e.Tier) + r5Cases(e.Tier); e.Idx >= b {
		return keyspace(e, (e.Idx-b)%3)
	}
	if b := baseCases(e.Tier) + ctxCases(e.Tier) + r4Cases(e.Tier); e.Idx >= b {
		return retained(e, (e.Idx-b)%4 != 3)
	}
	if b := baseCases(e.Tier) + ctxCases(e.Tier); e.Idx >= b {
		switch j := (e.Idx - b) % 5; j {
		case 0:
			return hotExpiry(e)
		case 4:
			return faultClass(e, false)
		default:
			return faultClass(e, true)
		}
	}
	if b := baseCases(e.Tier); e.Idx >= b {
		return ctxClass(e, (e.Idx-b)%2 == 1)
	}
	switch e.Idx % 4 {
	case 0:
		return conc(e, false)
	case 1:
		return conc(e, true)
	case 2:
		return window(e)
	default:
		return hashers(e)
	}
}

type hasherSpec struct {
	name  string
	limit int64
	mk    func() middleware.MessageHasher
	// ref returns the reference key class of a message
	ref func(m *message.Message) string
}

func eff(limit int64) int {
	if limit < 64 {
		return 64
	}
	if limit > 1<<20 {
		return 1 << 20
	}
	return int(limit)
}

func prefixRef(limit int64) func(m *message.Message) string {
	return func(m *message.Message) string {
		n := eff(limit)
		if len(m.Payload) < n {
			n = len(m.Payload)
		}
		return string(m.Payload[:n])
	}
}

func pickHasher(r *vlib.Rand) hasherSpec {
	limits := []int64{1, 10, 63, 64, 65, 100, 1000, math.MaxInt64}
	l := limits[r.Intn(len(limits))]
	switch r.Intn(5) {
	case 0, 1:
		return hasherSpec{fmt.Sprintf("sha256(%d)", l), l, func() middleware.MessageHasher { return middleware.NewMessageHasherSHA256(l) }, prefixRef(l)}
	case 2, 3:
		return hasherSpec{fmt.Sprintf("adler32(%d)", l), l, func() middleware.MessageHasher { return middleware.NewMessageHasherAdler32(l) }, prefixRef(l)}
	default:
		return hasherSpec{"metadata(k)", 0, func() middleware.MessageHasher { return middleware.NewMessageHasherFromMetadataField("k") },
			func(m *message.Message) string { return m.Metadata["k"] }}
	}
}

func conc(e *vlib.Env, decorator bool) vlib.Result {
	r := e.R
	hs := pickHasher(r)
	nkeys := r.Range(1, 5)
	total := r.Range(4, 96)
	g := r.Range(1, 32)
	yieldP := []float64{0, 0.3, 0.7}[r.Intn(3)]
	class := "middleware"
	if decorator {
		class = "decorator"
	}
	spec := fmt.Sprintf("%s hasher=%s keys=%d messages=%d goroutines=%d yield=%.1f", class, hs.name, nkeys, total, g, yieldP)
	res := vlib.Result{Class: class + "/" + hs.name, Spec: spec}
	ctl := vlib.NewCtl(r.Uint64(), yieldP, 30)
	defer ctl.Uninstall()
	var repo middleware.ExpiringKeyRepository
	defaultRepo := r.Chance(0.4)
	if !defaultRepo {
		var err error
		repo, err = middleware.NewMapExpiringKeyRepository(time.Hour)
		if err != nil {
			res.Verdict = vlib.HarnessError
			res.Reason = err.Error()
			return res
		}
	} else {
		// Repository left nil: the documented default (in-memory, one minute window)
		spec += " repository=default"
		res.Spec = spec
	}
	d := &middleware.Deduplicator{KeyFactory: hs.mk(), Repository: repo, Timeout: time.Minute}
	var err error

	// key prefixes: random bytes of the effective read length, distinct per key
	n := eff(hs.limit)
	if n > 200 {
		n = r.Range(0, 200) // "whole payload" limits: payloads of any size are their own key
	}
	prefixes := make([][]byte, nkeys)
	for k := range prefixes {
		prefixes[k] = append(r.Bytes(n), byte(k)) // the last byte keeps keys distinct even for n==0
	}
	msgs := make([]*message.Message, total)
	refKey := make([]string, total)
	for i := range msgs {
		k := r.Intn(nkeys)
		var payload []byte
		if hs.limit > 1<<20 || hs.name == "metadata(k)" {
			payload = append([]byte{}, prefixes[k]...)
		} else {
			// same first eff(limit) bytes, different tails beyond the read limit
			p := append([]byte{}, prefixes[k]...)
			for len(p) < eff(hs.limit) {
				p = append(p, byte(k))
			}
			payload = append(p, r.Bytes(r.Intn(40))...)
		}
		m := message.NewMessage(fmt.Sprintf("%s/%d", e.ID(), i), payload)
		m.Metadata.Set("k", fmt.Sprintf("%s-key%d", e.ID(), k))
		msgs[i] = m
		refKey[i] = hs.ref(m)
	}
	// oracle state
	var mu sync.Mutex
	passed := map[string][]int{} // ref key -> message indices that reached the handler / inner publisher
	results := make([]string, total)
	var events atomic.Int64
	idxOf := map[*message.Message]int{}
	for i, m := range msgs {
		idxOf[m] = i
	}
	snaps := make([]vlib.MsgSnap, total)
	for i, m := range msgs {
		snaps[i] = vlib.Snap(m)
	}
	var sliceChecks atomic.Int64
	out := message.NewMessage("out", nil)
	handler := func(m *message.Message) ([]*message.Message, error) {
		mu.Lock()
		passed[refKey[idxOf[m]]] = append(passed[refKey[idxOf[m]]], idxOf[m])
		mu.Unlock()
		return []*message.Message{out}, nil
	}
	inner := &vlib.Pub{Name: e.ID()}
	inner.Script = func(no int, topic string, ms []*message.Message) error {
		mu.Lock()
		for _, m := range ms {
			passed[refKey[idxOf[m]]] = append(passed[refKey[idxOf[m]]], idxOf[m])
		}
		mu.Unlock()
		return nil
	}
	var wrapped message.HandlerFunc
	var decPub message.Publisher
	if decorator {
		decPub, err = d.PublisherDecorator()(inner)
		if err != nil {
			res.Verdict = vlib.HarnessError
			res.Reason = err.Error()
			return res
		}
	} else {
		wrapped = d.Middleware(handler)
	}
	barrier := make(chan struct{})
	var wg sync.WaitGroup
	var failMu sync.Mutex
	var failures []string
	fail := func(f string, a ...any) {
		failMu.Lock()
		failures = append(failures, fmt.Sprintf(f, a...))
		failMu.Unlock()
	}
	for w := 0; w < g; w++ {
		wg.Add(1)
		rr := r.Fork()
		go func(w int) {
			defer wg.Done()
			defer func() {
				if v := recover(); v != nil {
					fail("panic: %v", v)
				}
			}()
			<-barrier
			for i := w; i < total; {
				for y := rr.Intn(3); y > 0; y-- {
					runtime.Gosched()
				}
				if decorator {
					// a batch of 1..3 of this goroutine's messages
					var batch []*message.Message
					var idxs []int
					for b := rr.Range(1, 3); b > 0 && i < total; b-- {
						batch = append(batch, msgs[i])
						idxs = append(idxs, i)
						i += g
					}
					err := decPub.Publish("t", batch...)
					events.Add(int64(len(batch)))
					// the slice handed over is the caller's: same messages in the same order afterwards
					sliceChecks.Add(1)
					for j, ix := range idxs {
						if batch[j] != msgs[ix] {
							fail("caller-batch-rewritten: position %d of the slice passed to Publish held message %d and now holds %q", j, ix, uuidOf(batch[j]))
							break
						}
					}
					for _, ix := range idxs {
						if err != nil {
							results[ix] = "error:" + err.Error()
						} else {
							results[ix] = "ok"
						}
					}
				} else {
					outs, err := wrapped(msgs[i])
					events.Add(1)
					switch {
					case err != nil:
						results[i] = "error:" + err.Error()
					case len(outs) == 1 && outs[0] == out:
						results[i] = "handled"
					case outs == nil:
						results[i] = "dropped"
					default:
						results[i] = fmt.Sprintf("unexpected-outputs(%d)", len(outs))
					}
					i += g
				}
			}
		}(w)
	}
	done := make(chan struct{})
	go func() { wg.Wait(); close(done) }()
	close(barrier)
	if oc, dump := vlib.WaitClosed(done, vlib.WD); oc == vlib.Stuck {
		res.Fail("blocks", "a deduplicated call never returned (quiescent): %s", spec)
		res.Witness = dump
		return res
	} else if oc == vlib.Inconclusive {
		res.Inconclusive("workers did not finish")
		return res
	}
	judgeFailures := func() {
		for _, f := range failures {
			if strings.HasPrefix(f, "caller-batch-rewritten: ") {
				res.Fail("caller-batch-rewritten", "%s (%s)", strings.TrimPrefix(f, "caller-batch-rewritten: "), spec)
			} else {
				res.Fail("panic", "%s (%s)", f, spec)
			}
		}
	}
	for _, f := range failures {
		if !strings.HasPrefix(f, "caller-batch-rewritten: ") {
			res.Fail("panic", "%s (%s)", f, spec)
		}
	}
	// judge
	perKey := map[string]int{}
	for i := range msgs {
		perKey[refKey[i]]++
	}
	multi := 0
	winners := ""
	for k, cnt := range perKey {
		p := passed[k]
		if cnt >= 2 {
			multi++
		}
		if len(p) == 0 {
			res.Fail("none-passed", "%d message(s) of one key were presented and none reached the %s (distinct keys suppressed each other or all were dropped): %s", cnt, map[bool]string{false: "handler", true: "inner publisher"}[decorator], spec)
		} else if len(p) > 1 {
			res.Fail("duplicate-passed", "%d messages of the same key reached the %s (indices %v of %d presented) within a 1h window: %s", len(p), map[bool]string{false: "handler", true: "inner publisher"}[decorator], p, cnt, spec)
		} else {
			winners += fmt.Sprint(p[0]%g, ",")
		}
	}
	for i, m := range msgs {
		won := false
		for _, ix := range passed[refKey[i]] {
			if ix == i {
				won = true
			}
		}
		if decorator {
			acked := vlib.Settled(m)
			if results[i] != "ok" {
				res.Fail("error-returned", "Publish of message %d returned %q: %s", i, results[i], spec)
			}
			if !won && acked != "ack" {
				res.Fail("duplicate-not-acked", "message %d was filtered as a duplicate but is %q instead of acked: %s", i, acked, spec)
			}
			if won && acked != "" {
				res.Fail("forwarded-message-settled", "message %d was forwarded to the inner publisher but the decorator %sed it: %s", i, acked, spec)
			}
		} else {
			if won && results[i] != "handled" {
				res.Fail("winner-result-changed", "message %d reached the handler but the middleware returned %q: %s", i, results[i], spec)
			}
			if !won && results[i] != "dropped" {
				res.Fail("duplicate-not-dropped-as-success", "message %d did not reach the handler but the middleware returned %q instead of (nil,nil): %s", i, results[i], spec)
			}
		}
	}
	// the clauses of the statement first, then what the caller sees in the arguments it handed over
	judgeFailures()
	for i, m := range msgs {
		if !snaps[i].SameValue(m) {
			res.Fail("caller-message-changed", "message %d was changed by the deduplicator (UUID, payload or metadata): %s", i, spec)
			break
		}
	}
	if decorator {
		// no empty-batch problem: every inner call's messages were counted per message above; inner calls may be empty
		res.Count("inner_publish_calls", len(inner.Calls()))
		res.Count("caller_slice_checks", int(sliceChecks.Load()))
	}
	res.Events = int(events.Load())
	res.Hooks = ctl.Counts()
	res.Count("keys_with_concurrent_copies", multi)
	res.Count("messages_presented", total)
	res.NonTrivial = multi > 0 && g > 1
	res.Sig = vlib.Sig(spec, winners)
	res.Sample = map[string]any{"spec": spec, "keys": len(perKey), "winner_goroutines": winners}
	return res
}

func window(e *vlib.Env) vlib.Result {
	r := e.R
	win := time.Duration(r.Range(5, 50)) * time.Millisecond
	nkeys := r.Range(1, 3)
	spec := fmt.Sprintf("window=%v keys=%d", win, nkeys)
	res := vlib.Result{Class: "window", Spec: spec}
	repo, err := middleware.NewMapExpiringKeyRepository(win)
	if err != nil {
		res.Verdict = vlib.HarnessError
		res.Reason = err.Error()
		return res
	}
	ctx := context.Background()
	type st struct {
		a0    time.Time // start of the call that (re-)accepted the key
		a1    time.Time
		ticks int // control ticks seen since a1+window
	}
	keys := make([]string, nkeys)
	state := make([]st, nkeys)
	for k := range keys {
		keys[k] = fmt.Sprintf("%s/k%d", e.ID(), k)
		t0 := time.Now()
		dup, _ := repo.IsDuplicate(ctx, keys[k])
		t1 := time.Now()
		if dup {
			res.Fail("fresh-key-duplicate", "a never-seen key was reported as duplicate: %s", spec)
			return res
		}
		state[k] = st{a0: t0, a1: t1}
	}
	control := time.NewTicker(win / 2)
	defer control.Stop()
	dups, reaccepted, polls := 0, 0, 0
	deadline := time.Now().Add(30 * time.Second)
	for reaccepted < 2*nkeys && time.Now().Before(deadline) && !res.Failed() {
		// one poll round per control tick and a few in between
		select {
		case <-control.C:
			for k := range state {
				// same rule as hot-expiry / retained: only ticks received later than a1 + window*1.5 (documented maximum
				// retention) + 1 s count, and 40 of them are needed; on a loaded machine (thousands of tickers of earlier cases in
				// the process, load average > 100) 12 ticks past a1+window have been seen before the clean-up goroutine ran once
				if time.Since(state[k].a1) > win+win/2+hotMargin {
					state[k].ticks++
				}
			}
		default:
		}
		for k := range keys {
			b0 := time.Now()
			dup, _ := repo.IsDuplicate(ctx, keys[k])
			b1 := time.Now()
			polls++
			if dup {
				dups++
				if state[k].ticks >= hotControlTicks {
					res.Fail("never-expires", "key still reported duplicate although %d ticks of a control ticker with period window/2 were received later than a1+window*1.5+%v (%v after acceptance): %s", state[k].ticks, hotMargin, b1.Sub(state[k].a1), spec)
				}
				continue
			}
			// accepted again: the previous acceptance started at a0, so it must have been remembered until >= a0+window
			if b1.Sub(state[k].a0) < win {
				res.Fail("forgotten-too-early", "key accepted at (call start) %v was accepted again by a call that ended only %v later, window is %v: %s", state[k].a0.Format("15:04:05.000000"), b1.Sub(state[k].a0), win, spec)
			}
			reaccepted++
			state[k] = st{a0: b0, a1: b1}
		}
		vlib.TimerWait(win / 8)
	}
	if reaccepted < 2*nkeys && !res.Failed() {
		res.Inconclusive("only %d re-acceptances observed before the 30s budget (machine too slow?)", reaccepted)
	}
	res.Events = polls
	res.Count("duplicate_answers", dups)
	res.Count("reacceptances", reaccepted)
	res.NonTrivial = dups > 0 && reaccepted > 0
	res.Sig = vlib.Sig(spec, dups/4, reaccepted)
	res.Sample = map[string]any{"spec": spec, "polls": polls, "duplicate_answers": dups, "reacceptances": reaccepted}
	return res
}

func hashers(e *vlib.Env) vlib.Result {
	r := e.R
	res := vlib.Result{Class: "hashers"}
	limits := []int64{-5, 0, 1, 10, 63, 64, 65, 100, 257, 1000, math.MaxInt64}
	pairs := 0
	var sample []string
	for it := 0; it < 60 && !res.Failed(); it++ {
		l := limits[r.Intn(len(limits))]
		n := eff(l)
		whole := l > 1<<20
		sha, adl := middleware.NewMessageHasherSHA256(l), middleware.NewMessageHasherAdler32(l)
		key := func(h middleware.MessageHasher, p []byte) string {
			k, err := h(message.NewMessage("u", p))
			if err != nil {
				res.Fail("hasher-error", "hasher(limit %d) returned %v for a %d-byte payload", l, err, len(p))
			}
			return k
		}
		// (a) common prefix >= effective limit => equal keys
		if !whole {
			prefix := r.Bytes(n + r.Intn(10))
			p1 := append(append([]byte{}, prefix...), r.Bytes(r.Intn(50))...)
			p2 := append(append([]byte{}, prefix...), r.Bytes(1+r.Intn(50))...)
			pairs++
			if key(sha, p1) != key(sha, p2) {
				res.Fail("sha256-prefix-equal", "SHA-256 hasher with limit %d (effective %d): payloads sharing their first %d bytes got different keys", l, n, len(prefix))
			}
			if key(adl, p1) != key(adl, p2) {
				res.Fail("adler32-prefix-equal", "Adler-32 hasher with limit %d (effective %d): payloads sharing their first %d bytes got different keys", l, n, len(prefix))
			}
		}
		// (b) identical payloads => equal keys; (c) differing inside the effective limit => different SHA-256 keys
		ln := r.Range(1, 200)
		p := r.Bytes(ln)
		q := append([]byte{}, p...)
		pairs++
		if key(sha, p) != key(sha, q) || key(adl, p) != key(adl, q) {
			res.Fail("equal-payload-different-key", "identical payloads got different keys (limit %d)", l)
		}
		lim := n
		if whole || lim > ln {
			lim = ln
		}
		pos := r.Intn(lim)
		q[pos] ^= byte(1 + r.Intn(255))
		pairs++
		if key(sha, p) == key(sha, q) {
			res.Fail("sha256-differ-inside-limit", "SHA-256 hasher with limit %d (effective %d): %d-byte payloads differing at byte %d got the same key", l, n, ln, pos)
		}
		// (d) one payload is a proper prefix of the other, cut inside the limit => different SHA-256 keys
		if ln >= 2 && lim >= 2 {
			cut := r.Range(1, lim-1) // strictly inside the part that is read
			if cut < ln {
				pairs++
				if key(sha, p) == key(sha, p[:cut]) {
					res.Fail("sha256-differ-inside-limit", "SHA-256 hasher with limit %d: a %d-byte payload and its %d-byte prefix got the same key", l, ln, cut)
				}
			}
		}
		if len(sample) < 3 {
			sample = append(sample, fmt.Sprintf("limit=%d effective=%d len=%d flippedByte=%d", l, n, ln, pos))
		}
	}
	res.Events = pairs
	res.Count("hasher_pairs", pairs)
	res.NonTrivial = pairs >= 20
	res.Sig = vlib.Sig("hashers", e.Idx)
	res.Sample = map[string]any{"pairs": pairs, "examples": sample}
	return res
}
