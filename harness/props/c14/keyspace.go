package c14

// Class 11/12/13 "keyspace": the deduplication key is an arbitrary string (MessageHasher returns `string`,
// ExpiringKeyRepository.IsDuplicate takes `key string`; NewMessageHasherFromMetadataField hands a user-chosen
// metadata value through unchanged, a user KeyFactory may return anything). "Messages with different keys never
// suppress each other" and "exactly one per key" are therefore demanded over families of keys that are DIFFERENT
// STRINGS but close to each other in the ways an implementation might confuse them: a long common prefix or suffix,
// one differing byte at a chosen offset, proper prefixes of each other (incl. the empty key), trailing/leading padding
// (NUL, blanks), letter case and Unicode look-alikes / invalid UTF-8, permutations of the same bytes, repetitions of one
// period, numeric spellings, encodings of one digest. Two keys are the same key iff the Go strings are equal.

import (
	"context"
	"encoding/base64"
	"encoding/hex"
	"fmt"
	"runtime"
	"strings"
	"sync"
	"time"

	"github.com/ThreeDotsLabs/watermill/message"
	"github.com/ThreeDotsLabs/watermill/message/router/middleware"

	"verifharness/vlib"
)

// ksCases: key-space classes appended behind the retained-batch classes.
func ksCases(tier string) int { return vlib.TierN(tier, 240, 6000) }

var ksLens = []int{0, 1, 3, 4, 7, 8, 12, 15, 16, 17, 20, 24, 31, 32, 33, 48, 63, 64, 65, 100, 127, 128, 129, 255, 256, 257, 1000, 4096}

const ksPrintable = "abcdefghijklmnopqrstuvwxyzABCDEFGHIJKLMNOPQRSTUVWXYZ0123456789/-_.:"

func ksBase(r *vlib.Rand, n int) []byte {
	if r.Bool() {
		return r.Bytes(n)
	}
	b := make([]byte, n)
	for i := range b {
		b[i] = ksPrintable[r.Intn(len(ksPrintable))]
	}
	return b
}

// ksFamily returns a family name, a parameter description and >= 2 pairwise different keys.
func ksFamily(r *vlib.Rand) (string, string, []string) {
	for {
		fam, par, raw := ksFamilyOnce(r)
		seen := map[string]bool{}
		var keys []string
		for _, k := range raw {
			if !seen[k] {
				seen[k] = true
				keys = append(keys, k)
			}
		}
		if len(keys) > 8 {
			p := r.Perm(len(keys))
			sel := make([]string, 0, 8)
			for _, ix := range p[:8] {
				sel = append(sel, keys[ix])
			}
			keys = sel
		}
		if len(keys) >= 2 {
			return fam, par, keys
		}
	}
}

func ksFamilyOnce(r *vlib.Rand) (string, string, []string) {
	n := r.Range(2, 8)
	L := ksLens[r.Intn(len(ksLens))]
	var keys []string
	distinctTail := func(i int) []byte {
		switch r.Intn(3) {
		case 0:
			return []byte{byte(i)} // NUL for i==0: differs from the bare base only by a trailing zero byte
		case 1:
			return []byte(fmt.Sprintf("%04d", i))
		default:
			return append(r.Bytes(r.Intn(8)), byte('A'+i))
		}
	}
	switch r.Intn(10) {
	case 0:
		base := ksBase(r, L)
		for i := 0; i < n; i++ {
			keys = append(keys, string(base)+string(distinctTail(i)))
		}
		if r.Chance(0.3) {
			keys = append(keys, string(base))
		}
		return "common-prefix", fmt.Sprintf("prefix=%d", L), keys
	case 1:
		base := ksBase(r, L)
		for i := 0; i < n; i++ {
			keys = append(keys, string(distinctTail(i))+string(base))
		}
		if r.Chance(0.3) {
			keys = append(keys, string(base))
		}
		return "common-suffix", fmt.Sprintf("suffix=%d", L), keys
	case 2:
		if L == 0 {
			L = 1
		}
		base := ksBase(r, L)
		cand := []int{0, L - 1, L / 2, r.Intn(L)}
		for _, p := range []int{3, 4, 7, 8, 15, 16, 31, 32, 63, 64, 127, 128} {
			if p < L {
				cand = append(cand, p)
			}
		}
		pos := cand[r.Intn(len(cand))]
		keys = append(keys, string(base))
		for i := 1; i < n; i++ {
			b := append([]byte{}, base...)
			switch r.Intn(4) {
			case 0:
				b[pos] ^= 0x80
			case 1:
				b[pos] ^= 0x20
			case 2:
				b[pos] ^= 0x01
			default:
				b[pos] ^= byte(1 + r.Intn(255))
			}
			keys = append(keys, string(b))
		}
		return "one-byte-differs", fmt.Sprintf("len=%d at=%d", L, pos), keys
	case 3:
		if L < 2 {
			L = 2 + r.Intn(40)
		}
		base := ksBase(r, L)
		keys = append(keys, string(base))
		for i := 1; i < n; i++ {
			cut := r.Intn(L)
			if cut == 0 && !r.Chance(0.3) {
				cut = 1 // the empty key only now and then
			}
			keys = append(keys, string(base[:cut]))
		}
		return "prefixes-of-each-other", fmt.Sprintf("len=%d", L), keys
	case 4:
		base := ksBase(r, L)
		pad := []string{"\x00", " ", "\n", "\t", "=", "0", "\r\n"}[r.Intn(7)]
		leading := r.Chance(0.3)
		for i := 0; i < n; i++ {
			cnt := i
			if i > 0 && r.Chance(0.3) {
				cnt = r.Range(1, 40)
			}
			if leading {
				keys = append(keys, strings.Repeat(pad, cnt)+string(base))
			} else {
				keys = append(keys, string(base)+strings.Repeat(pad, cnt))
			}
		}
		return "padding", fmt.Sprintf("len=%d pad=%q leading=%v", L, pad, leading), keys
	case 5:
		word := []string{"order-", "Tenant/Invoice-", "stra\u00dfe", "caf", "id", "\u01c5", "\u0130stanbul", "k"}[r.Intn(8)]
		pre := string(ksBase(r, []int{0, 0, 5, 16, 40}[r.Intn(5)]))
		all := []string{
			word, strings.ToLower(word), strings.ToUpper(word), strings.ToUpper(word[:1]) + word[1:],
			word + "\u00e9", word + "e\u0301", word + "\u00c9", word + "E\u0301", // NFC / NFD
			word + "\uff21", word + "A", word + "\u0391", word + "\u0410", // full-width / Latin / Greek / Cyrillic A
			word + "\xff", word + "\xfe", word + "\xef\xbf\xbd", word + "\xc3\x28", word + "\xc3", // invalid UTF-8 vs U+FFFD
			word + "\u200b", word + " ", word + "\u00a0", word + "\ufeff",
		}
		p := r.Perm(len(all))
		for _, ix := range p[:n] {
			keys = append(keys, pre+all[ix])
		}
		return "case-and-unicode", fmt.Sprintf("word=%q prefix=%d", word, len(pre)), keys
	case 6:
		if L < 2 {
			L = 2 + r.Intn(40)
		}
		base := ksBase(r, L)
		keys = append(keys, string(base))
		for i := 1; i < n; i++ {
			b := append([]byte{}, base...)
			switch r.Intn(3) {
			case 0: // swap two positions
				x, y := r.Intn(L), r.Intn(L)
				b[x], b[y] = b[y], b[x]
			case 1: // reverse
				for x, y := 0, L-1; x < y; x, y = x+1, y-1 {
					b[x], b[y] = b[y], b[x]
				}
			default: // rotate
				k := r.Intn(L)
				b = append(b[k:], b[:k]...)
			}
			keys = append(keys, string(b))
		}
		return "permutations", fmt.Sprintf("len=%d", L), keys
	case 7:
		period := string(ksBase(r, r.Range(1, 9)))
		for i := 0; i < n; i++ {
			keys = append(keys, strings.Repeat(period, r.Range(0, 40)))
		}
		return "repetitions", fmt.Sprintf("period=%d", len(period)), keys
	case 8:
		v := r.Intn(1000)
		all := []string{
			fmt.Sprintf("%d", v), fmt.Sprintf("0%d", v), fmt.Sprintf("%d.0", v), fmt.Sprintf("+%d", v), fmt.Sprintf(" %d", v),
			fmt.Sprintf("%d ", v), fmt.Sprintf("%de0", v), fmt.Sprintf("0x%x", v), fmt.Sprintf("%08d", v), fmt.Sprintf("%d\x00", v), fmt.Sprintf("-%d", v),
		}
		p := r.Perm(len(all))
		for _, ix := range p[:n] {
			keys = append(keys, all[ix])
		}
		return "numeric-spellings", fmt.Sprintf("v=%d", v), keys
	default:
		d := r.Bytes([]int{4, 16, 20, 32, 64}[r.Intn(5)])
		h := hex.EncodeToString(d)
		all := []string{
			string(d), h, strings.ToUpper(h), "0x" + h, base64.StdEncoding.EncodeToString(d), base64.RawURLEncoding.EncodeToString(d),
			string(d) + string(d), h[:len(h)/2], string(d[:len(d)/2]), "sha256:" + h, h + "\n",
		}
		p := r.Perm(len(all))
		for _, ix := range p[:n] {
			keys = append(keys, all[ix])
		}
		return "digest-encodings", fmt.Sprintf("digest=%d", len(d)), keys
	}
}

func ksShow(k string) string {
	if len(k) > 48 {
		return fmt.Sprintf("%q...(%d bytes)...%q", k[:20], len(k), k[len(k)-20:])
	}
	return fmt.Sprintf("%q", k)
}

// keyspace runs one case. route: 0 repository, 1 middleware, 2 decorator.
func keyspace(e *vlib.Env, route int) vlib.Result {
	r := e.R
	fam, par, keys := ksFamily(r)
	routeName := []string{"keyspace-repository", "keyspace-middleware", "keyspace-decorator"}[route]
	custom := route != 0 && r.Chance(0.4) // user KeyFactory returning the payload as the key; else the metadata-field hasher
	defaultRepo := r.Chance(0.35)
	g := 1
	if r.Chance(0.4) {
		g = r.Range(2, 8)
	}
	// presentations: every key 1..3 times (the first key at least twice), shuffled
	var pres []int
	for k := range keys {
		c := r.Range(1, 3)
		if k == 0 && c < 2 {
			c = 2
		}
		for ; c > 0; c-- {
			pres = append(pres, k)
		}
	}
	{
		p := r.Perm(len(pres))
		sh := make([]int, len(pres))
		for i, ix := range p {
			sh[i] = pres[ix]
		}
		pres = sh
	}
	kf := "metadata"
	if route == 0 {
		kf = "direct"
	} else if custom {
		kf = "custom"
	}
	spec := fmt.Sprintf("%s family=%s(%s) keys=%d presentations=%d goroutines=%d keyfactory=%s defaultRepo=%v", routeName, fam, par, len(keys), len(pres), g, kf, defaultRepo)
	res := vlib.Result{Class: routeName + "/" + fam, Spec: spec}

	window := time.Hour
	var repo middleware.ExpiringKeyRepository
	if defaultRepo {
		window = time.Minute // the documented default of a nil Repository
	}
	if !defaultRepo || route == 0 {
		var err error
		repo, err = middleware.NewMapExpiringKeyRepository(window)
		if err != nil {
			res.Verdict = vlib.HarnessError
			res.Reason = err.Error()
			return res
		}
	}
	msgs := make([]*message.Message, len(pres))
	idxOf := map[*message.Message]int{}
	for i, k := range pres {
		var payload []byte
		if custom {
			payload = []byte(keys[k])
		} else {
			payload = r.Bytes(r.Intn(20))
		}
		m := message.NewMessage(fmt.Sprintf("%s/%d", e.ID(), i), payload)
		if !custom {
			m.Metadata.Set("k", keys[k])
		}
		msgs[i] = m
		idxOf[m] = i
	}
	var mu sync.Mutex
	outcome := make([]string, len(pres)) // "passed" | "dropped" | other
	through := make([]bool, len(pres))   // reached the handler / inner publisher
	var order []int                      // presentation indices in the order they got through
	out := message.NewMessage(e.ID()+"/out", nil)
	reach := func(m *message.Message) {
		mu.Lock()
		if ix, ok := idxOf[m]; ok {
			through[ix] = true
			order = append(order, ix)
		}
		mu.Unlock()
	}
	var keyFactory middleware.MessageHasher
	if custom {
		keyFactory = func(m *message.Message) (string, error) { return string(m.Payload), nil }
	} else {
		keyFactory = middleware.NewMessageHasherFromMetadataField("k")
	}
	d := &middleware.Deduplicator{KeyFactory: keyFactory, Repository: repo, Timeout: time.Minute}
	var wrapped message.HandlerFunc
	var decPub message.Publisher
	switch route {
	case 1:
		wrapped = d.Middleware(func(m *message.Message) ([]*message.Message, error) {
			reach(m)
			return []*message.Message{out}, nil
		})
	case 2:
		inner := &vlib.Pub{Name: e.ID()}
		inner.Script = func(no int, topic string, ms []*message.Message) error {
			for _, m := range ms {
				reach(m)
			}
			return nil
		}
		var err error
		decPub, err = d.PublisherDecorator()(inner)
		if err != nil {
			res.Verdict = vlib.HarnessError
			res.Reason = err.Error()
			return res
		}
	}
	ctx := context.Background()
	present := func(idxs []int) {
		switch route {
		case 0:
			for _, i := range idxs {
				dup, err := repo.IsDuplicate(ctx, keys[pres[i]])
				o := "passed"
				if err != nil {
					o = "error:" + err.Error()
				} else if dup {
					o = "dropped"
				} else {
					reach(msgs[i])
				}
				mu.Lock()
				outcome[i] = o
				mu.Unlock()
			}
		case 1:
			for _, i := range idxs {
				outs, err := wrapped(msgs[i])
				o := ""
				switch {
				case err != nil:
					o = "error:" + err.Error()
				case len(outs) == 1 && outs[0] == out:
					o = "passed"
				case outs == nil:
					o = "dropped"
				default:
					o = fmt.Sprintf("unexpected-outputs(%d)", len(outs))
				}
				mu.Lock()
				outcome[i] = o
				mu.Unlock()
			}
		default:
			batch := make([]*message.Message, len(idxs))
			for j, i := range idxs {
				batch[j] = msgs[i]
			}
			err := decPub.Publish("t", batch...)
			mu.Lock()
			for _, i := range idxs {
				switch {
				case err != nil:
					outcome[i] = "error:" + err.Error()
				case through[i]:
					outcome[i] = "passed"
				default:
					outcome[i] = "dropped"
				}
			}
			mu.Unlock()
		}
	}
	// split the presentations into calls (decorator: batches of 1..4), calls over goroutines round-robin
	var calls [][]int
	for i := 0; i < len(pres); {
		b := 1
		if route == 2 {
			b = r.Range(1, 4)
		}
		var c []int
		for ; b > 0 && i < len(pres); b-- {
			c = append(c, i)
			i++
		}
		calls = append(calls, c)
	}
	started := time.Now()
	var panics []string
	if g == 1 {
		func() {
			defer func() {
				if v := recover(); v != nil {
					panics = append(panics, fmt.Sprint(v))
				}
			}()
			for _, c := range calls {
				present(c)
			}
		}()
	} else {
		barrier := make(chan struct{})
		var wg sync.WaitGroup
		for w := 0; w < g; w++ {
			wg.Add(1)
			rr := r.Fork()
			go func(w int) {
				defer wg.Done()
				defer func() {
					if v := recover(); v != nil {
						mu.Lock()
						panics = append(panics, fmt.Sprint(v))
						mu.Unlock()
					}
				}()
				<-barrier
				for ci := w; ci < len(calls); ci += g {
					for y := rr.Intn(3); y > 0; y-- {
						runtime.Gosched()
					}
					present(calls[ci])
				}
			}(w)
		}
		done := make(chan struct{})
		go func() { wg.Wait(); close(done) }()
		close(barrier)
		if oc, dump := vlib.WaitClosed(done, vlib.WD); oc == vlib.Stuck {
			res.Fail("blocks", "a deduplicated call never returned (quiescent): %s", spec)
			res.Witness = dump
			return res
		} else if oc == vlib.Inconclusive {
			res.Inconclusive("workers did not finish")
			return res
		}
	}
	elapsed := time.Since(started)
	mu.Lock()
	defer mu.Unlock()
	for _, p := range panics {
		res.Fail("panic", "%s (%s)", p, spec)
	}
	// judge: per key (= per distinct Go string) exactly one presentation got through
	passedOf := make([][]int, len(keys))
	presentedOf := make([]int, len(keys))
	for i, k := range pres {
		presentedOf[k]++
		if through[i] {
			passedOf[k] = append(passedOf[k], i)
		}
	}
	dropped := 0
	for k := range keys {
		switch {
		case len(passedOf[k]) == 0:
			// nothing of this key got through although it was presented: the only things the repository can remember are OTHER keys
			var others []string
			for k2 := range keys {
				if k2 != k && len(passedOf[k2]) > 0 && len(others) < 3 {
					others = append(others, ksShow(keys[k2]))
				}
			}
			res.Fail("different-key-suppressed", "key %s was presented %d time(s) and never got through; the other keys of the case that got through are different strings (%s): %s",
				ksShow(keys[k]), presentedOf[k], strings.Join(others, ", "), spec)
		case len(passedOf[k]) > 1:
			if elapsed < window/4 {
				res.Fail("duplicate-passed", "%d presentations of key %s got through (presentations %v) within %v, window %v: %s", len(passedOf[k]), ksShow(keys[k]), passedOf[k], elapsed, window, spec)
			} else {
				res.Inconclusive("case took %v, more than a quarter of the %v window; second acceptance not judged", elapsed, window)
			}
		}
	}
	for i, m := range msgs {
		o := outcome[i]
		if o == "dropped" {
			dropped++
		}
		if strings.HasPrefix(o, "error:") || strings.HasPrefix(o, "unexpected") || o == "" {
			res.Fail("error-returned", "presentation %d (key %s) came back as %q; no context is done, Timeout is one minute: %s", i, ksShow(keys[pres[i]]), o, spec)
			continue
		}
		switch route {
		case 1:
			if through[i] != (o == "passed") {
				res.Fail("duplicate-not-dropped-as-success", "presentation %d: reached the handler=%v but the middleware's result was %q: %s", i, through[i], o, spec)
			}
		case 2:
			s := vlib.Settled(m)
			if !through[i] && s != "ack" {
				res.Fail("duplicate-not-acked", "presentation %d was filtered as a duplicate but is %q instead of acked: %s", i, s, spec)
			}
			if through[i] && s != "" {
				res.Fail("forwarded-message-settled", "presentation %d was forwarded to the inner publisher but the decorator %sed it: %s", i, s, spec)
			}
		}
	}
	// sequential: the first presentation of every key must be the one that gets through (a drop needs a winner before it)
	if g == 1 && !res.Failed() {
		seen := map[int]bool{}
		for i, k := range pres {
			if !seen[k] && !through[i] {
				res.Fail("dropped-without-winner", "presentation %d, the first one of key %s, was dropped: %s", i, ksShow(keys[k]), spec)
			}
			seen[k] = true
		}
	}
	maxLen := 0
	for _, k := range keys {
		if len(k) > maxLen {
			maxLen = len(k)
		}
	}
	res.Events = len(pres)
	res.Count("keyspace_keys", len(keys))
	res.Count("keyspace_presentations", len(pres))
	res.Count("keyspace_duplicates_dropped", dropped)
	res.Count("keyspace_family_"+fam, 1)
	if maxLen > 16 {
		res.Count("keyspace_cases_with_keys_over_16_bytes", 1)
	}
	if maxLen > 64 {
		res.Count("keyspace_cases_with_keys_over_64_bytes", 1)
	}
	res.NonTrivial = len(keys) >= 2 && dropped > 0
	res.Sig = vlib.Sig(spec, fmt.Sprint(order))
	sample := make([]string, 0, 4)
	for k := 0; k < len(keys) && k < 4; k++ {
		sample = append(sample, ksShow(keys[k]))
	}
	res.Sample = map[string]any{"spec": spec, "keys": sample, "got_through": len(order), "dropped": dropped}
	return res
}
