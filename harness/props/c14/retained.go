package c14

// Classes "retained-decorator" / "retained-middleware": the arguments of a call belong to the caller.
//
// The statement: "... exactly one reaches the handler (or the wrapped publisher); the others are dropped as successes
// (acked) without invoking it, and messages with different keys never suppress each other. A key is remembered for at
// least the configured window and is accepted again after it expired."
//
// All other classes build a fresh slice (and fresh messages) for every call. Here a CALLER keeps its batch - one slice
// of 2..6 messages, handed over as Publish(topic, batch...), so the decorator works on the caller's own backing
// array - and presents the very same slice (the middleware: the very same message objects) again and again:
//   - fan-out: to 2..3 deduplicators that are independent of each other (own repository each, 1 h or the default
//     minute), in random order, some of them twice, sometimes to two of them at the same time from two goroutines
//     (both only have to READ the batch; the race detector watches). Every deduplicator saw a random subset of the
//     keys before ("another producer"), so every one drops different members of the batch;
//   - expiry: to one deduplicator with a window of 5..30 ms, round after round (1..4 ticks of a control ticker of
//     period window/2 in between), until every key of the batch was accepted again 1..3 times; then (half of the
//     cases) to a second deduplicator with a 1 h window that has never seen the batch.
//
// What the oracle demands. The expectations are computed from the batch the caller BUILT (a private copy of the slice
// kept by the harness), never from what the slice holds later:
//   - per deduplicator with a long window and per key presented to it (by the other producer or as a member of a
//     batch): exactly one message of the key reaches its wrapped publisher / handler over the whole case; none is
//     "none-passed" (the key was suppressed by other keys, by another deduplicator's memory, or lost), more than one
//     "duplicate-passed" (case shorter than a quarter of the retention, else inconclusive);
//   - short window: any two acceptances of a key span at least the window (accepted-twice-within-window, lower bound
//     only); a key of the batch must be accepted again after it expired: a presentation of the batch that STARTED
//     later than lastAcceptanceEnd + window*1.5 + 1 s and after 40 control ticks (4 between two presentations) were
//     received past that instant, in which no message of the key got through, is a violation (stuck-after-expiry;
//     same rule and tolerances as class hot-expiry); a member dropped while nothing of its key ever got through is
//     dropped-without-winner (sequential, judged at the drop);
//   - two messages of one key never travel in one invocation of the wrapped publisher of a long-window deduplicator
//     (batch-internal-duplicate-passed; with a window in the ms range a single call can outlast the window on a loaded
//     machine, there the pair is judged by its stamps like any two acceptances);
//     no call returns an error (Background contexts, Timeout one minute: error-returned); a message that was dropped
//     in some call is acked, one that never was is not settled by the decorator; the middleware answers (nil,nil)
//     for a dropped message and hands the handler's result through for the other;
//   - "arguments belong to the caller" (what makes the above observable for a caller at all): after every call the
//     caller's slice holds the same message pointers in the same order as before (caller-batch-rewritten), and UUID,
//     payload and metadata of every member are unchanged (caller-message-changed). Settlement is excepted: the
//     decorator acks the duplicates it drops, as documented ("acknowledges and drops every message that was
//     recognized by a Deduplicator"). These two are reported after the clauses above, so a case in which the
//     rewritten batch already led to a lost / suppressed key is reported under that clause, with the rewrite in the text.

import (
	"fmt"
	"sort"
	"strings"
	"sync"
	"time"

	"github.com/ThreeDotsLabs/watermill/message"
	"github.com/ThreeDotsLabs/watermill/message/router/middleware"

	"verifharness/vlib"
)

const (
	rMargin       = time.Second // added to window*1.5 before a dropped key is called stale
	rControlTicks = 40          // control ticks (period window/2) that must be seen after the stale instant
	rSuspect      = 200 * time.Millisecond
	rBudget       = 30 * time.Second
)

type rMember struct {
	idx, key int
	msg      *message.Message
	snap     vlib.MsgSnap
	// guarded by rState.mu
	everDropped bool
	changed     bool
}

// rBatch is what one caller keeps: slice is handed to Publish(topic, slice...) every time; want is the harness's
// private copy of what the caller put into it.
type rBatch struct {
	no      int
	members []*rMember
	slice   []*message.Message
	want    []*message.Message
	// guarded by rState.mu
	relevantCalls   int // calls in which a member was dropped in front of a member that got through
	againAfterThat  int // presentations of the batch after such a call
	rewritten       string
	outcomePatterns []string
}

type rAcc struct {
	s, e   time.Duration
	member int
	call   int
}

type rInst struct {
	no        int
	win       time.Duration // 0: long window, judged by counting
	retention time.Duration
	d         *middleware.Deduplicator
	// guarded by rState.mu
	presented map[int]bool
	acc       [][]rAcc // per key: arrivals at the wrapped publisher / handler
	ticksPast []int    // short window: control ticks received after the key became stale
}

// rPort is one caller's way into one deduplicator: the wrapped publisher (resp. the handler) records into invs; a
// port is used by one goroutine at a time.
type rPort struct {
	inst *rInst
	pub  message.Publisher
	h    message.HandlerFunc
	invs [][]*message.Message
}

func (p *rPort) Publish(topic string, msgs ...*message.Message) error {
	p.invs = append(p.invs, append([]*message.Message(nil), msgs...))
	return nil
}
func (p *rPort) Close() error { return nil }

type rFailure struct{ clause, text string }

type rState struct {
	mu        sync.Mutex
	decorator bool
	target    string
	base      time.Time
	byMsg     map[*message.Message]*rMember
	byUUID    map[string]*rMember
	out       *message.Message
	failures  []rFailure // clauses of the statement
	direct    []rFailure // caller-batch-rewritten / caller-message-changed
	calls     int
	events    int
	counters  map[string]int
}

func (st *rState) fail(clause, f string, a ...any) {
	st.failures = append(st.failures, rFailure{clause, fmt.Sprintf(f, a...)})
}

func uuids(ms []*message.Message) string {
	var s []string
	for _, m := range ms {
		if m == nil {
			s = append(s, "<nil>")
		} else {
			s = append(s, m.UUID[strings.LastIndexByte(m.UUID, '/')+1:])
		}
	}
	return "[" + strings.Join(s, " ") + "]"
}

// present hands the caller's batch to one deduplicator: the decorator gets the retained slice in one call, the
// middleware the retained message objects one by one. judgeDrops: presentations to this deduplicator are sequential,
// a drop can be judged at once. checkNow: nobody else is using the batch, the caller looks at it right after the call.
func (st *rState) present(b *rBatch, p *rPort, judgeDrops, checkNow bool) {
	inst := p.inst
	pattern := make([]byte, 0, len(b.members))
	reachedAll := map[*rMember]bool{}
	if st.decorator {
		p.invs = nil
		s := time.Since(st.base)
		result := ""
		func() {
			defer func() {
				if v := recover(); v != nil {
					result = fmt.Sprintf("panic: %v", v)
				}
			}()
			if err := p.pub.Publish("t", b.slice...); err != nil {
				result = "error: " + err.Error()
			}
		}()
		e := time.Since(st.base)
		st.mu.Lock()
		st.account(inst, b, b.members, p.invs, s, e, result, judgeDrops, reachedAll)
		st.mu.Unlock()
	} else {
		for _, m := range b.members {
			p.invs = nil
			s := time.Since(st.base)
			result := ""
			var outs []*message.Message
			func() {
				defer func() {
					if v := recover(); v != nil {
						result = fmt.Sprintf("panic: %v", v)
					}
				}()
				var err error
				if outs, err = p.h(m.msg); err != nil {
					result = "error: " + err.Error()
				}
			}()
			e := time.Since(st.base)
			hit := len(p.invs) > 0
			st.mu.Lock()
			if result == "" {
				switch {
				case hit && (len(outs) != 1 || outs[0] != st.out):
					st.fail("winner-result-changed", "message %d reached the handler but the middleware returned %d message(s) instead of the handler's", m.idx, len(outs))
				case !hit && outs != nil:
					st.fail("duplicate-not-dropped-as-success", "message %d did not reach the handler but the middleware returned %d message(s) instead of (nil,nil)", m.idx, len(outs))
				}
			}
			st.account(inst, b, []*rMember{m}, p.invs, s, e, result, judgeDrops, reachedAll)
			st.mu.Unlock()
		}
	}
	// shape of the call: a member dropped in front of one that got through is what an in-place filter moves
	st.mu.Lock()
	sawDrop, relevant := false, false
	for _, m := range b.members {
		if reachedAll[m] {
			pattern = append(pattern, '1')
			relevant = relevant || sawDrop
		} else {
			pattern = append(pattern, '0')
			sawDrop = true
		}
	}
	if b.relevantCalls > 0 {
		b.againAfterThat++
	}
	if relevant {
		b.relevantCalls++
	}
	b.outcomePatterns = append(b.outcomePatterns, fmt.Sprintf("%d:%s", inst.no, pattern))
	st.mu.Unlock()
	if checkNow {
		st.checkArgs(b, fmt.Sprintf("the presentation to deduplicator %d (outcome %s)", inst.no, pattern))
	}
}

// account judges one call (decorator: the whole batch, middleware: one message). Caller holds st.mu.
func (st *rState) account(inst *rInst, b *rBatch, intended []*rMember, invs [][]*message.Message, s, e time.Duration, result string, judgeDrops bool, reachedAll map[*rMember]bool) {
	st.calls++
	callNo := st.calls
	st.events += len(intended)
	if result != "" {
		st.fail("error-returned", "call #%d (batch %d, deduplicator %d) came back with %q although every context is Background, Timeout is one minute and the %s never fails", callNo, b.no, inst.no, vlib.Trunc(result, 100), st.target)
	}
	reached := map[*rMember]bool{}
	for _, inv := range invs {
		seen := map[int]*rMember{}
		for _, m := range inv {
			mem := st.byMsg[m]
			if mem == nil && m != nil {
				mem = st.byUUID[m.UUID]
			}
			if mem == nil {
				st.counters["retained_unknown_messages_at_the_wrapped_end"]++
				continue
			}
			if o, dup := seen[mem.key]; dup && inst.win > 0 {
				// short window: a call that takes longer than the window (loaded machine) may legitimately let two messages of a
				// key through; the pair is judged by its time stamps like any other two acceptances (accepted-twice-within-window)
				st.counters["retained_same_key_twice_in_one_invocation_short_window"]++
			} else if dup && e < inst.retention/4 {
				st.fail("batch-internal-duplicate-passed", "messages %d and %d of the same key %d reached the %s of deduplicator %d in ONE invocation (call #%d, batch %d)", o.idx, mem.idx, mem.key, st.target, inst.no, callNo, b.no)
			}
			seen[mem.key] = mem
			reached[mem] = true
			reachedAll[mem] = true
			if mem.everDropped {
				st.counters["retained_members_passed_after_an_earlier_drop"]++
			}
			inst.acc[mem.key] = append(inst.acc[mem.key], rAcc{s, e, mem.idx, callNo})
			if inst.win > 0 {
				inst.ticksPast[mem.key] = 0
			}
		}
	}
	keyPassed := map[int]bool{}
	for m := range reached {
		keyPassed[m.key] = true
	}
	for _, m := range intended {
		inst.presented[m.key] = true
		if reached[m] || result != "" {
			continue
		}
		m.everDropped = true
		st.counters["retained_members_dropped"]++
		if !judgeDrops {
			continue
		}
		if len(inst.acc[m.key]) == 0 {
			st.fail("dropped-without-winner", "message %d (key %d) of batch %d was dropped by deduplicator %d in call #%d although no message of its key has reached its %s so far; the caller's slice holds %s, it was built as %s",
				m.idx, m.key, b.no, inst.no, callNo, st.target, uuids(b.slice), uuids(b.want))
			continue
		}
		if inst.win > 0 && !keyPassed[m.key] {
			var last time.Duration
			for _, a := range inst.acc[m.key] {
				if a.e > last {
					last = a.e
				}
			}
			staleAt := last + inst.win + inst.win/2 + rMargin
			if s > staleAt && inst.ticksPast[m.key] >= rControlTicks {
				keyPassed[m.key] = true // once per key and call
				st.fail("stuck-after-expiry", "key %d was last accepted by a call that ended at +%v; the retained batch %d was presented again by call #%d, started at +%v (%v later; window %v, clean-up period %v), and no message of the key "+
					"reached the %s, %d ticks of a control ticker of period window/2 after +%v (4 between two presentations); the key was accepted %d time(s) before; the caller's slice holds %s, it was built as %s",
					m.key, last, b.no, callNo, s, s-last, inst.win, inst.win/2, st.target, inst.ticksPast[m.key], staleAt, len(inst.acc[m.key]), uuids(b.slice), uuids(b.want))
			}
		}
	}
}

// checkArgs: the caller looks at what it handed over.
func (st *rState) checkArgs(b *rBatch, after string) {
	st.mu.Lock()
	defer st.mu.Unlock()
	st.counters["retained_slice_checks"]++
	if st.decorator && b.rewritten == "" { // the middleware is handed the messages one by one, never the caller's slice
		for i := range b.want {
			if b.slice[i] != b.want[i] {
				b.rewritten = fmt.Sprintf("batch %d was built as %s; after %s the caller's slice holds %s", b.no, uuids(b.want), after, uuids(b.slice))
				st.direct = append(st.direct, rFailure{"caller-batch-rewritten", "the caller's slice was rewritten: " + b.rewritten})
				break
			}
		}
	}
	for _, m := range b.members {
		st.counters["retained_message_value_checks"]++
		if !m.changed && !m.snap.SameValue(m.msg) {
			m.changed = true
			now := vlib.Snap(m.msg)
			st.direct = append(st.direct, rFailure{"caller-message-changed", fmt.Sprintf("message %d of batch %d was changed by the deduplicator (after %s): uuid %q -> %q, payload %d -> %d bytes (equal: %v), metadata %v -> %v",
				m.idx, b.no, after, m.snap.UUID, now.UUID, len(m.snap.Payload), len(now.Payload), string(m.snap.Payload) == string(now.Payload), m.snap.Metadata, now.Metadata)})
		}
	}
}

func retained(e *vlib.Env, decorator bool) vlib.Result {
	r := e.R
	class, target := "retained-middleware", "handler"
	if decorator {
		class, target = "retained-decorator", "wrapped publisher"
	}
	hs := pickHasher(r)
	nkeys := r.Range(2, 6)
	expiry := r.Chance(0.45)
	nbatches := []int{1, 1, 1, 2, 2, 3}[r.Intn(6)]
	win := time.Duration(0)
	ninst := r.Range(2, 3)
	generations := 0
	if expiry {
		win = time.Duration(r.Range(5, 30)) * time.Millisecond
		generations = r.Range(1, 3)
		ninst = 1 + r.Intn(2) // the short-window deduplicator, and perhaps a long-window one for the batch that lived through the expiries
		if nbatches > 2 {
			nbatches = 2
		}
	}
	concurrent := !expiry && nbatches > 1 && r.Chance(0.5)
	pSeed := []float64{0.25, 0.4, 0.6}[r.Intn(3)]
	yieldP := []float64{0, 0.3, 0.7}[r.Intn(3)]
	mode := "fan-out"
	if expiry {
		mode = "expiry"
	}
	spec := fmt.Sprintf("%s mode=%s hasher=%s keys=%d batches=%d deduplicators=%d window=%v generations=%d concurrent=%v pSeen=%.2f yield=%.1f", class, mode, hs.name, nkeys, nbatches, ninst, win, generations, concurrent, pSeed, yieldP)
	res := vlib.Result{Class: class + "/" + mode, Spec: spec}
	harnessErr := func(err error) vlib.Result {
		res.Verdict = vlib.HarnessError
		res.Reason = err.Error()
		return res
	}
	ctl := vlib.NewCtl(r.Uint64(), yieldP, 30)
	defer ctl.Uninstall()

	st := &rState{decorator: decorator, target: target, byMsg: map[*message.Message]*rMember{}, byUUID: map[string]*rMember{}, counters: map[string]int{},
		out: message.NewMessage(e.ID()+"/out", nil)}

	// ---- messages -------------------------------------------------------------------------------------------------
	n := eff(hs.limit)
	if n > 200 {
		n = r.Range(0, 200)
	}
	prefixes := make([][]byte, nkeys)
	for k := range prefixes {
		prefixes[k] = append(r.Bytes(n), byte(k))
	}
	nmsg := 0
	mk := func(k int) *rMember {
		var payload []byte
		if hs.limit > 1<<20 || hs.name == "metadata(k)" {
			payload = append([]byte{}, prefixes[k]...)
		} else {
			p := append([]byte{}, prefixes[k]...)
			for len(p) < eff(hs.limit) {
				p = append(p, byte(k))
			}
			payload = append(p, r.Bytes(r.Intn(40))...)
		}
		m := &rMember{idx: nmsg, key: k, msg: message.NewMessage(fmt.Sprintf("%s/%d", e.ID(), nmsg), payload)}
		nmsg++
		m.msg.Metadata.Set("k", fmt.Sprintf("%s-key%d", e.ID(), k))
		if r.Chance(0.3) {
			m.msg.Metadata.Set("extra", r.UTF8(8))
		}
		m.snap = vlib.Snap(m.msg)
		st.byMsg[m.msg] = m
		st.byUUID[m.msg.UUID] = m
		return m
	}
	mkBatch := func(no int, keys []int) *rBatch {
		b := &rBatch{no: no}
		for _, k := range keys {
			m := mk(k)
			b.members = append(b.members, m)
			b.slice = append(b.slice, m.msg)
		}
		b.slice = b.slice[:len(b.slice):len(b.slice)]
		b.want = append([]*message.Message(nil), b.slice...)
		return b
	}
	batches := make([]*rBatch, nbatches)
	shape := ""
	for i := range batches {
		size := 1
		if decorator || r.Chance(0.8) {
			size = []int{2, 2, 3, 3, 3, 4, 4, 5, 6}[r.Intn(9)]
		}
		keys := make([]int, size)
		for j := range keys {
			keys[j] = r.Intn(nkeys)
			shape += fmt.Sprint(keys[j])
		}
		shape += "|"
		batches[i] = mkBatch(i, keys)
	}

	// ---- deduplicators, what each of them saw before, ports ----------------------------------------------------------------
	insts := make([]*rInst, ninst)
	for i := range insts {
		inst := &rInst{no: i, presented: map[int]bool{}, acc: make([][]rAcc, nkeys), ticksPast: make([]int, nkeys)}
		var repo middleware.ExpiringKeyRepository
		var err error
		switch {
		case expiry && i == 0:
			inst.win, inst.retention = win, win
			repo, err = middleware.NewMapExpiringKeyRepository(win)
		case r.Chance(0.4):
			inst.retention = time.Minute // Repository left nil: the documented default
		default:
			inst.retention = time.Hour
			repo, err = middleware.NewMapExpiringKeyRepository(time.Hour)
		}
		if err != nil {
			return harnessErr(err)
		}
		inst.d = &middleware.Deduplicator{KeyFactory: hs.mk(), Repository: repo, Timeout: time.Minute}
		insts[i] = inst
	}
	mkPort := func(inst *rInst) (*rPort, error) {
		p := &rPort{inst: inst}
		if decorator {
			var err error
			p.pub, err = inst.d.PublisherDecorator()(p)
			return p, err
		}
		p.h = inst.d.Middleware(func(m *message.Message) ([]*message.Message, error) {
			p.invs = append(p.invs, []*message.Message{m})
			return []*message.Message{st.out}, nil
		})
		return p, nil
	}
	// ports[b][i]: batch b's caller -> deduplicator i; ports[nbatches][i]: the other producer
	ports := make([][]*rPort, nbatches+1)
	for b := range ports {
		ports[b] = make([]*rPort, ninst)
		for i := range insts {
			p, err := mkPort(insts[i])
			if err != nil {
				return harnessErr(err)
			}
			ports[b][i] = p
		}
	}
	// per deduplicator: single messages of the other producer
	seedShape := ""
	seedsOf := make([][]*rBatch, ninst)
	for i := range insts {
		for _, k := range r.Perm(nkeys) {
			if r.Chance(pSeed) {
				seedsOf[i] = append(seedsOf[i], mkBatch(-1-i, []int{k}))
				seedShape += fmt.Sprintf("%d:%d,", i, k)
			}
		}
	}
	// programs of the fan-out mode: per batch a sequence of steps, a step = one deduplicator or two at the same time
	type step []int
	progs := make([][]step, nbatches)
	progShape := ""
	mkProg := func(from int) []step {
		var order []int
		for _, i := range r.Perm(ninst) {
			if i >= from {
				order = append(order, i)
			}
		}
		for x := r.Intn(3); x > 0 && len(order) > 0; x-- { // some of them again, within the window
			order = append(order, from+r.Intn(ninst-from))
		}
		var p []step
		for j := 0; j < len(order); j++ {
			if j+1 < len(order) && order[j] != order[j+1] && r.Chance(0.25) {
				p = append(p, step{order[j], order[j+1]})
				j++
			} else {
				p = append(p, step{order[j]})
			}
		}
		return p
	}
	for b := range progs {
		from := 0
		if expiry {
			from = 1 // deduplicator 0 is presented to in rounds
		}
		if from < ninst {
			progs[b] = mkProg(from)
		}
		progShape += fmt.Sprint(progs[b])
	}
	gapRand := r.Fork()

	// ---- run -------------------------------------------------------------------------------------------------------------
	st.base = time.Now()
	for i := range insts {
		for _, sb := range seedsOf[i] {
			st.present(sb, ports[nbatches][i], true, true)
		}
	}
	parallelSteps := 0
	runProg := func(b *rBatch, prog []step, judgeDrops bool) {
		for _, sp := range prog {
			if len(sp) == 1 {
				st.present(b, ports[b.no][sp[0]], judgeDrops, true)
				continue
			}
			// the same batch to two deduplicators at the same time
			var wg sync.WaitGroup
			for _, i := range sp {
				wg.Add(1)
				go func(i int) {
					defer wg.Done()
					defer func() {
						if v := recover(); v != nil {
							st.mu.Lock()
							st.fail("panic", "harness goroutine: panic: %v", v)
							st.mu.Unlock()
						}
					}()
					st.present(b, ports[b.no][i], false, false)
				}(i)
			}
			wg.Wait()
			st.mu.Lock()
			parallelSteps++
			st.mu.Unlock()
			st.checkArgs(b, fmt.Sprintf("the simultaneous presentation to deduplicators %v", []int(sp)))
		}
	}
	waitAll := func(run func()) bool {
		done := make(chan struct{})
		go func() {
			defer close(done)
			run()
		}()
		if oc, dump := vlib.WaitClosed(done, vlib.WD); oc == vlib.Stuck {
			res.Fail("blocks", "a deduplicated call never returned (quiescent): %s", spec)
			res.Witness = dump
			return false
		} else if oc == vlib.Inconclusive {
			res.Inconclusive("callers did not finish")
			return false
		}
		return true
	}
	fanOut := func() bool {
		return waitAll(func() {
			if !concurrent {
				for _, b := range batches {
					runProg(b, progs[b.no], true)
				}
				return
			}
			var wg sync.WaitGroup
			barrier := make(chan struct{})
			for _, b := range batches {
				wg.Add(1)
				go func(b *rBatch) {
					defer wg.Done()
					defer func() {
						if v := recover(); v != nil {
							st.mu.Lock()
							st.fail("panic", "harness goroutine: panic: %v", v)
							st.mu.Unlock()
						}
					}()
					<-barrier
					runProg(b, progs[b.no], false)
				}(b)
			}
			close(barrier)
			wg.Wait()
		})
	}

	rounds, reaccepted, budgetHit := 0, 0, false
	if expiry {
		a := insts[0]
		control := time.NewTicker(win / 2)
		defer control.Stop()
		batchKeys := map[int]bool{}
		for _, b := range batches {
			for _, m := range b.members {
				batchKeys[m.key] = true
			}
		}
		// acceptances wanted per key: the first one (other producer or first round) and `generations` more
		for {
			rounds++
			for _, b := range batches {
				st.present(b, ports[b.no][0], true, true)
			}
			st.mu.Lock()
			enough, failed, overdue := true, len(st.failures) > 0, false
			now := time.Since(st.base)
			for k := range batchKeys {
				if len(a.acc[k]) < generations+1 {
					enough = false
				}
				var last time.Duration
				for _, x := range a.acc[k] {
					if x.e > last {
						last = x.e
					}
				}
				if len(a.acc[k]) > 0 && now > last+win+win/2+rSuspect {
					overdue = true
				}
			}
			st.mu.Unlock()
			if enough || failed {
				break
			}
			if now > rBudget {
				budgetHit = true
				break
			}
			// 1..4 control ticks until the next round (two windows, more than the documented maximum retention, once a key is
			// overdue: the verdict then also holds for a repository that counts the window from the last time a key was SEEN)
			gap := 4
			if !overdue && gapRand.Chance(0.6) {
				gap = gapRand.Range(1, 3)
			}
			for i := 0; i < gap; i++ {
				<-control.C
				now := time.Since(st.base)
				st.mu.Lock()
				for k := range batchKeys {
					var last time.Duration
					for _, x := range a.acc[k] {
						if x.e > last {
							last = x.e
						}
					}
					if len(a.acc[k]) > 0 && now > last+win+win/2+rMargin {
						a.ticksPast[k]++
					}
				}
				st.mu.Unlock()
			}
		}
		st.mu.Lock()
		for k := range batchKeys {
			if n := len(a.acc[k]) - 1; n > 0 {
				reaccepted += n
			}
		}
		st.mu.Unlock()
	}
	if !res.Failed() && res.Verdict == "" && (!expiry || ninst > 1) {
		if !fanOut() {
			return res
		}
	}
	elapsed := time.Since(st.base)

	// ---- judgement ---------------------------------------------------------------------------------------------
	st.mu.Lock()
	defer st.mu.Unlock()
	for _, inst := range insts {
		keys := make([]int, 0, len(inst.presented))
		for k := range inst.presented {
			keys = append(keys, k)
		}
		sort.Ints(keys)
		for _, k := range keys {
			acc := inst.acc[k]
			if len(acc) == 0 {
				rew := ""
				for _, b := range batches {
					if b.rewritten != "" {
						rew += "; " + b.rewritten
					}
				}
				st.fail("none-passed", "deduplicator %d (own repository, retention %v): messages of key %d were presented to it and none reached its %s (suppressed by other keys or by what another deduplicator remembers, or lost)%s", inst.no, inst.retention, k, target, rew)
				continue
			}
			if inst.win == 0 {
				if len(acc) > 1 {
					if elapsed >= inst.retention/4 {
						res.Inconclusive("case took %v, too close to the retention window %v to judge a second acceptance", elapsed, inst.retention)
					} else {
						st.fail("duplicate-passed", "deduplicator %d: %d messages of key %d reached its %s (messages %d and %d in calls #%d and #%d) within %v, retention window %v", inst.no, len(acc), k, target, acc[0].member, acc[1].member, acc[0].call, acc[1].call, elapsed, inst.retention)
					}
				}
				continue
			}
			a := append([]rAcc(nil), acc...)
			sort.Slice(a, func(i, j int) bool { return a[i].s < a[j].s })
			for i := range a {
				for j := i + 1; j < len(a) && a[j].s-a[i].s < inst.win; j++ {
					hi := a[i].e
					if a[j].e > hi {
						hi = a[j].e
					}
					if hi-a[i].s < inst.win {
						st.fail("accepted-twice-within-window", "deduplicator %d: key %d was accepted by a call bracketed by [+%v,+%v] (message %d) and by another bracketed by [+%v,+%v] (message %d): both happened within %v, the window is %v",
							inst.no, k, a[i].s, a[i].e, a[i].member, a[j].s, a[j].e, a[j].member, hi-a[i].s, inst.win)
					}
				}
			}
		}
	}
	neverDropped, dropped := 0, 0
	all := append([]*rBatch(nil), batches...)
	for i := range seedsOf {
		all = append(all, seedsOf[i]...)
	}
	for _, b := range all {
		for _, m := range b.members {
			s := vlib.Settled(m.msg)
			if !decorator {
				continue
			}
			if m.everDropped {
				dropped++
				if s != "ack" {
					st.fail("duplicate-not-acked", "message %d was filtered as a duplicate but is %q instead of acked", m.idx, s)
				}
			} else {
				neverDropped++
				if s != "" {
					st.fail("forwarded-message-settled", "message %d was forwarded to the wrapped publisher in every call that presented it but the decorator %sed it", m.idx, s)
				}
			}
		}
	}
	if budgetHit && len(st.failures) == 0 {
		res.Inconclusive("the keys of the retained batch were not accepted again %d time(s) within the %v budget (machine too slow?)", generations, rBudget)
	}
	for _, f := range st.failures {
		res.Fail(f.clause, "%s (%s)", f.text, spec)
	}
	for _, f := range st.direct {
		res.Fail(f.clause, "%s (%s)", f.text, spec)
	}
	relevant, again, retainedCalls := 0, 0, 0
	outcomes := ""
	for _, b := range batches {
		relevant += b.relevantCalls
		again += b.againAfterThat
		retainedCalls += len(b.outcomePatterns)
		outcomes += strings.Join(b.outcomePatterns, ",") + "|"
	}
	res.Events = st.events
	res.Hooks = ctl.Counts()
	for k, v := range st.counters {
		res.Count(k, v)
	}
	res.Count("retained_calls", st.calls)
	res.Count("retained_batch_presentations", retainedCalls)
	res.Count("retained_presentations_with_a_drop_in_front_of_a_pass", relevant)
	res.Count("retained_presentations_after_such_a_call", again)
	res.Count("retained_simultaneous_presentations", parallelSteps)
	res.Count("retained_expiry_rounds", rounds)
	res.Count("retained_reacceptances_after_expiry", reaccepted)
	res.Count("retained_messages_dropped_at_least_once", dropped)
	res.Count("retained_messages_never_dropped", neverDropped)
	if decorator {
		res.NonTrivial = relevant > 0 && again > 0
	} else {
		res.NonTrivial = st.counters["retained_members_passed_after_an_earlier_drop"] > 0
	}
	res.Sig = vlib.Sig(spec, shape, seedShape, progShape, outcomes)
	res.Sample = map[string]any{"spec": spec, "batches(keys)": shape, "seen_before(deduplicator:key)": seedShape, "programs": progShape, "outcomes(deduplicator:member reached)": vlib.Trunc(outcomes, 400)}
	return res
}
