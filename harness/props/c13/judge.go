package c13

import (
	"errors"
	"fmt"
	"reflect"
	"sort"
	"strings"

	"github.com/ThreeDotsLabs/watermill/message"
	"github.com/ThreeDotsLabs/watermill/message/router/middleware"

	"verifharness/vlib"
)

// Reference model of one attempt (handler invocation) with error e, filter verdict f, poison
// publisher outcome p:
//
//	e == nil          -> nothing published; (outputs, nil) and the message value pass through unchanged   => Ack
//	e != nil, !f(e)   -> nothing published; (outputs, e) and the message value pass through unchanged     => Nack
//	e != nil, f(e), p ok   -> exactly one Publish(poisonTopic, m): m.UUID, m.Payload as consumed,
//	                          m.Metadata = metadata at handler return + {reason: e.Error(), topic, handler,
//	                          subscriber from the Router context}; the consumed message is unsettled while
//	                          Publish runs; nil error returned afterwards                                  => Ack
//	e != nil, f(e), p fails -> the same single Publish; a non-nil error that still carries e is returned   => Nack
//
//	'+panics' classes - the poison publisher PANICS instead of returning (read as "that publish fails": the
//	message is not in the poison topic):
//	e != nil, f(e), p panics -> the same single Publish; the failure is still reported: the panic leaves the
//	                            middleware (a stand-alone caller sees it; the Router recovers it)       => Nack
//	                            or a non-nil error that still carries e is returned                     => Nack
//	handler panics / filter panics when asked -> only the invariant below: no success (nil error, Ack)
//	                            unless the poison publisher accepted the message
//
// Whole-run invariant (stated from the logs alone, not from the plan): every acked delivery was
// handled (handler returned nil) or has a successful Publish of its UUID on the poison topic.
//
// Filters with memory (classes '+stateful'): f(e) is not a function of e; "an error the filter accepts" is
// what the filter answered when it was asked about this failure. How often the middleware asks is not
// specified. With the answers A the filter gave for one failure:
//
//	all of A are yes          -> the poison rows above
//	all of A are no           -> the filtered-out row above
//	A has a yes and a no      -> the filter both accepted and rejected the failure: either row is backed by an
//	(or A is empty)              answer, so the one that matches what was observed at the poison publisher is
//	                             demanded in full - a Publish call => the poison rows (exactly one, complete, nil
//	                             only after it succeeded), no Publish call => the error comes back unchanged.
//	                             What no row allows is the mixture: success reported although nothing was published.

func sameErr(a, b error) bool {
	if a == nil || b == nil {
		return a == nil && b == nil
	}
	ta, tb := reflect.TypeOf(a), reflect.TypeOf(b)
	if ta != tb {
		return false
	}
	if ta.Comparable() {
		return a == b
	}
	return reflect.DeepEqual(a, b)
}

func carries(ret, handlerErr error, reason string) bool {
	if ret == nil {
		return false
	}
	return sameErr(ret, handlerErr) || errors.Is(ret, handlerErr) || strings.Contains(ret.Error(), reason)
}

func sameOuts(a, b []*message.Message) bool {
	if len(a) != len(b) || (a == nil) != (b == nil) {
		return false
	}
	for i := range a {
		if a[i] != b[i] {
			return false
		}
	}
	return true
}

func sameSnap(a, b vlib.MsgSnap) string {
	if a.UUID != b.UUID {
		return fmt.Sprintf("UUID %q -> %q", a.UUID, b.UUID)
	}
	if string(a.Payload) != string(b.Payload) {
		return fmt.Sprintf("payload %x -> %x", a.Payload, b.Payload)
	}
	for k, v := range a.Metadata {
		if w, ok := b.Metadata[k]; !ok || w != v {
			return fmt.Sprintf("metadata[%q] %q -> %q (present=%v)", k, v, w, ok)
		}
	}
	for k, v := range b.Metadata {
		if _, ok := a.Metadata[k]; !ok {
			return fmt.Sprintf("metadata[%q]=%q appeared", k, v)
		}
	}
	return ""
}

func isPoisonKey(k string) bool {
	for _, p := range poisonKeys {
		if p == k {
			return true
		}
	}
	return false
}

func expectedSettlement(a *attemptObs, stateful bool) (string, string) {
	if stateful && a.err != nil {
		// filter with memory: from what was observed at the poison publisher (whether that path was open is judgeAttempt's business)
		switch {
		case len(a.calls) == 0:
			return "nack", "handler failed and nothing was published to the poison topic"
		case a.calls[0].Err != nil:
			return "nack", "poison publish failed"
		default:
			return "ack", "published to the poison topic"
		}
	}
	switch {
	case a.hPanic:
		return "nack", "handler panicked"
	case a.fPanicked:
		return "nack", "filter panicked"
	case a.err == nil:
		return "ack", "handler succeeded"
	case !a.accept:
		return "nack", "handler error rejected by the filter"
	case a.plan.PubFail:
		return "nack", "poison publish failed"
	case a.plan.PubPanicK != "":
		return "nack", "poison publisher panicked"
	default:
		return "ack", "published to the poison topic"
	}
}

func judge(res *vlib.Result, w *world, cfg *config, nm []names) {
	for _, s := range w.stray {
		res.Fail("stray-publish", "%s", s)
	}
	for _, p := range w.panics {
		res.Fail("panic", "%s", p)
	}
	res.Count("filter_calls", w.filterCalls)
	res.Count("filter_calls_with_nil_error", w.filterNilErr)
	if w.stateful {
		res.Count("stateful_filter_cases", 1)
		res.Count("filter_calls_outside_any_failure", w.filterUnattributed)
		if w.filterAmbiguous > 0 {
			res.Inconclusive("%d answers of the filter with memory could not be attributed to one handler invocation", w.filterAmbiguous)
		}
		for _, ms := range w.order {
			for _, a := range ms.attempts {
				yes, _ := countAnswers(a.answers)
				a.accept = a.err != nil && yes > 0 // for the description of the case only
			}
		}
	}
	if cfg.Variant == "names" {
		res.Count("names_cases", 1)
		for _, h := range cfg.Handlers {
			if h.Name == "" {
				res.Count("names_handlers_with_empty_name", 1)
			}
			if h.Topic == "" {
				res.Count("names_handlers_with_empty_subscribe_topic", 1)
			}
			res.Count("names_publisher_"+h.PubKind, 1)
			res.Count("names_subscriber_"+h.SubKind, 1)
		}
	}
	if cfg.Life != nil {
		countLifecycle(res, w, cfg)
	}
	if cfg.Variant == "inherited" {
		countInherited(res, w, cfg, nm)
	}
	if cfg.Variant == "panics" {
		res.Count("panics_cases", 1)
		res.Count("panics_reaching_standalone_caller", w.expectedPanicsStandalone)
		if cfg.Recoverer {
			res.Count("panics_cases_with_recoverer_outermost", 1)
		}
	}
	for _, ms := range w.order {
		n := nm[0]
		if cfg.Mode == "router" && ms.plan.Handler >= 0 {
			n = nm[ms.plan.Handler]
		}
		direct := ms.plan.Handler < 0 // dispatched into the shared wrapped function without a Router context
		if direct {
			n = names{}
			res.Count("messages_dispatched_directly_into_shared_func", 1)
		}
		res.Count("messages", 1)
		if ms.plan.PreKeys > 0 {
			res.Count("messages_with_preexisting_poison_keys", 1)
		}
		if len(ms.plan.Ctx) > 0 {
			res.Count("messages_with_foreign_ctx_values", 1)
			for _, inj := range ms.plan.Ctx {
				res.Count("ctx_injections_"+inj.Place, 1)
				res.Count("ctx_pairs", len(inj.Pairs))
			}
		}
		// router mode: the externally visible outcome (settlement, invariant) is judged first
		if cfg.Mode == "router" && !direct {
			judgeSettlement(res, cfg, ms)
		}
		for _, a := range ms.attempts {
			judgeAttempt(res, cfg, ms, a, n)
		}
		// final disposition of the message
		if len(ms.attempts) > 0 {
			last := ms.attempts[len(ms.attempts)-1]
			switch {
			case last.err == nil:
				res.Count("msgs_handled", 1)
			case last.hPanic || last.fPanicked:
				res.Count("msgs_still_failing", 1)
			case !w.stateful && last.accept && !last.plan.PubFail && last.plan.PubPanicK == "", w.stateful && len(last.calls) == 1 && last.calls[0].Err == nil:
				res.Count("msgs_salvaged_to_poison_topic", 1)
			default:
				res.Count("msgs_still_failing", 1)
			}
			res.Count("redeliveries", len(ms.attempts)-1)
			if n := len(ms.attempts); n > 1 && last.err != nil && last.salvaged(cfg.PoisonTopic, ms.plan.UUID) {
				for _, a := range ms.attempts[:n-1] {
					if a.panicExpected() {
						res.Count("msgs_poisoned_on_a_redelivery_after_a_panic", 1)
						break
					}
				}
			}
		}
	}
	if cfg.Reg == regShared {
		countSharedOrigins(res, w)
	}
}

// countSharedOrigins reports how many messages were poisoned through the one shared wrapped function and
// how many of them were consumed somewhere else than the first one poisoned through it (counters only).
func countSharedOrigins(res *vlib.Result, w *world) {
	type pc struct {
		start  uint64
		origin int
	}
	var calls []pc
	for _, ms := range w.order {
		for _, a := range ms.attempts {
			for _, c := range a.calls {
				calls = append(calls, pc{c.Start, ms.plan.Handler})
			}
		}
	}
	sort.Slice(calls, func(i, j int) bool { return calls[i].start < calls[j].start })
	res.Count("shared_func_cases", 1)
	res.Count("shared_func_poison_publishes", len(calls))
	for _, c := range calls {
		if c.origin != calls[0].origin {
			res.Count("shared_func_poison_publishes_from_other_origin_than_first", 1)
		}
	}
}

func judgeAttempt(res *vlib.Result, cfg *config, ms *msgState, a *attemptObs, n names) {
	where := fmt.Sprintf("%s message %q attempt %d (handler error kind %q: %q, filter %s=%v, poison publisher %s)",
		cfg.Mode, ms.plan.UUID, a.idx, a.plan.ErrKind, a.reason, cfg.Filter, a.accept, a.plan.pubText())
	stateful := cfg.Variant == "stateful"
	if stateful {
		where = fmt.Sprintf("%s message %q attempt %d (handler error kind %q: %q, filter with memory %s(%s) answered %q for this failure, poison publisher fails=%v)",
			cfg.Mode, ms.plan.UUID, a.idx, a.plan.ErrKind, a.reason, cfg.Filter, cfg.FilterParam, answersText(a.answers), a.plan.PubFail)
	}
	if cfg.Variant != "" {
		origin := fmt.Sprintf("consumed by handler #%d %q", ms.plan.Handler, n.Handler)
		if ms.plan.Handler < 0 {
			origin = "dispatched directly, no Router context"
		}
		where += fmt.Sprintf(" [%s, registration %s, %s, foreign context values: %s]", cfg.Variant, cfg.Reg, origin, ctxPlanSig(ms.plan.Ctx))
		if ms.plan.Inherit != nil && ms.inherited != nil {
			where += fmt.Sprintf(" [arrived with an inherited context (%s) naming handler %q topic %q subscriber %q]", ms.plan.Inherit.sig(), ms.inherited.Handler, ms.inherited.Topic, ms.inherited.Subscriber)
		}
	}
	res.Events++ // handler invocation
	res.Count("attempts", 1)
	if a.plan.ErrKind != "" {
		res.Count("errkind_"+a.plan.ErrKind, 1)
	}
	if len(a.outs) > 0 {
		res.Count("attempts_with_outputs", 1)
	}
	if !a.returned {
		res.Inconclusive("%s: handler did not return", where)
		return
	}
	if a.gotSet {
		res.Events++
	}
	res.Events += len(a.calls)
	if a.gotPanic && !a.panicExpected() {
		res.Fail("panic", "%s: a panic left the poison middleware although neither the publisher nor the handler nor the filter panicked: %s", where, a.gotPanicText)
		return
	}
	if a.hPanic || a.fPanicked {
		// the handler did not return / the filter gave no verdict: no row of the model applies, only the invariant
		what := "handler"
		if a.hPanic {
			res.Count("handler_panics", 1)
			res.Count("handler_panic_"+a.plan.HPanicK, 1)
		} else {
			what = "filter"
			res.Count("filter_panics", 1)
			res.Count("filter_panic_"+a.plan.FPanicK, 1)
		}
		if a.gotPanic {
			res.Count(what+"_panic_left_the_middleware", 1)
		}
		if a.gotSet && !a.gotPanic && a.gotErr == nil && !a.salvaged(cfg.PoisonTopic, ms.plan.UUID) {
			res.Fail("success-after-panic", "%s: the %s panicked, the poison topic did not accept the message, yet the middleware returned nil (the message is acked and lost)", where, what)
		}
		return
	}
	expectPublish := a.err != nil && a.accept
	if stateful && a.err != nil {
		yes, no := countAnswers(a.answers)
		res.Count("stateful_failures", 1)
		switch {
		case yes > 0 && no == 0:
			expectPublish = true
			res.Count("stateful_failures_accepted", 1)
		case no > 0 && yes == 0:
			expectPublish = false
			res.Count("stateful_failures_rejected", 1)
		default:
			// both rows of the model are backed by an answer (or the filter was not asked): the observed one is demanded in full
			expectPublish = len(a.calls) > 0
			if yes > 0 {
				res.Count("stateful_failures_with_contradicting_answers", 1)
			} else {
				res.Count("stateful_failures_filter_not_asked", 1)
			}
		}
		if len(a.answers) > 1 {
			res.Count("stateful_failures_asked_more_than_once", 1)
		}
		if expectPublish && len(a.calls) == 0 && a.gotSet && a.gotErr == nil {
			res.Fail("swallowed-without-publish", "%s: the filter accepted, nothing was published to the poison topic, yet the middleware returned nil (the message is acked and lost)", where)
			return
		}
		if !expectPublish && a.gotSet && a.gotErr == nil {
			res.Fail("swallowed-without-publish", "%s: nothing was published to the poison topic, yet the middleware returned nil (the message is acked and lost)", where)
			return
		}
	}

	if !expectPublish {
		// success, or an error the filter rejects: pass-through, nothing published
		if a.err == nil {
			res.Count("handler_ok", 1)
		} else {
			res.Count("handler_err_filtered_out", 1)
		}
		if len(a.calls) > 0 {
			c := a.calls[0]
			res.Fail("published-unexpectedly", "%s: %d Publish call(s) although nothing was due; first: topic %q uuid %q", where, len(a.calls), c.Topic, snapUUID(c))
			return
		}
		if !a.gotSet {
			return
		}
		if !sameErr(a.gotErr, a.err) {
			res.Fail("passthrough-error-changed", "%s: handler returned %v, middleware returned %v", where, errText(a.err), errText(a.gotErr))
			return
		}
		if !sameOuts(a.gotOuts, a.outs) {
			res.Fail("passthrough-outputs-changed", "%s: handler returned %d outputs (nil=%v), middleware returned %d (nil=%v) or different messages",
				where, len(a.outs), a.outs == nil, len(a.gotOuts), a.gotOuts == nil)
			return
		}
		if d := sameSnap(a.snap, a.after); d != "" {
			res.Fail("passthrough-message-changed", "%s: consumed message changed: %s", where, d)
		}
		return
	}

	// error accepted by the filter: exactly one publish on the poison topic
	res.Count("handler_err_accepted", 1)
	if len(a.calls) == 0 {
		if !a.gotSet {
			res.Fail("not-published", "%s: no Publish call, and the poison middleware never returned for this invocation (it is not in the handler's chain)", where)
			return
		}
		res.Fail("not-published", "%s: no Publish call; middleware returned %v", where, errText(a.gotErr))
		return
	}
	if len(a.calls) > 1 {
		res.Fail("published-more-than-once", "%s: %d Publish calls", where, len(a.calls))
		return
	}
	c := a.calls[0]
	if c.Topic != cfg.PoisonTopic {
		res.Fail("poison-topic", "%s: published to %q, poison topic is %q", where, c.Topic, cfg.PoisonTopic)
		return
	}
	if len(c.Snaps) != 1 {
		res.Fail("poison-msg-count", "%s: Publish carried %d messages", where, len(c.Snaps))
		return
	}
	if c.Sampled["before_handler_returned"] != "" {
		res.Fail("published-before-handler-returned", "%s", where)
		return
	}
	got := c.Snaps[0]
	if got.UUID != a.snap.UUID {
		res.Fail("poison-uuid", "%s: published UUID %q", where, got.UUID)
		return
	}
	if string(got.Payload) != string(a.snap.Payload) {
		res.Fail("poison-payload", "%s: published payload %x, consumed %x", where, got.Payload, a.snap.Payload)
		return
	}
	want := map[string]string{}
	for k, v := range a.snap.Metadata {
		want[k] = v
	}
	want[middleware.ReasonForPoisonedKey] = a.reason
	want[middleware.PoisonedTopicKey] = n.Topic
	want[middleware.PoisonedHandlerKey] = n.Handler
	want[middleware.PoisonedSubscriberKey] = n.Subscriber
	keys := make([]string, 0, len(want))
	for k := range want {
		keys = append(keys, k)
	}
	sort.Strings(keys)
	for _, k := range keys {
		g, ok := got.Metadata[k]
		if ok && g == want[k] {
			continue
		}
		clause := "poison-metadata-original"
		switch {
		case k == middleware.ReasonForPoisonedKey:
			clause = "poison-metadata-reason"
		case isPoisonKey(k):
			clause = "poison-metadata-names"
		}
		res.Fail(clause, "%s: published metadata[%q]=%q (present=%v), want %q", where, k, g, ok, want[k])
		return
	}
	for k, v := range got.Metadata {
		if _, ok := want[k]; !ok {
			res.Fail("poison-metadata-extra", "%s: published metadata has unexpected key %q=%q", where, k, v)
			return
		}
	}
	if s := c.Sampled["settled"]; s != "" {
		res.Fail("settled-before-published", "%s: the consumed message was already %sed while the poison Publish was running", where, s)
		return
	}
	if len(ms.plan.Ctx) > 0 {
		res.Count("poisoned_with_foreign_ctx_values", 1)
		if lookalikes(ms.plan.Ctx, cfg.Mode == "router" && ms.plan.Handler >= 0) > 0 {
			res.Count("poisoned_with_visible_router_spelled_string_keys", 1)
		}
	}
	pubFailed := c.Err != nil || c.Panic != nil
	switch {
	case c.Panic != nil:
		res.Count("poison_publish_panicked", 1)
		res.Count("poison_publish_panic_"+a.plan.PubPanicK, 1)
	case pubFailed:
		res.Count("poison_publish_failed", 1)
	default:
		res.Count("poison_published_ok", 1)
	}
	if a.plan.PubPanicK != "" && c.Panic == nil {
		res.Inconclusive("%s: the drawn panic of the poison publisher was not observable (Publish returned)", where)
		return
	}
	if !a.gotSet {
		return
	}
	if c.End == 0 || c.End > a.spyRet {
		res.Fail("returned-before-publish-finished", "%s: middleware returned at %d, Publish ended at %d", where, a.spyRet, c.End)
		return
	}
	if a.gotPanic {
		// the publisher's panic left the middleware: the failure is reported (the Router recovers it and Nacks)
		res.Count("publisher_panic_left_the_middleware", 1)
		return
	}
	if c.Panic != nil {
		res.Count("publisher_panic_returned_by_the_middleware", 1)
	}
	switch {
	case c.Panic != nil && a.gotErr == nil:
		res.Fail("success-after-publisher-panic", "%s: the poison publisher panicked (%s), so the message is not in the poison topic, but the middleware returned nil (the message would be acked and lost)", where, panicText(c.Panic))
	case !pubFailed && a.gotErr != nil:
		res.Fail("error-after-salvage", "%s: publish succeeded but the middleware returned %v", where, errText(a.gotErr))
	case pubFailed && a.gotErr == nil:
		res.Fail("error-cleared-on-publish-failure", "%s: publish failed with %v but the middleware returned nil (the message would be acked and lost)", where, errText(c.Err))
	case pubFailed && !carries(a.gotErr, a.err, a.reason):
		res.Fail("handler-error-lost", "%s: publish failed; returned error %v no longer carries the handler's error", where, errText(a.gotErr))
	}
}

// judgeSettlement: router mode; copies[i] is the i-th delivery, attempts[i] the i-th handler invocation.
func judgeSettlement(res *vlib.Result, cfg *config, ms *msgState) {
	if len(ms.copies) != len(ms.attempts) {
		if !res.Failed() {
			res.Inconclusive("message %q: %d deliveries but %d handler invocations", ms.plan.UUID, len(ms.copies), len(ms.attempts))
		}
		return
	}
	for i, c := range ms.copies {
		a := ms.attempts[i]
		got := vlib.Settled(c)
		res.Events++
		res.Count("settled_"+got, 1)
		want, why := expectedSettlement(a, cfg.Variant == "stateful")
		where := fmt.Sprintf("router message %q delivery %d (handler error kind %q, filter %s=%v, poison publisher %s)",
			ms.plan.UUID, i, a.plan.ErrKind, cfg.Filter, a.accept, a.plan.pubText())
		if a.hPanic {
			where += " [handler panicked]"
		}
		if a.fPanicked {
			where += " [filter panicked]"
		}

		// the invariant, from the logs alone
		if got == "ack" && (a.err != nil || a.hPanic) {
			if !a.salvaged(cfg.PoisonTopic, c.UUID) {
				res.Fail("acked-but-neither-handled-nor-poisoned", "%s: acked, but the handler failed and the poison topic did not accept the message", where)
				return
			}
		}
		switch {
		case got == "":
			res.Fail("unsettled", "%s: neither acked nor nacked", where)
		case a.hPanic || a.fPanicked:
			// no row of the model applies (the handler did not return / the filter gave no verdict): the invariant above is all
		case got != want && want == "nack":
			res.Fail("acked-instead-of-nack", "%s: acked, expected Nack (%s)", where, why)
		case got != want:
			res.Fail("nacked-instead-of-ack", "%s: nacked, expected Ack (%s)", where, why)
		}
		if res.Failed() {
			return
		}
	}
	// Deliver stops at the first ack: an acked message must be the last delivery
	if n := len(ms.copies); n > 0 && ms.acked != (vlib.Settled(ms.copies[n-1]) == "ack") {
		res.Inconclusive("message %q: subscriber verdict and last copy disagree", ms.plan.UUID)
	}
}

func snapUUID(c *vlib.PubCall) string {
	if len(c.Snaps) == 0 {
		return ""
	}
	return c.Snaps[0].UUID
}

func errText(err error) string {
	if err == nil {
		return "<nil>"
	}
	s := fmt.Sprintf("%T(%q)", err, err.Error())
	if len(s) > 200 {
		s = s[:200] + "..."
	}
	return s
}

// describe fills Sig, NonTrivial and Sample.
func describe(res *vlib.Result, w *world, cfg *config) {
	type attemptDesc struct {
		ErrKind   string `json:"err_kind,omitempty"`
		Reason    string `json:"reason,omitempty"`
		Outputs   string `json:"outputs"`
		Accept    bool   `json:"filter_accepts"`
		Answers   string `json:"filter_answers,omitempty"`
		PubFail   bool   `json:"poison_pub_fails"`
		PubPanic  string `json:"poison_pub_panics,omitempty"`
		HPanic    string `json:"handler_panics,omitempty"`
		FPanic    string `json:"filter_panicked,omitempty"`
		Published int    `json:"publish_calls"`
		Returned  string `json:"middleware_returned"`
		Settled   string `json:"settled,omitempty"`
	}
	type msgDesc struct {
		UUID     string            `json:"uuid"`
		Metadata map[string]string `json:"metadata"`
		Handler  int               `json:"handler"`
		Ctx      []ctxInj          `json:"foreign_ctx_values,omitempty"`
		Inherit  *inheritPlan      `json:"inherited_context,omitempty"`
		Attempts []attemptDesc     `json:"attempts"`
	}
	var parts []any
	parts = append(parts, cfg.Mode, cfg.Filter, cfg.Reg, len(cfg.Handlers))
	if cfg.Variant != "" {
		parts = append(parts, cfg.Variant, cfg.CtxValues)
		for i, h := range cfg.Handlers {
			parts = append(parts, h.SubKind, h.SubOf != i, i > 0 && h.Topic == cfg.Handlers[0].Topic)
			if cfg.Variant == "names" {
				parts = append(parts, h.PubKind, h.Name == "", h.Topic == "")
			}
		}
		if cfg.Variant == "stateful" {
			parts = append(parts, cfg.TaggedErrs, cfg.Concurrent)
		}
		if cfg.Life != nil {
			parts = append(parts, lifeSig(cfg)...)
		}
		if cfg.Variant == "panics" {
			parts = append(parts, cfg.TaggedErrs, cfg.Concurrent, cfg.Recoverer)
		}
		if cfg.Variant == "inherited" {
			parts = append(parts, cfg.UpSameRouter, cfg.Concurrent)
			for _, u := range cfg.Up {
				parts = append(parts, u.Name == "", u.SubKind, u.WithPublisher)
			}
		}
	}
	var sample []msgDesc
	for i, ms := range w.order {
		md := msgDesc{UUID: ms.plan.UUID, Metadata: ms.plan.Metadata, Handler: ms.plan.Handler, Ctx: ms.plan.Ctx, Inherit: ms.plan.Inherit}
		if cfg.Variant != "" {
			parts = append(parts, ms.plan.Handler, ms.plan.At, ctxPlanSig(ms.plan.Ctx), ms.plan.Inherit.sig())
		}
		for j, a := range ms.attempts {
			settled := ""
			if j < len(ms.copies) {
				settled = vlib.Settled(ms.copies[j])
			}
			pubOutcome := "-"
			if len(a.calls) > 0 {
				pubOutcome = fmt.Sprint(a.calls[0].Err == nil)
				if a.calls[0].Panic != nil {
					pubOutcome = "panic"
				}
			}
			returned := errText(a.gotErr)
			if a.gotPanic {
				returned = "panic: " + strings.ToValidUTF8(a.gotPanicText, "?")
			}
			fPanic := ""
			if a.fPanicked {
				fPanic = a.plan.FPanicK
			}
			if cfg.Variant == "panics" {
				parts = append(parts, a.plan.PubPanicK, a.plan.HPanicK, fPanic, a.gotPanic, ms.plan.Outage)
			}
			parts = append(parts, a.plan.ErrKind, a.plan.OutKind, a.accept, pubOutcome, a.plan.MutKey != "", ms.plan.PreKeys, settled)
			if cfg.Variant == "stateful" {
				parts = append(parts, answersText(a.answers))
			}
			if a.err != nil && a.accept {
				res.NonTrivial = true
			}
			reason := a.reason
			if len(reason) > 60 {
				reason = reason[:60] + "..."
			}
			md.Attempts = append(md.Attempts, attemptDesc{ErrKind: a.plan.ErrKind, Reason: strings.ToValidUTF8(reason, "?"), Outputs: a.plan.OutKind, Accept: a.accept, Answers: answersText(a.answers),
				PubFail: a.plan.PubFail, PubPanic: a.plan.PubPanicK, HPanic: a.plan.HPanicK, FPanic: fPanic, Published: len(a.calls), Returned: returned, Settled: settled})
		}
		parts = append(parts, "|")
		if i < 3 {
			sample = append(sample, md)
		}
	}
	res.Sig = vlib.Sig(parts...)
	res.Sample = map[string]any{"config": cfg, "messages": sample}
}
