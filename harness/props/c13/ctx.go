package c13

import (
	"context"
	"fmt"
	"strings"

	"github.com/ThreeDotsLabs/watermill/message"

	"verifharness/vlib"
)

// ---------------------------------------------------------------------------------------------
// Foreign context values.
//
// The poison metadata names the topic / handler / subscriber "in the router that consumed the message"
// (godoc of message.SubscribeTopicFromCtx, HandlerNameFromCtx, SubscriberNameFromCtx). Application code
// is free to keep its own values in the message context under keys of its own (context.WithValue: keys
// of different types never collide, "packages should define keys as an unexported type"). Such values -
// whatever their key is spelled like - are not the Router's and must not end up in the poison metadata;
// without a Router the three names are the empty string.

// routerKeySpellings are the texts of the Router's (unexported, typed) context keys.
var routerKeySpellings = []string{"handler_name", "subscribe_topic", "subscriber_name", "publisher_name", "publish_topic"}

// appKey is an application-defined key type whose values are spelled like the Router's keys.
type appKey string

// structKey / intKey are other application key types.
type structKey struct{ Name string }
type intKey int

type ctxPair struct {
	KeyKind string `json:"key_kind"` // router-spelled-string | other-string | typed-lookalike | struct | int
	KeyText string `json:"key"`
	ValKind string `json:"val_kind"` // string | real-name | empty | int | nil | bytes
	key     any
	val     any
}

// Places where application code touches the context of a message:
//
//	emit       by the producer of the message: the subscriber before the Router sees it / the caller of a stand-alone chain
//	decorator  a subscriber decorator added with Router.AddSubscriberDecorators (runs after the Router's own context decorator)
//	outer-mw   a middleware above the poison middleware
//	inner-mw   a middleware between the poison middleware and the handler
//	handler    the handler itself, before it returns
const (
	placeEmit      = "emit"
	placeDecorator = "decorator"
	placeOuterMW   = "outer-mw"
	placeInnerMW   = "inner-mw"
	placeHandler   = "handler"
)

type ctxInj struct {
	Place string    `json:"place"`
	After bool      `json:"after_next_returned,omitempty"` // middlewares: store the values after the wrapped function returned
	Pairs []ctxPair `json:"pairs"`
}

func genCtxPair(r *vlib.Rand, realNames []string) ctxPair {
	var p ctxPair
	spelled := routerKeySpellings[r.Intn(len(routerKeySpellings))]
	switch r.Intn(10) {
	case 0, 1, 2, 3, 4:
		p.KeyKind, p.key, p.KeyText = "router-spelled-string", spelled, spelled
	case 5:
		s := "app-" + r.UTF8(5)
		p.KeyKind, p.key, p.KeyText = "other-string", s, s
	case 6, 7:
		p.KeyKind, p.key, p.KeyText = "typed-lookalike", appKey(spelled), spelled
	case 8:
		p.KeyKind, p.key, p.KeyText = "struct", structKey{Name: spelled}, spelled
	default:
		n := r.Intn(5)
		p.KeyKind, p.key, p.KeyText = "int", intKey(n), fmt.Sprint(n)
	}
	switch r.Intn(10) {
	case 0, 1, 2, 3:
		p.ValKind, p.val = "string", "foreign-"+r.UTF8(6)
	case 4, 5:
		p.ValKind, p.val = "real-name", realNames[r.Intn(len(realNames))]
	case 6:
		p.ValKind, p.val = "empty", ""
	case 7:
		p.ValKind, p.val = "int", r.Intn(1000)
	case 8:
		p.ValKind, p.val = "nil", nil
	default:
		p.ValKind, p.val = "bytes", string(r.Bytes(4)) // a string that need not be valid UTF-8
	}
	return p
}

// genCtxPlan draws 0..3 injections for one message. places = the places that exist in this mode.
func genCtxPlan(r *vlib.Rand, places []string, realNames []string) []ctxInj {
	if r.Chance(0.15) {
		return nil
	}
	var plan []ctxInj
	for i, n := 0, r.Range(1, 3); i < n; i++ {
		inj := ctxInj{Place: places[r.Intn(len(places))]}
		if inj.Place == placeOuterMW || inj.Place == placeInnerMW {
			inj.After = r.Chance(0.3)
		}
		if r.Chance(0.35) {
			// what a "request scope" helper of an application would do: all three names at once
			for _, k := range routerKeySpellings[:3] {
				inj.Pairs = append(inj.Pairs, ctxPair{KeyKind: "router-spelled-string", key: k, KeyText: k, ValKind: "string", val: "scope-" + r.UTF8(5)})
			}
		} else {
			for j, m := 0, r.Range(1, 3); j < m; j++ {
				inj.Pairs = append(inj.Pairs, genCtxPair(r, realNames))
			}
		}
		plan = append(plan, inj)
	}
	return plan
}

// applyCtx stores the values of the injections of one place in the context of msg, deriving from
// the context the message already carries (a value is added, nothing is dropped).
func applyCtx(msg *message.Message, plan []ctxInj, place string, after bool) int {
	n := 0
	for _, inj := range plan {
		if inj.Place != place || inj.After != after {
			continue
		}
		ctx := msg.Context()
		for _, p := range inj.Pairs {
			ctx = context.WithValue(ctx, p.key, p.val)
			n++
		}
		msg.SetContext(ctx)
	}
	return n
}

// lookalikes counts the pairs of a plan that sit under a plain-string key spelled like one of the three
// Router keys the poison metadata is read from, stored where they are visible to the poison middleware
// and not covered by the Router's own values (inRouter: values stored by the emitter lie below the Router's).
func lookalikes(plan []ctxInj, emittedIntoRouter bool) int {
	n := 0
	for _, inj := range plan {
		if inj.Place == placeEmit && emittedIntoRouter {
			continue
		}
		if inj.Place == placeOuterMW && inj.After {
			continue
		}
		for _, p := range inj.Pairs {
			if p.KeyKind == "router-spelled-string" && (p.KeyText == "handler_name" || p.KeyText == "subscribe_topic" || p.KeyText == "subscriber_name") {
				n++
			}
		}
	}
	return n
}

func ctxPlanSig(plan []ctxInj) string {
	var b strings.Builder
	for _, inj := range plan {
		fmt.Fprintf(&b, "%s/%v[", inj.Place, inj.After)
		for _, p := range inj.Pairs {
			fmt.Fprintf(&b, "%s:%s=%s,", p.KeyKind, p.KeyText, p.ValKind)
		}
		b.WriteString("]")
	}
	return b.String()
}

// ---------------------------------------------------------------------------------------------
// context middlewares and decorator (look the plan up by UUID; plans are immutable once generated)

func (w *world) ctxPlanOf(uuid string) []ctxInj {
	w.mu.Lock()
	defer w.mu.Unlock()
	if ms := w.msgs[uuid]; ms != nil {
		return ms.plan.Ctx
	}
	return nil
}

func (w *world) ctxMiddleware(place string) message.HandlerMiddleware {
	return func(h message.HandlerFunc) message.HandlerFunc {
		return func(msg *message.Message) ([]*message.Message, error) {
			plan := w.ctxPlanOf(msg.UUID)
			applyCtx(msg, plan, place, false)
			outs, err := h(msg)
			applyCtx(msg, plan, place, true)
			return outs, err
		}
	}
}

func (w *world) ctxDecorator() message.SubscriberDecorator {
	return message.MessageTransformSubscriberDecorator(func(msg *message.Message) {
		if msg != nil {
			applyCtx(msg, w.ctxPlanOf(msg.UUID), placeDecorator, false)
		}
	})
}

// ---------------------------------------------------------------------------------------------
// subscribers whose Router name is the name of their type

// The Router names a subscriber after fmt.Stringer if it is one (vlib.Sub: "vsub:<name>"), else after its
// type: "SubscriberNameFromCtx returns the name of the message subscriber type that subscribed to the
// message in the router. For example, for Kafka it will be `kafka.Subscriber`." (a *kafka.Subscriber).

type anonSubA struct{ s *vlib.Sub }

func (a *anonSubA) Subscribe(ctx context.Context, topic string) (<-chan *message.Message, error) {
	return a.s.Subscribe(ctx, topic)
}
func (a *anonSubA) Close() error { return a.s.Close() }

type anonSubB struct{ s *vlib.Sub }

func (b anonSubB) Subscribe(ctx context.Context, topic string) (<-chan *message.Message, error) {
	return b.s.Subscribe(ctx, topic)
}
func (b anonSubB) Close() error { return b.s.Close() }

var subKinds = []string{"stringer", "stringer", "ptr-type", "value-type"}

func wrapSub(kind string, s *vlib.Sub) (message.Subscriber, string) {
	switch kind {
	case "empty-stringer":
		return &emptyNameSub{s}, ""
	case "ptr-type":
		return &anonSubA{s}, "c13.anonSubA"
	case "value-type":
		return anonSubB{s}, "c13.anonSubB"
	default:
		return s, "vsub:" + s.Name
	}
}
