package c13

import (
	"context"
	"errors"
	"fmt"
	"strings"

	"github.com/ThreeDotsLabs/watermill/message"
	"github.com/ThreeDotsLabs/watermill/message/router/middleware"
	multierror "github.com/hashicorp/go-multierror"
	pkgerrors "github.com/pkg/errors"

	"verifharness/vlib"
)

// The four metadata keys the middleware adds.
var poisonKeys = []string{
	middleware.ReasonForPoisonedKey,
	middleware.PoisonedTopicKey,
	middleware.PoisonedHandlerKey,
	middleware.PoisonedSubscriberKey,
}

// ---------------------------------------------------------------------------------------------
// error zoo

// typedErr is a pointer-receiver error type (target of the "as-typed" filter); nil-safe so that a
// typed-nil pointer is a usable (non-nil interface) error too.
type typedErr struct {
	Code int
	Text string
}

func (t *typedErr) Error() string {
	if t == nil {
		return "typed-nil"
	}
	return fmt.Sprintf("typed[%d]: %s", t.Code, t.Text)
}

// valErr is a comparable value-type error.
type valErr struct {
	Code int
	Text string
}

func (v valErr) Error() string { return fmt.Sprintf("val[%d]: %s", v.Code, v.Text) }

// sliceErr is an uncomparable value-type error (== on it panics, errors.Is must cope).
type sliceErr struct{ Parts []string }

func (s sliceErr) Error() string { return "parts:" + strings.Join(s.Parts, ";") }

var errKinds = []string{
	"plain", "pkg-new", "sentinel", "fmt-wrap-sentinel", "pkg-wrap-sentinel", "deep-wrap-sentinel",
	"typed-ptr", "wrap-typed", "typed-nil", "val", "uncomparable",
	"multi-with-sentinel", "multi-plain", "multi-typed", "join-sentinel", "join-plain",
	"ctx-canceled", "wrap-ctx-canceled", "deadline", "empty-text", "pkg-withmessage",
}

func genErr(r *vlib.Rand, sent error) (string, error) {
	kind := errKinds[r.Intn(len(errKinds))]
	txt := r.UTF8(10)
	switch kind {
	case "plain":
		return kind, errors.New("plain " + txt)
	case "pkg-new":
		return kind, pkgerrors.New("pkg " + txt)
	case "sentinel":
		return kind, sent
	case "fmt-wrap-sentinel":
		return kind, fmt.Errorf("ctx %s: %w", txt, sent)
	case "pkg-wrap-sentinel":
		return kind, pkgerrors.Wrap(sent, "wrapped "+txt)
	case "deep-wrap-sentinel":
		return kind, fmt.Errorf("outer: %w", pkgerrors.WithStack(fmt.Errorf("mid %s: %w", txt, sent)))
	case "typed-ptr":
		return kind, &typedErr{Code: r.Intn(100), Text: txt}
	case "wrap-typed":
		return kind, fmt.Errorf("while %s: %w", txt, &typedErr{Code: r.Intn(100), Text: "inner"})
	case "typed-nil":
		return kind, (*typedErr)(nil)
	case "val":
		return kind, valErr{Code: r.Intn(100), Text: txt}
	case "uncomparable":
		return kind, sliceErr{Parts: []string{txt, r.UTF8(4)}}
	case "multi-with-sentinel":
		return kind, multierror.Append(nil, errors.New("first "+txt), sent)
	case "multi-plain":
		return kind, multierror.Append(nil, errors.New("a "+txt), errors.New("b"))
	case "multi-typed":
		return kind, multierror.Append(nil, &typedErr{Code: 7, Text: txt})
	case "join-sentinel":
		return kind, errors.Join(errors.New("j "+txt), sent)
	case "join-plain":
		return kind, errors.Join(errors.New("j1 "+txt), valErr{Code: 1, Text: "j2"})
	case "ctx-canceled":
		return kind, context.Canceled
	case "wrap-ctx-canceled":
		return kind, fmt.Errorf("op %s: %w", txt, context.Canceled)
	case "deadline":
		return kind, context.DeadlineExceeded
	case "empty-text":
		return kind, errors.New("")
	default: // pkg-withmessage
		return "pkg-withmessage", pkgerrors.WithMessage(errors.New("base"), txt)
	}
}

// ---------------------------------------------------------------------------------------------
// filters

var filterKinds = []string{"default", "all", "none", "is-sentinel", "not-sentinel", "as-typed", "text-hash", "not-canceled"}

// predicate returns the pure decision function of a filter kind. "default" is the PoisonQueue
// constructor without a filter (every error qualifies).
func predicate(kind string, sent error, salt string) func(error) bool {
	switch kind {
	case "default", "all":
		return func(error) bool { return true }
	case "none":
		return func(error) bool { return false }
	case "is-sentinel":
		return func(err error) bool { return errors.Is(err, sent) }
	case "not-sentinel":
		return func(err error) bool { return !errors.Is(err, sent) }
	case "as-typed":
		return func(err error) bool { var t *typedErr; return errors.As(err, &t) }
	case "text-hash":
		return func(err error) bool { return vlib.HashStr(salt+err.Error())&1 == 0 }
	default: // not-canceled
		return func(err error) bool { return !errors.Is(err, context.Canceled) }
	}
}

// ---------------------------------------------------------------------------------------------
// plans

type attemptPlan struct {
	ErrKind string // "" = the handler succeeds
	Err     error
	OutKind string // "nil", "empty", "n"
	Outs    []*message.Message
	PubFail bool  // outcome of the poison publisher, should it be called during this attempt
	PubErr  error // the error it returns then
	PubErrK string
	MutKey  string // handler sets this metadata key before returning ("" = no mutation)
	MutVal  string

	// '+panics' classes ("" = no panic): the poison publisher panics instead of returning (PubFail is false then),
	// the handler panics instead of returning (Err is nil then), the filter panics when asked about this failure
	PubPanicK, PubPanicTxt string
	HPanicK, HPanicTxt     string
	FPanicK, FPanicTxt     string
}

type msgPlan struct {
	UUID     string
	Payload  []byte
	Metadata map[string]string
	PreKeys  int // how many of the four poison keys pre-exist
	Handler  int // index of the router handler that receives it (router mode); -1 = dispatched directly (no Router context)
	Attempts []attemptPlan
	Ctx      []ctxInj     // foreign context values application code stores on the message (extended classes)
	Outage   bool         // '+panics': one accepted failure on every delivery, the poison publisher panics / fails first and accepts on the last one
	Inherit  *inheritPlan // 'router+inherited': the upstream hops whose context the message carries when it is consumed (nil: fresh context)
	At       int          // 'router+lifecycle': delivered in the message phase after this wave was started (waves+1 = after the whole history)
}

func (p *msgPlan) attempt(k int) *attemptPlan {
	if k >= len(p.Attempts) {
		k = len(p.Attempts) - 1
	}
	return &p.Attempts[k]
}

func genMetadata(r *vlib.Rand) (map[string]string, int) {
	md := map[string]string{}
	for i, n := 0, r.Intn(5); i < n; i++ {
		md[r.UTF8(6)] = r.UTF8(8)
	}
	pre := 0
	if r.Chance(0.4) {
		for _, k := range poisonKeys {
			if r.Chance(0.6) {
				md[k] = r.UTF8(8)
				pre++
			}
		}
	}
	return md, pre
}

func genAttempt(r *vlib.Rand, id string, sent error, allowOuts bool) attemptPlan {
	var a attemptPlan
	if r.Chance(0.75) {
		a.ErrKind, a.Err = genErr(r, sent)
	}
	a.OutKind = "nil"
	if allowOuts {
		switch r.Intn(4) {
		case 0:
			a.OutKind, a.Outs = "empty", []*message.Message{}
		case 1, 2:
			a.OutKind = "n"
			for i, n := 0, r.Range(1, 3); i < n; i++ {
				o := message.NewMessage(fmt.Sprintf("%s-out-%d", id, i), r.Payload(8))
				o.Metadata.Set("k", r.UTF8(4))
				a.Outs = append(a.Outs, o)
			}
		}
	}
	a.PubFail = r.Chance(0.45)
	switch r.Intn(6) {
	case 0:
		a.PubErrK, a.PubErr = "sentinel", sent
	case 1:
		a.PubErrK, a.PubErr = "typed", &typedErr{Code: 503, Text: "poison publisher"}
	default:
		a.PubErrK, a.PubErr = "plain", fmt.Errorf("poison publisher down (%s)", id)
	}
	if r.Chance(0.2) {
		if r.Bool() {
			a.MutKey = poisonKeys[r.Intn(len(poisonKeys))]
		} else {
			a.MutKey = "h-" + r.UTF8(4)
		}
		a.MutVal = r.UTF8(6)
	}
	return a
}

// genMsg draws one message plan. forceHandler >= -1 fixes the receiving handler (-1 = direct dispatch),
// forceHandler < -1 draws it.
func genMsg(r *vlib.Rand, id string, n int, sent error, handlers int, forceHandler int, allowOuts func(h int) bool) *msgPlan {
	p := &msgPlan{UUID: fmt.Sprintf("%s-m%d-%s", id, n, r.UTF8(3)), Payload: r.Payload(24)}
	p.Metadata, p.PreKeys = genMetadata(r)
	p.Handler = r.Intn(handlers)
	if forceHandler >= -1 {
		p.Handler = forceHandler
	}
	for i, l := 0, r.Range(1, 4); i < l; i++ {
		p.Attempts = append(p.Attempts, genAttempt(r, fmt.Sprintf("%s-a%d", p.UUID, i), sent, allowOuts(p.Handler)))
	}
	return p
}

func (p *msgPlan) build() *message.Message {
	m := message.NewMessage(p.UUID, p.Payload)
	for k, v := range p.Metadata {
		m.Metadata.Set(k, v)
	}
	return m
}
