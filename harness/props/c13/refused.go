package c13

import (
	"context"
	"fmt"

	"github.com/ThreeDotsLabs/watermill/message"

	"verifharness/vlib"
)

// ---------------------------------------------------------------------------------------------
// Class 'router+refused': the 'router+lifecycle' history, interleaved with API calls that fail as documented
// (or are documented no-ops) and therefore must change nothing.
//
// An application makes mistakes against a live Router and carries on: it registers a handler under a name that is
// taken ("handlerName must be unique" - AddHandler panics with DuplicateHandlerNameError, the caller recovers),
// it calls Run a second time ("router is already running"), it calls RunHandlers before Run ("you can't call
// RunHandlers on non-running router"), it calls Stop on a handler that was not started yet (panic "handler is not
// started", recovered) or once more on a handler that has stopped (the handler's context is cancelled already:
// nothing left to do). A call that was refused has not happened. The statement does not mention such calls, so
// the PoisonQueue of every handler - the one the refused call named, and all the others - is judged exactly as
// in 'router+lifecycle'.
//
// Instants (per wave of the history): 'registered' = the handlers of the wave are added (with their handler-level
// middlewares) and not started yet - before Run for wave 0, before RunHandlers for a later wave;
// 'after-failed-startup-attempt' = after Run / RunHandlers returned a start-up error and before the next attempt
// (reached only when a scripted start-up fault fires in that wave); 'started' = all handlers of the wave run,
// nothing delivered yet; 'delivered' = after the deliveries of that instant; 'stopped' = after the handlers that
// stop after this wave have stopped.

const (
	phRegistered = "registered"
	phRetry      = "after-failed-startup-attempt"
	phStarted    = "started"
	phDelivered  = "delivered"
	phStopped    = "stopped"

	rkDupAdd       = "duplicate-AddHandler"
	rkDupAddNoPub  = "duplicate-AddNoPublisherHandler"
	rkSecondRun    = "second-Run"
	rkRunHBefore   = "RunHandlers-before-Run"
	rkStopUnstart  = "Stop-of-unstarted-handler"
	rkStopStopped  = "Stop-of-stopped-handler"
	outNotReached  = ""
	outRefusedPfx  = "refused: "
	outNoopPfx     = "returned"
	outSkippedPfx  = "skipped: "
	outAcceptedPfx = "ACCEPTED: "
)

var lifePhases = []string{phRegistered, phRetry, phStarted, phDelivered, phStopped}

type refusedCall struct {
	Kind      string `json:"call"`
	Wave      int    `json:"wave"`
	Phase     string `json:"instant"`
	Target    int    `json:"handler"`                    // index of the handler the call names (-1: the call names none)
	Unstarted bool   `json:"target_unstarted,omitempty"` // planned: the named handler is registered and not started at that instant
	SameSub   bool   `json:"same_subscriber,omitempty"`  // duplicate registration: with the subscriber object of the registered handler (else a new one)
	SameTopic bool   `json:"same_topic,omitempty"`       // duplicate registration: with its topic (else another one)

	// observed
	Outcome string `json:"outcome,omitempty"`
}

func (rc *refusedCall) isDup() bool { return rc.Kind == rkDupAdd || rc.Kind == rkDupAddNoPub }

func lifeStoppedAt(lh *lifeH, wave int, phase string) bool {
	return lh.StopHow != "" && (lh.StopAfter < wave || (lh.StopAfter == wave && phase == phStopped))
}

func lifeRegisteredAt(lh *lifeH, wave int, phase string) bool {
	return lh.Wave <= wave && !lifeStoppedAt(lh, wave, phase)
}

func lifeUnstartedAt(lh *lifeH, wave int, phase string) bool {
	return lh.Wave == wave && (phase == phRegistered || phase == phRetry)
}

// genRefused draws the 1..4 calls that are to be refused and the instants of the history at which they are made.
func genRefused(r *vlib.Rand, cfg *config) {
	lp := cfg.Life
	byKind := map[string][]refusedCall{}
	var dupUnstarted []refusedCall
	for wave := 0; wave <= lp.Waves; wave++ {
		for _, ph := range lifePhases {
			if wave == 0 && ph == phRegistered {
				byKind[rkRunHBefore] = append(byKind[rkRunHBefore], refusedCall{Kind: rkRunHBefore, Wave: wave, Phase: ph, Target: -1})
			} else {
				byKind[rkSecondRun] = append(byKind[rkSecondRun], refusedCall{Kind: rkSecondRun, Wave: wave, Phase: ph, Target: -1})
			}
			for i, h := range cfg.Handlers {
				lh := h.Life
				if lifeRegisteredAt(lh, wave, ph) {
					o := refusedCall{Kind: rkDupAdd, Wave: wave, Phase: ph, Target: i, Unstarted: lifeUnstartedAt(lh, wave, ph)}
					byKind[rkDupAdd] = append(byKind[rkDupAdd], o)
					if o.Unstarted {
						dupUnstarted = append(dupUnstarted, o)
						byKind[rkStopUnstart] = append(byKind[rkStopUnstart], refusedCall{Kind: rkStopUnstart, Wave: wave, Phase: ph, Target: i, Unstarted: true})
					}
				}
				if lh.Wave <= wave && lifeStoppedAt(lh, wave, ph) {
					byKind[rkStopStopped] = append(byKind[rkStopStopped], refusedCall{Kind: rkStopStopped, Wave: wave, Phase: ph, Target: i})
				}
			}
		}
	}
	kinds := []string{rkDupAdd, rkDupAdd, rkDupAdd, rkDupAdd, rkDupAdd, rkSecondRun, rkSecondRun, rkRunHBefore, rkStopUnstart, rkStopStopped}
	for k, n := 0, r.Range(1, 4); k < n; k++ {
		kind := kinds[r.Intn(len(kinds))]
		opts := byKind[kind]
		if kind == rkDupAdd && len(dupUnstarted) > 0 && r.Chance(0.6) {
			opts = dupUnstarted
		}
		if len(opts) == 0 {
			opts = byKind[rkDupAdd] // handler #0 is always registered
		}
		rc := opts[r.Intn(len(opts))]
		if rc.Kind == rkDupAdd {
			if r.Bool() {
				rc.Kind = rkDupAddNoPub
			}
			rc.SameSub, rc.SameTopic = r.Bool(), r.Bool()
		}
		lp.Refused = append(lp.Refused, &rc)
	}
}

// refusedTarget draws, for one message of a 'router+refused' case, a handler that a refused call names (covered by
// the PoisonQueue) and an instant after that call at which the handler runs.
func (cfg *config) refusedTarget(r *vlib.Rand) (handler, at int, ok bool) {
	var cand []*refusedCall
	for _, rc := range cfg.Life.Refused {
		if rc.Target >= 0 && cfg.Handlers[rc.Target].Life.OwnPQ && (rc.isDup() || rc.Kind == rkStopUnstart) {
			cand = append(cand, rc)
		}
	}
	if len(cand) == 0 {
		return 0, 0, false
	}
	rc := cand[r.Intn(len(cand))]
	lh := cfg.Handlers[rc.Target].Life
	lo, hi := rc.Wave, cfg.Life.Waves+1
	if rc.Phase == phDelivered || rc.Phase == phStopped {
		lo++
	}
	if lh.StopHow != "" {
		hi = lh.StopAfter
	}
	if lo > hi {
		lo = lh.Wave
	}
	return rc.Target, r.Range(lo, hi), true
}

// refuseEnv is what the refused calls are made against (the slices are those of runLifecycle).
type refuseEnv struct {
	router  *message.Router
	ctx     context.Context
	cfg     *config
	w       *world
	live    []bool // registered with the Router and not (awaited as) stopped
	stopped []bool // the harness has seen Stopped() of the current registration closed
	handles []*message.Handler
	msubs   []message.Subscriber
	trace   func(format string, args ...any)
}

func panicValue(f func()) (v any, panicked bool) {
	defer func() {
		if p := recover(); p != nil {
			v, panicked = p, true
		}
	}()
	f()
	return nil, false
}

// at makes the calls planned for one instant. false = the history cannot go on as drawn (res is inconclusive).
func (x *refuseEnv) at(res *vlib.Result, wave int, phase string) bool {
	for _, rc := range x.cfg.Life.Refused {
		if rc.Wave != wave || rc.Phase != phase || rc.Outcome != outNotReached {
			continue
		}
		x.call(res, rc)
		x.trace("%s (handler #%d) at wave %d/%s: %s", rc.Kind, rc.Target, wave, phase, rc.Outcome)
		if len(rc.Outcome) >= len(outAcceptedPfx) && rc.Outcome[:len(outAcceptedPfx)] == outAcceptedPfx {
			res.Inconclusive("%s at wave %d/%s was not refused (%s): the history is not the drawn one", rc.Kind, wave, phase, rc.Outcome)
			return false
		}
	}
	return true
}

func (x *refuseEnv) call(res *vlib.Result, rc *refusedCall) {
	t := rc.Target
	switch {
	case rc.isDup():
		if !x.live[t] {
			rc.Outcome = outSkippedPfx + "the handler is not registered at this instant"
			return
		}
		hc := x.cfg.Handlers[t]
		sub, topic := x.msubs[t], hc.Topic
		if !rc.SameSub {
			sub, _ = wrapSub(hc.SubKind, &vlib.Sub{Name: hc.Sub + "-dup"})
		}
		if !rc.SameTopic {
			topic += "-dup"
		}
		// the second registration is the application's handler once more (were it ever run, it would be judged like the first)
		v, panicked := panicValue(func() {
			if rc.Kind == rkDupAdd {
				x.router.AddHandler(hc.Name, topic, sub, topic+"-out", &vlib.Pub{Name: hc.Name + "-dup-out"}, x.w.handler)
			} else {
				x.router.AddNoPublisherHandler(hc.Name, topic, sub, func(msg *message.Message) error {
					_, err := x.w.handler(msg)
					return err
				})
			}
		})
		switch d, isDup := v.(message.DuplicateHandlerNameError); {
		case !panicked:
			rc.Outcome = outAcceptedPfx + "no panic"
		case isDup:
			rc.Outcome = outRefusedPfx + "panic " + fmt.Sprintf("DuplicateHandlerNameError{%q}", d.HandlerName)
		default:
			rc.Outcome = outRefusedPfx + "panic " + fmt.Sprint(v)
		}
	case rc.Kind == rkSecondRun, rc.Kind == rkRunHBefore:
		var err error
		done := make(chan struct{})
		go func() {
			defer close(done)
			if rc.Kind == rkSecondRun {
				err = x.router.Run(x.ctx)
			} else {
				err = x.router.RunHandlers(x.ctx)
			}
		}()
		if oc, _ := vlib.WaitClosed(done, vlib.WD); oc != vlib.Done {
			rc.Outcome = outAcceptedPfx + fmt.Sprintf("did not return (%v)", oc)
			return
		}
		if err == nil {
			rc.Outcome = outAcceptedPfx + "returned nil"
			return
		}
		rc.Outcome = outRefusedPfx + err.Error()
	case rc.Kind == rkStopUnstart:
		if !x.live[t] || vlib.IsClosed(x.handles[t].Started()) {
			rc.Outcome = outSkippedPfx + "the handler is started (or gone) at this instant"
			return
		}
		v, panicked := panicValue(x.handles[t].Stop)
		if !panicked {
			rc.Outcome = outAcceptedPfx + "no panic"
			return
		}
		rc.Outcome = outRefusedPfx + "panic " + fmt.Sprint(v)
	case rc.Kind == rkStopStopped:
		if !x.stopped[t] {
			rc.Outcome = outSkippedPfx + "the handler has not stopped"
			return
		}
		// Handler.Stop cancels the handler's context; on a stopped handler that is done already
		if v, panicked := panicValue(x.handles[t].Stop); panicked {
			rc.Outcome = outRefusedPfx + "panic " + fmt.Sprint(v)
			return
		}
		rc.Outcome = outNoopPfx
	}
}

func (rc *refusedCall) outcomeClass() string {
	switch o := rc.Outcome; {
	case o == outNotReached:
		return "not-reached"
	case o == outNoopPfx:
		return "returned"
	case len(o) >= len(outSkippedPfx) && o[:len(outSkippedPfx)] == outSkippedPfx:
		return "skipped"
	case len(o) >= len(outRefusedPfx) && o[:len(outRefusedPfx)] == outRefusedPfx:
		return "refused"
	default:
		return "accepted"
	}
}

func (rc *refusedCall) made() bool { c := rc.outcomeClass(); return c == "refused" || c == "returned" }

// countRefused reports which calls were refused at which instants and which accepted failures happened in a
// handler that a refused call had named before (counters only).
func countRefused(res *vlib.Result, w *world, cfg *config) {
	lp := cfg.Life
	res.Count("refused_cases", 1)
	named := map[int]bool{}
	namedUnstarted := map[int]bool{}
	for _, rc := range lp.Refused {
		res.Count("refused_calls_planned", 1)
		res.Count("refused_outcome_"+rc.outcomeClass(), 1)
		if !rc.made() {
			continue
		}
		res.Count("refused_calls_made", 1)
		res.Count("refused_"+rc.Kind, 1)
		res.Count("refused_at_"+rc.Phase, 1)
		if rc.Target < 0 {
			continue
		}
		named[rc.Target] = true
		lh := cfg.Handlers[rc.Target].Life
		if rc.isDup() {
			if rc.Unstarted {
				res.Count("refused_duplicate_of_unstarted_handler", 1)
				namedUnstarted[rc.Target] = true
				if cfg.Reg == regHandler && lh.OwnPQ {
					res.Count("refused_duplicate_of_unstarted_handler_with_own_poison_queue", 1)
				}
			} else {
				res.Count("refused_duplicate_of_running_handler", 1)
			}
			if lh.ReOf > 0 {
				res.Count("refused_duplicate_of_handler_with_reused_name", 1)
			}
			if cfg.Handlers[rc.Target].Name == "" {
				res.Count("refused_duplicate_of_handler_with_empty_name", 1)
			}
		}
	}
	for _, ms := range w.order {
		h := ms.plan.Handler
		if h < 0 || h >= len(cfg.Handlers) {
			continue
		}
		for _, a := range ms.attempts {
			if a.err == nil || !a.accept {
				continue
			}
			if named[h] {
				res.Count("refused_accepted_failures_on_handler_named_by_refused_call", 1)
			}
			if namedUnstarted[h] {
				res.Count("refused_accepted_failures_on_handler_duplicated_while_unstarted", 1)
				if cfg.Reg == regHandler {
					res.Count("refused_accepted_failures_on_handler_with_own_poison_queue_duplicated_while_unstarted", 1)
				}
			}
		}
	}
}

func refusedSig(cfg *config) []any {
	var parts []any
	for _, rc := range cfg.Life.Refused {
		parts = append(parts, "refused", rc.Kind, rc.Wave, rc.Phase, rc.Target, rc.SameSub, rc.SameTopic, rc.outcomeClass())
	}
	return parts
}
