package c13

import (
	"context"
	"fmt"
	"strings"
	"sync"

	"github.com/ThreeDotsLabs/watermill"
	"github.com/ThreeDotsLabs/watermill/message"

	"verifharness/vlib"
)

// ---------------------------------------------------------------------------------------------
// Class 'router+lifecycle': the Router has a history before the failing message arrives.
//
// "inside a running Router" is more than a Router whose handlers were all registered before Run and all
// started at the first attempt. The documented life of a Router also has
//
//   - start-up attempts that fail and are repeated ("RunHandlers is idempotent, so can be called multiple
//     times safely"): a subscriber whose Subscribe fails the first n times, a SubscriberDecorator /
//     PublisherDecorator of the application that returns an error; also when the failing attempt was the one
//     made by Run itself (Run returns the error, the Router stays usable through RunHandlers),
//   - handlers added to the running Router ("If handler is added while router is already running, you need to
//     explicitly call RunHandlers()"),
//   - handlers that stop while others keep the Router alive (Handler.Stop, or their subscription ends),
//   - handlers registered under the name of a handler that has stopped (the name is free once Stopped() is closed).
//
// None of this is mentioned by the statement, so none of it may change what happens to a failing message:
// whatever the history, a handler that is covered by the PoisonQueue (installed with Router.AddMiddleware, or
// with Handler.AddMiddleware on that handler) and fails a message with an accepted error gets exactly one
// complete poison message naming the topic / handler / subscriber of the registration that consumed it.
//
// The history is a sequence of waves: wave 0 = the handlers registered before Run; wave k>0 = handlers added
// to the running Router and started with RunHandlers (repeated until it returns nil). After a wave was
// started the messages scheduled for that instant are delivered, then the handlers that are to stop after that
// wave are stopped (and awaited). Handler 0 never stops: it keeps the Router alive.

type lifeH struct {
	Wave      int    `json:"wave"`                         // 0 = registered before Run, k = added to the running Router in wave k
	NameKind  string `json:"name_kind"`                    // plain | empty | prefix-of-other | other+space | other-uppercased | reused
	OwnPQ     bool   `json:"covered_by_poison_queue"`      // router-level registration: always; handler-level: this handler got the PoisonQueue
	Tracer    bool   `json:"own_passthrough_mw,omitempty"` // a handler-level pass-through middleware of its own
	SubFaults int    `json:"subscribe_faults,omitempty"`   // its first n Subscribe calls fail
	StopHow   string `json:"stop,omitempty"`               // "" | stop (Handler.Stop) | sub-end (the subscription ends)
	StopAfter int    `json:"stop_after_wave,omitempty"`
	ReOf      int    `json:"takes_name_of,omitempty"` // 1 + index of the stopped handler whose name this registration takes (0 = none)
}

type lifePlan struct {
	Waves        int   `json:"late_waves"`
	SubDecFaults []int `json:"subscriber_decorator_fails_at_calls,omitempty"` // 1-based call numbers of the application's subscriber decorator that return an error
	PubDecFaults []int `json:"publisher_decorator_fails_at_calls,omitempty"`
	DecFirst     bool  `json:"flaky_decorator_innermost,omitempty"`

	// 'router+refused': calls that fail as documented (or are documented no-ops) and must change nothing (refused.go)
	Refused []*refusedCall `json:"refused_calls,omitempty"`

	// observed
	RunFailed      bool     `json:"run_returned_startup_error,omitempty"`
	FailedAttempts int      `json:"failed_startup_attempts,omitempty"`
	Restarted      []int    `json:"handlers_reregistered_after_failed_run,omitempty"`
	SubFaultsFired []int    `json:"subscribe_faults_fired,omitempty"` // per handler
	DecFaultsFired int      `json:"decorator_faults_fired,omitempty"`
	Trace          []string `json:"trace,omitempty"`
}

const (
	stopByStop   = "stop"
	stopBySubEnd = "sub-end"
)

func drawCalls(r *vlib.Rand, max int) []int {
	seen := map[int]bool{}
	var out []int
	for i, n := 0, r.Range(1, 2); i < n; i++ {
		c := r.Range(1, max)
		if !seen[c] {
			seen[c] = true
			out = append(out, c)
		}
	}
	return out
}

// genLifecycle draws the handlers and the history of one 'router+lifecycle' case.
func genLifecycle(r *vlib.Rand, id string, cfg *config) {
	lp := &lifePlan{Waves: r.Range(0, 2)}
	cfg.Life = lp
	cfg.Reg = []string{regRouter, regHandler}[r.Intn(2)]
	if cfg.Variant == "refused" && r.Chance(0.4) {
		cfg.Reg = regHandler // 70% handler-level: the registration a refused call could touch
	}
	cfg.Concurrent = r.Bool()

	used := map[string]bool{}
	taken := map[int]bool{} // stopped handlers whose name was given to a later registration
	emptyTopic := false
	for wave := 0; wave <= lp.Waves; wave++ {
		n := r.Range(1, 2)
		if wave == 0 {
			n = r.Range(1, 3)
		}
		for k := 0; k < n; k++ {
			i := len(cfg.Handlers)
			hc := hcfg{
				Name:  fmt.Sprintf("%s-h%d-%s", id, i, r.UTF8(4)),
				Topic: fmt.Sprintf("%s-t%d-%s", id, i, r.UTF8(4)),
				Sub:   fmt.Sprintf("%s-s%d-%s", id, i, r.UTF8(3)),
				SubOf: i,
			}
			hc.SubKind = namesSubKinds[r.Intn(len(namesSubKinds))]
			hc.PubKind = namesPubKinds[r.Intn(len(namesPubKinds))]
			hc.WithPublisher = hc.PubKind != pubNone
			lh := &lifeH{Wave: wave, NameKind: "plain", OwnPQ: cfg.Reg == regRouter || r.Chance(0.65), Tracer: r.Chance(0.4)}
			hc.Life = lh
			if r.Chance(0.3) {
				lh.SubFaults = r.Range(1, 2)
			}
			if i > 0 && r.Chance(0.45) {
				lh.StopHow = stopByStop
				if r.Chance(0.35) {
					lh.StopHow = stopBySubEnd
				}
				lh.StopAfter = r.Range(wave, lp.Waves)
			}

			// name: a stopped handler's name, or an unusual one, or a plain one
			reused := false
			if wave > 0 && r.Chance(0.4) {
				var cand []int
				for j, o := range cfg.Handlers {
					if o.Life.StopHow != "" && o.Life.StopAfter < wave && !taken[j] {
						cand = append(cand, j)
					}
				}
				if len(cand) > 0 {
					j := cand[r.Intn(len(cand))]
					o := cfg.Handlers[j]
					taken[j], reused = true, true
					hc.Name, lh.NameKind, lh.ReOf = o.Name, "reused", j+1
					if o.Life.StopHow == stopByStop && o.SubOf == j && lh.StopHow != stopBySubEnd && r.Bool() {
						// also the same subscriber object and topic as the stopped registration
						hc.SubOf, hc.Sub, hc.SubKind, hc.Topic = j, o.Sub, o.SubKind, o.Topic
					}
				}
			}
			if !reused {
				switch x := r.Intn(20); {
				case x < 6 && !used[""]:
					hc.Name, lh.NameKind = "", "empty"
				case x < 11 && i > 0:
					o := cfg.Handlers[r.Intn(i)]
					cands := [][2]string{
						{fmt.Sprintf("%s-h", id), "prefix-of-other"},
						{o.Name + " ", "other+space"},
						{strings.ToUpper(o.Name), "other-uppercased"},
					}
					if c := cands[r.Intn(len(cands))]; o.Name != "" && !used[c[0]] {
						hc.Name, lh.NameKind = c[0], c[1]
					}
				}
				used[hc.Name] = true
			}

			// topology
			if hc.SubOf == i && i > 0 && lh.StopHow != stopBySubEnd {
				switch r.Intn(7) {
				case 0: // the subscriber object of the handler that keeps the Router alive, another topic
					hc.SubOf, hc.Sub, hc.SubKind = 0, cfg.Handlers[0].Sub, cfg.Handlers[0].SubKind
				case 1: // the topic of that handler, another subscriber
					hc.Topic = cfg.Handlers[0].Topic
				}
			}
			if hc.SubOf == i && !emptyTopic && (i == 0 || hc.Topic != cfg.Handlers[0].Topic) && r.Chance(0.08) {
				hc.Topic, emptyTopic = "", true
			}
			cfg.Handlers = append(cfg.Handlers, hc)
		}
	}
	// at least one handler is covered by the PoisonQueue
	covered := false
	for _, h := range cfg.Handlers {
		covered = covered || h.Life.OwnPQ
	}
	if !covered {
		cfg.Handlers[r.Intn(len(cfg.Handlers))].Life.OwnPQ = true
	}
	if r.Chance(0.3) {
		lp.SubDecFaults = drawCalls(r, 2*len(cfg.Handlers))
	}
	if r.Chance(0.15) {
		lp.PubDecFaults = drawCalls(r, 2*len(cfg.Handlers))
	}
	lp.DecFirst = r.Bool()
}

// lifeTarget draws the handler that consumes the n-th message and the instant of the history at which it is
// delivered: a handler covered by the PoisonQueue, while it runs. The first message goes to a handler of the
// last wave (the history lies before it), half of the others are delivered after the whole history.
func (cfg *config) lifeTarget(r *vlib.Rand, n int) (handler, at int) {
	var cov []int
	for i, h := range cfg.Handlers {
		if h.Life.OwnPQ {
			cov = append(cov, i)
		}
	}
	handler = cov[r.Intn(len(cov))]
	if n == 0 {
		handler = cov[len(cov)-1]
	}
	lh := cfg.Handlers[handler].Life
	switch {
	case lh.StopHow != "":
		at = r.Range(lh.Wave, lh.StopAfter)
	case r.Bool():
		at = cfg.Life.Waves + 1
	default:
		at = r.Range(lh.Wave, cfg.Life.Waves+1)
	}
	return handler, at
}

// passThrough is a handler-level middleware of the application that does nothing.
func passThrough(h message.HandlerFunc) message.HandlerFunc {
	return func(msg *message.Message) ([]*message.Message, error) { return h(msg) }
}

func lastSubFor(s *vlib.Sub, topic string) *vlib.Subscription {
	var last *vlib.Subscription
	for _, sp := range s.Subs() {
		if sp.Topic == topic {
			last = sp
		}
	}
	return last
}

type faultKey struct {
	sub   *vlib.Sub
	topic string
}

// runLifecycle runs the middleware inside a real Router that goes through the drawn history.
func runLifecycle(res *vlib.Result, w *world, pq message.HandlerMiddleware, cfg *config) {
	lp := cfg.Life
	router, err := message.NewRouter(message.RouterConfig{}, watermill.NopLogger{})
	if err != nil {
		res.Inconclusive("NewRouter: %v", err)
		return
	}
	n := len(cfg.Handlers)
	lp.SubFaultsFired = make([]int, n)

	var fmu sync.Mutex // guards left, the call counters and the observed part of lp that the Router's goroutines write
	left := map[faultKey]int{}
	owner := map[faultKey]int{}
	subDecCalls, pubDecCalls := 0, 0
	totalFaults := len(lp.SubDecFaults) + len(lp.PubDecFaults)
	for _, h := range cfg.Handlers {
		totalFaults += h.Life.SubFaults
	}
	in := func(list []int, c int) bool {
		for _, x := range list {
			if x == c {
				return true
			}
		}
		return false
	}
	trace := func(format string, args ...any) {
		fmu.Lock()
		if len(lp.Trace) < 60 {
			lp.Trace = append(lp.Trace, fmt.Sprintf(format, args...))
		}
		fmu.Unlock()
	}

	mws := []message.HandlerMiddleware{w.spy, pq} // first added = outermost
	flakySubDec := func(sub message.Subscriber) (message.Subscriber, error) {
		fmu.Lock()
		defer fmu.Unlock()
		subDecCalls++
		if in(lp.SubDecFaults, subDecCalls) {
			lp.DecFaultsFired++
			return nil, fmt.Errorf("subscriber decorator not ready (call %d)", subDecCalls)
		}
		return sub, nil
	}
	flakyPubDec := func(pub message.Publisher) (message.Publisher, error) {
		fmu.Lock()
		defer fmu.Unlock()
		pubDecCalls++
		if in(lp.PubDecFaults, pubDecCalls) {
			lp.DecFaultsFired++
			return nil, fmt.Errorf("publisher decorator not ready (call %d)", pubDecCalls)
		}
		return pub, nil
	}
	if lp.DecFirst {
		router.AddSubscriberDecorators(flakySubDec)
	}
	if cfg.CtxValues {
		mws = []message.HandlerMiddleware{w.ctxMiddleware(placeOuterMW), w.spy, pq, w.ctxMiddleware(placeInnerMW)}
		router.AddSubscriberDecorators(w.ctxDecorator())
	}
	if !lp.DecFirst {
		router.AddSubscriberDecorators(flakySubDec)
	}
	router.AddPublisherDecorators(flakyPubDec)
	if cfg.Reg == regRouter {
		router.AddMiddleware(mws...)
	}

	subs := make([]*vlib.Sub, n)
	msubs := make([]message.Subscriber, n)
	outPubs := make([]*vlib.Pub, n)
	handles := make([]*message.Handler, n)
	sps := make([]*vlib.Subscription, n)
	live := make([]bool, n)    // registered and not (awaited as) stopped
	stopped := make([]bool, n) // Stopped() of the current registration was seen closed

	newSub := func(name string) *vlib.Sub {
		s := &vlib.Sub{Name: name}
		// Subscribe calls of one Router are serialised by RunHandlers; SubscribeErr is read by the same call right after
		s.OnSubscribe = func(topic string) {
			fmu.Lock()
			defer fmu.Unlock()
			k := faultKey{s, topic}
			if left[k] > 0 {
				left[k]--
				lp.SubFaultsFired[owner[k]]++
				s.SubscribeErr = fmt.Errorf("broker not reachable (%s)", name)
			} else {
				s.SubscribeErr = nil
			}
		}
		return s
	}
	// register adds handler i to the Router (again = the same registration once more, after the failed Run stopped it)
	register := func(i int, again bool) {
		hc := cfg.Handlers[i]
		if !again {
			if hc.SubOf != i {
				subs[i], msubs[i] = subs[hc.SubOf], msubs[hc.SubOf]
			} else {
				subs[i] = newSub(hc.Sub)
				msubs[i], _ = wrapSub(hc.SubKind, subs[i])
			}
			fmu.Lock()
			k := faultKey{subs[i], hc.Topic}
			left[k] += hc.Life.SubFaults
			owner[k] = i
			fmu.Unlock()
			if hc.WithPublisher {
				outPubs[i] = &vlib.Pub{Name: hc.Name + "-out"}
			}
		}
		var h *message.Handler
		if hc.WithPublisher {
			outTopic := hc.Topic + "-out"
			if hc.PubKind == pubEmptyTopic {
				outTopic = ""
			}
			h = router.AddHandler(hc.Name, hc.Topic, msubs[i], outTopic, wrapPub(hc.PubKind, outPubs[i]), w.handler)
		} else {
			h = router.AddNoPublisherHandler(hc.Name, hc.Topic, msubs[i], func(msg *message.Message) error {
				_, err := w.handler(msg)
				return err
			})
		}
		var own []message.HandlerMiddleware
		if cfg.Reg == regHandler && hc.Life.OwnPQ {
			own = append(own, mws...)
		}
		if hc.Life.Tracer {
			own = append(own, passThrough)
		}
		if len(own) > 0 {
			h.AddMiddleware(own...)
		}
		handles[i] = h
		live[i], stopped[i] = true, false
		trace("register #%d %q wave %d (again=%v)", i, hc.Name, hc.Life.Wave, again)
	}

	ctx, cancel := context.WithCancel(context.Background())
	defer cancel()
	runDone := make(chan struct{})
	var runErr error
	runCalled := false
	rx := &refuseEnv{router: router, ctx: ctx, cfg: cfg, w: w, live: live, stopped: stopped, handles: handles, msubs: msubs, trace: trace}
	refuse := func(wave int, phase string) bool { return len(lp.Refused) == 0 || rx.at(res, wave, phase) }
	closeRouter := func() {
		closed := make(chan struct{})
		go func() {
			defer close(closed)
			router.Close()
		}()
		if oc, _ := vlib.WaitClosed(closed, vlib.WD); oc != vlib.Done {
			res.Inconclusive("Router.Close did not return (%v)", oc)
			return
		}
		if !runCalled {
			return
		}
		if oc, _ := vlib.WaitClosed(runDone, vlib.WD); oc != vlib.Done {
			res.Inconclusive("Router.Run did not return after Close (%v)", oc)
		}
	}
	// runHandlers repeats RunHandlers until it returns nil; every failure must be one of the scripted faults
	runHandlers := func(wave int) bool {
		for attempt := 0; ; attempt++ {
			var err error
			done := make(chan struct{})
			go func() {
				defer close(done)
				err = router.RunHandlers(ctx)
			}()
			if oc, _ := vlib.WaitClosed(done, vlib.WD); oc != vlib.Done {
				res.Inconclusive("RunHandlers did not return (%v)", oc)
				return false
			}
			if err == nil {
				trace("RunHandlers ok")
				return true
			}
			trace("RunHandlers: %v", err)
			fmu.Lock()
			lp.FailedAttempts++
			fmu.Unlock()
			if attempt >= totalFaults {
				res.Inconclusive("RunHandlers still fails after all scripted start-up faults were consumed: %v", err)
				return false
			}
			if !refuse(wave, phRetry) {
				return false
			}
		}
	}
	awaitStarted := func(wave int) bool {
		for i, hc := range cfg.Handlers {
			if hc.Life.Wave != wave {
				continue
			}
			if oc, _ := vlib.WaitClosed(handles[i].Started(), vlib.WD); oc != vlib.Done {
				res.Inconclusive("handler #%d %q was not started by a successful RunHandlers (%v)", i, hc.Name, oc)
				return false
			}
			if sps[i] = lastSubFor(subs[i], hc.Topic); sps[i] == nil {
				res.Inconclusive("router did not subscribe to %q", hc.Topic)
				return false
			}
		}
		return true
	}
	deliver := func(ms *msgState) {
		copies, acked := deliverWith(sps[ms.plan.Handler], ms.plan.build(), len(ms.plan.Attempts)-1, func(c *message.Message) {
			applyCtx(c, ms.plan.Ctx, placeEmit, false)
		})
		w.mu.Lock()
		ms.copies, ms.acked = copies, acked
		w.mu.Unlock()
	}
	// deliverAt delivers the messages scheduled for one instant of the history
	deliverAt := func(at int) bool {
		var batch []*msgState
		for _, ms := range w.order {
			if ms.plan.At == at {
				batch = append(batch, ms)
			}
		}
		if len(batch) == 0 {
			return true
		}
		done := make(chan struct{})
		go func() {
			defer close(done)
			if !cfg.Concurrent {
				for _, ms := range batch {
					deliver(ms)
				}
				return
			}
			var wg sync.WaitGroup
			for _, ms := range batch {
				wg.Add(1)
				go func(ms *msgState) {
					defer wg.Done()
					deliver(ms)
				}(ms)
			}
			wg.Wait()
		}()
		switch oc, dump := vlib.WaitClosed(done, vlib.WD); oc {
		case vlib.Stuck:
			res.Fail("unsettled", "a delivered message was never acked nor nacked (process quiescent)")
			res.Witness = dump
			return false
		case vlib.Inconclusive:
			res.Inconclusive("router workload did not finish before the watchdog")
			return false
		}
		trace("delivered %d message(s) after wave %d", len(batch), at)
		return true
	}
	stopAfter := func(wave int) bool {
		for i, hc := range cfg.Handlers {
			if hc.Life.StopHow == "" || hc.Life.StopAfter != wave {
				continue
			}
			if hc.Life.StopHow == stopByStop {
				handles[i].Stop()
			} else {
				closed := make(chan struct{})
				go func() {
					defer close(closed)
					subs[i].Close() // the broker ends the subscription
				}()
				if oc, _ := vlib.WaitClosed(closed, vlib.WD); oc != vlib.Done {
					res.Inconclusive("scripted subscriber did not close (%v)", oc)
					return false
				}
			}
			if oc, _ := vlib.WaitClosed(handles[i].Stopped(), vlib.WD); oc != vlib.Done {
				res.Inconclusive("handler #%d %q did not stop after %s (%v)", i, hc.Name, hc.Life.StopHow, oc)
				return false
			}
			live[i], stopped[i] = false, true
			trace("stopped #%d %q by %s after wave %d", i, hc.Name, hc.Life.StopHow, wave)
		}
		return true
	}

	history := func() {
		// wave 0: Run
		for i, hc := range cfg.Handlers {
			if hc.Life.Wave == 0 {
				register(i, false)
			}
		}
		if !refuse(0, phRegistered) {
			return
		}
		runCalled = true
		go func() {
			defer close(runDone)
			runErr = router.Run(ctx)
		}()
		if oc, _ := vlib.WaitUntil(func() bool { return vlib.IsClosed(router.Running()) || vlib.IsClosed(runDone) }, vlib.WD); oc != vlib.Done {
			res.Inconclusive("router did not start (%v)", oc)
			return
		}
		if !vlib.IsClosed(router.Running()) {
			if !vlib.IsClosed(runDone) {
				res.Inconclusive("router neither runs nor returned")
				return
			}
			// Run gave up at a start-up fault; what it had started goes down with its context. The application
			// waits for that, repeats the start-up with RunHandlers and registers the stopped handlers once more.
			if runErr == nil || totalFaults == 0 {
				res.Inconclusive("Router.Run returned early: %v", runErr)
				return
			}
			trace("Run: %v", runErr)
			lp.RunFailed = true
			fmu.Lock()
			lp.FailedAttempts++
			fmu.Unlock()
			for i, hc := range cfg.Handlers {
				if hc.Life.Wave != 0 || !vlib.IsClosed(handles[i].Started()) {
					continue
				}
				if oc, _ := vlib.WaitClosed(handles[i].Stopped(), vlib.WD); oc != vlib.Done {
					res.Inconclusive("handler #%d started by the failed Run did not stop (%v)", i, oc)
					return
				}
				lp.Restarted = append(lp.Restarted, i)
				live[i], stopped[i] = false, true
			}
			if !refuse(0, phRetry) || !runHandlers(0) {
				return
			}
			if len(lp.Restarted) > 0 {
				for _, i := range lp.Restarted {
					register(i, true)
				}
				if !runHandlers(0) {
					return
				}
			}
		}
		if !awaitStarted(0) || !refuse(0, phStarted) || !deliverAt(0) || !refuse(0, phDelivered) || !stopAfter(0) || !refuse(0, phStopped) {
			return
		}
		for wave := 1; wave <= lp.Waves; wave++ {
			for i, hc := range cfg.Handlers {
				if hc.Life.Wave == wave {
					register(i, false)
				}
			}
			if !refuse(wave, phRegistered) || !runHandlers(wave) || !awaitStarted(wave) || !refuse(wave, phStarted) ||
				!deliverAt(wave) || !refuse(wave, phDelivered) || !stopAfter(wave) || !refuse(wave, phStopped) {
				return
			}
		}
		deliverAt(lp.Waves + 1)
	}
	history()
	closeRouter()
	for _, p := range outPubs {
		if p != nil {
			res.Count("output_publishes", len(p.Calls()))
		}
	}
	if !res.Failed() && res.Verdict == "" {
		w.mu.Lock()
		for _, ms := range w.order {
			if len(ms.copies) == 0 {
				res.Inconclusive("message %q was not consumed by handler #%d (is it running?)", ms.plan.UUID, ms.plan.Handler)
				break
			}
		}
		w.mu.Unlock()
	}
}

// countLifecycle reports what the history of a 'router+lifecycle' case consisted of and which accepted
// failures happened behind which kind of history (counters only).
func countLifecycle(res *vlib.Result, w *world, cfg *config) {
	lp := cfg.Life
	res.Count("life_cases", 1)
	if len(lp.Refused) > 0 {
		countRefused(res, w, cfg)
	}
	res.Count("life_late_waves", lp.Waves)
	res.Count("life_failed_startup_attempts", lp.FailedAttempts)
	res.Count("life_decorator_faults_fired", lp.DecFaultsFired)
	res.Count("life_handlers_reregistered_after_failed_run", len(lp.Restarted))
	if lp.RunFailed {
		res.Count("life_run_returned_startup_error", 1)
	}
	firstStop := -1
	for i, h := range cfg.Handlers {
		lh := h.Life
		res.Count("life_handlers", 1)
		res.Count("life_name_"+lh.NameKind, 1)
		if lh.Wave > 0 {
			res.Count("life_handlers_added_to_running_router", 1)
		}
		if i < len(lp.SubFaultsFired) && lp.SubFaultsFired[i] > 0 {
			res.Count("life_handlers_with_failed_subscribe", 1)
			res.Count("life_subscribe_faults_fired", lp.SubFaultsFired[i])
		}
		if lh.StopHow != "" {
			res.Count("life_handlers_stopped_by_"+lh.StopHow, 1)
			if h.Name == "" {
				res.Count("life_handlers_stopped_with_empty_name", 1)
			}
			if lh.OwnPQ && cfg.Reg == regHandler {
				res.Count("life_handlers_stopped_with_own_poison_queue", 1)
			}
			if firstStop < 0 || lh.StopAfter < firstStop {
				firstStop = lh.StopAfter
			}
		}
		if !lh.OwnPQ {
			res.Count("life_handlers_without_poison_queue", 1)
		}
	}
	for _, ms := range w.order {
		h := ms.plan.Handler
		if h < 0 || h >= len(cfg.Handlers) {
			continue
		}
		lh := cfg.Handlers[h].Life
		for _, a := range ms.attempts {
			if a.err == nil || !a.accept {
				continue
			}
			res.Count("life_accepted_failures", 1)
			if lh.Wave > 0 {
				res.Count("life_accepted_failures_on_late_handler", 1)
			}
			if h < len(lp.SubFaultsFired) && lp.SubFaultsFired[h] > 0 {
				res.Count("life_accepted_failures_on_handler_whose_subscribe_had_failed", 1)
			}
			if lp.FailedAttempts > 0 {
				res.Count("life_accepted_failures_after_failed_startup_attempts", 1)
			}
			if firstStop >= 0 && lh.Wave > firstStop {
				res.Count("life_accepted_failures_on_handler_started_after_a_stop", 1)
			}
			if lh.ReOf > 0 {
				res.Count("life_accepted_failures_on_handler_with_reused_name", 1)
			}
			for _, r := range lp.Restarted {
				if r == h {
					res.Count("life_accepted_failures_on_handler_reregistered_after_failed_run", 1)
				}
			}
		}
	}
}

// lifeSig is the part of the distinctness signature that describes the history.
func lifeSig(cfg *config) []any {
	lp := cfg.Life
	parts := []any{"life", lp.Waves, fmt.Sprint(lp.SubDecFaults), fmt.Sprint(lp.PubDecFaults), lp.DecFirst, lp.RunFailed, lp.FailedAttempts, fmt.Sprint(lp.Restarted)}
	for _, h := range cfg.Handlers {
		lh := h.Life
		parts = append(parts, lh.Wave, lh.NameKind, lh.OwnPQ, lh.Tracer, lh.SubFaults, lh.StopHow, lh.StopAfter, lh.ReOf)
	}
	parts = append(parts, refusedSig(cfg)...)
	return parts
}
