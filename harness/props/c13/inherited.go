package c13

import (
	"context"
	"fmt"
	"strings"
	"sync"

	"github.com/ThreeDotsLabs/watermill"
	"github.com/ThreeDotsLabs/watermill/message"

	"verifharness/vlib"
)

// ---------------------------------------------------------------------------------------------
// Round 8: 'router+inherited' - the consumed message arrives with a context that already carries the
// Router's own values of ANOTHER handler.
//
// A message context is application-visible state (Message.Context / SetContext are public); a Pub/Sub may hand
// the values of the published message's context to the consumer (upstream GoChannel `PreserveContext`, in-memory
// pipes, a message object handed from one Router to the next), and the Router stores the producing handler's
// values in the context of every message a handler produces. So a message that went through handler A and is
// then consumed by handler B reaches B with A's handler name / topic / subscriber in its context. The godoc of
// HandlerNameFromCtx / SubscribeTopicFromCtx / SubscriberNameFromCtx says "... in the router that consumed the
// message": the poison message of B has to name B. All names of the judged (downstream) handlers are non-empty
// in this class, so "the consuming handler's name" is never the absence of a value.

type upcfg struct {
	Name          string `json:"name"` // may be "" (the Router then stores no handler name)
	Topic         string `json:"topic"`
	Sub           string `json:"subscriber"`
	SubKind       string `json:"subscriber_kind"`
	WithPublisher bool   `json:"with_publisher"`
}

const (
	takeConsumed    = "consumed"             // the context of the message the upstream handler consumed (values of that handler once)
	takeProduced    = "produced-fresh"       // the context the Router gave a new message the upstream handler produced
	takeProducedCtx = "produced-keeping-ctx" // a new message to which the handler copied the consumed message's context (tracing pattern), then the Router's values on top
	takePassed      = "passed-through"       // the upstream handler returned the consumed *Message itself as its output

	transValues = "values-only" // context.WithoutCancel(published context): values kept, cancellation dropped
	transAsIs   = "as-is"       // the published context itself (in-process hand-over)
	transMerged = "merged"      // cancellation of the subscription, values of the subscription first, then of the published context

	redelOrigin   = "origin"   // every redelivery starts again from the published message's context
	redelPrevious = "previous" // a redelivery carries the values of the context of the previous (nacked) delivery (requeued object)
)

type hop struct {
	Up   int    `json:"upstream_handler"`
	Take string `json:"take"`
}

type inheritPlan struct {
	Hops      []hop  `json:"hops"`
	Transport string `json:"transport"`
	Redeliver string `json:"redelivery_context"`
}

func (p *inheritPlan) sig() string {
	if p == nil {
		return "-"
	}
	var b strings.Builder
	for _, h := range p.Hops {
		fmt.Fprintf(&b, "%d:%s>", h.Up, h.Take)
	}
	return b.String() + p.Transport + "/" + p.Redeliver
}

// genInherited draws the upstream handlers of a case and, per message, the way it inherits a context.
func genInherited(r *vlib.Rand, id string, cfg *config, order []*msgState) {
	for i, n := 0, r.Range(1, 2); i < n; i++ {
		u := upcfg{
			Name:          fmt.Sprintf("%s-up%d-%s", id, i, r.UTF8(4)),
			Topic:         fmt.Sprintf("%s-upt%d-%s", id, i, r.UTF8(4)),
			Sub:           fmt.Sprintf("%s-ups%d-%s", id, i, r.UTF8(3)),
			SubKind:       subKinds[r.Intn(len(subKinds))],
			WithPublisher: r.Chance(0.75),
		}
		switch r.Intn(8) {
		case 0:
			if i > 0 && cfg.Up[0].Name == "" {
				break // handler names are unique: at most one anonymous upstream handler
			}
			u.Name = "" // partial inheritance: topic / subscriber / publisher values without a handler name
		case 1:
			u.Topic = cfg.Handlers[r.Intn(len(cfg.Handlers))].Topic // the same topic text as a judged handler (its own subscriber object)
		}
		cfg.Up = append(cfg.Up, u)
	}
	// upstream handlers live in the judged Router itself (two stages of one service) when the PoisonQueue is
	// handler-level (they are not covered by it then), else always in a Router of their own (another service)
	cfg.UpSameRouter = cfg.Reg == regHandler && r.Bool()
	for _, ms := range order {
		if ms.plan.Handler < 0 || r.Chance(0.2) {
			continue
		}
		ip := &inheritPlan{
			Transport: []string{transValues, transValues, transAsIs, transMerged}[r.Intn(4)],
			Redeliver: []string{redelOrigin, redelPrevious}[r.Intn(2)],
		}
		for i, n := 0, r.Range(1, 2); i < n; i++ {
			h := hop{Up: r.Intn(len(cfg.Up))}
			if cfg.Up[h.Up].WithPublisher {
				h.Take = []string{takeConsumed, takeProduced, takeProduced, takeProducedCtx, takePassed}[r.Intn(5)]
			} else {
				h.Take = takeConsumed
			}
			ip.Hops = append(ip.Hops, h)
		}
		ms.plan.Inherit = ip
	}
}

// mergedCtx: cancellation / deadline of the subscription, values of the subscription first, then of vals.
type mergedCtx struct {
	context.Context
	vals context.Context
}

func (m mergedCtx) Value(k any) any {
	if v := m.Context.Value(k); v != nil {
		return v
	}
	return m.vals.Value(k)
}

func transport(kind string, published, subscription context.Context) context.Context {
	switch kind {
	case transAsIs:
		return published
	case transMerged:
		return mergedCtx{Context: subscription, vals: published}
	default:
		return context.WithoutCancel(published)
	}
}

// upstream runs the upstream handlers and records the contexts that leave them.
type upstream struct {
	cfg      *config
	mu       sync.Mutex
	take     map[string]string          // UUID -> what the hop in progress takes
	got      map[string]context.Context // UUID -> context taken at the hop in progress
	subs     []*vlib.Sub
	router   *message.Router // own Router (nil: the judged one)
	done     chan struct{}
	cancel   context.CancelFunc
	problems []string
}

func (u *upstream) problem(format string, args ...any) {
	u.mu.Lock()
	u.problems = append(u.problems, fmt.Sprintf(format, args...))
	u.mu.Unlock()
}

// addTo registers the upstream handlers with a Router (before it runs).
func (u *upstream) addTo(router *message.Router) {
	for i, uc := range u.cfg.Up {
		s := &vlib.Sub{Name: uc.Sub}
		u.subs = append(u.subs, s)
		msub, _ := wrapSub(uc.SubKind, s)
		if !uc.WithPublisher {
			router.AddNoPublisherHandler(uc.Name, uc.Topic, msub, func(msg *message.Message) error {
				u.mu.Lock()
				u.got[msg.UUID] = msg.Context()
				u.mu.Unlock()
				return nil
			})
			continue
		}
		pub := &vlib.Pub{Name: fmt.Sprintf("%s-out", uc.Sub)}
		pub.OnPublish = func(c *vlib.PubCall) {
			// the published message as the next Pub/Sub sees it
			for _, m := range c.Msgs {
				u.mu.Lock()
				if u.take[m.UUID] != takeConsumed {
					u.got[m.UUID] = m.Context()
				}
				u.mu.Unlock()
			}
		}
		router.AddHandler(uc.Name, uc.Topic, msub, fmt.Sprintf("%s-mid%d", uc.Topic, i), pub, func(msg *message.Message) ([]*message.Message, error) {
			u.mu.Lock()
			take := u.take[msg.UUID]
			if take == takeConsumed {
				u.got[msg.UUID] = msg.Context()
			}
			u.mu.Unlock()
			switch take {
			case takeConsumed:
				return nil, nil
			case takePassed:
				return message.Messages{msg}, nil
			}
			out := message.NewMessage(msg.UUID, msg.Payload) // the payload bytes are shared, never written
			for k, v := range msg.Metadata {
				out.Metadata.Set(k, v)
			}
			if take == takeProducedCtx {
				out.SetContext(msg.Context())
			}
			return message.Messages{out}, nil
		})
	}
}

// start runs the upstream handlers in a Router of their own. false: it did not start (inconclusive).
func (u *upstream) start() bool {
	router, err := message.NewRouter(message.RouterConfig{}, watermill.NopLogger{})
	if err != nil {
		u.problem("upstream NewRouter: %v", err)
		return false
	}
	u.router = router
	u.addTo(router)
	ctx, cancel := context.WithCancel(context.Background())
	u.cancel = cancel
	u.done = make(chan struct{})
	go func() {
		defer close(u.done)
		_ = router.Run(ctx)
	}()
	if oc, _ := vlib.WaitUntil(func() bool { return vlib.IsClosed(router.Running()) || vlib.IsClosed(u.done) }, vlib.WD); oc != vlib.Done || vlib.IsClosed(u.done) {
		u.problem("upstream router did not start (%v)", oc)
		return false
	}
	return true
}

func (u *upstream) close() {
	if u.router == nil || u.done == nil {
		return
	}
	closed := make(chan struct{})
	go func() {
		defer close(closed)
		u.router.Close()
	}()
	if oc, _ := vlib.WaitClosed(closed, vlib.WD); oc != vlib.Done {
		u.problem("upstream Router.Close did not return (%v)", oc)
	} else if oc, _ := vlib.WaitClosed(u.done, vlib.WD); oc != vlib.Done {
		u.problem("upstream Router.Run did not return after Close (%v)", oc)
	}
	u.cancel()
}

// travel sends the message through its upstream hops (each hop consumes what the previous one handed on, with
// the values of its context) and returns the context with which it leaves the last one.
func (u *upstream) travel(ms *msgState) (context.Context, bool) {
	ip := ms.plan.Inherit
	var carried context.Context
	for i, h := range ip.Hops {
		uc := u.cfg.Up[h.Up]
		sp := u.subs[h.Up].SubFor(uc.Topic)
		if sp == nil {
			u.problem("upstream handler #%d did not subscribe to %q", h.Up, uc.Topic)
			return nil, false
		}
		c := ms.plan.build()
		c.SetContext(sp.Ctx)
		if carried != nil {
			c.SetContext(mergedCtx{Context: sp.Ctx, vals: carried})
		}
		u.mu.Lock()
		u.take[c.UUID] = h.Take
		delete(u.got, c.UUID)
		u.mu.Unlock()
		if !sp.Send(c) {
			u.problem("message %q: upstream hop %d: subscription ended", c.UUID, i)
			return nil, false
		}
		select {
		case <-c.Acked():
		case <-c.Nacked():
			u.problem("message %q: upstream hop %d nacked", c.UUID, i)
			return nil, false
		case <-sp.Ended():
			u.problem("message %q: upstream hop %d: subscription ended before the message was settled", c.UUID, i)
			return nil, false
		}
		u.mu.Lock()
		carried = u.got[c.UUID]
		u.mu.Unlock()
		if carried == nil {
			u.problem("message %q: upstream hop %d (%s) handed on no context", c.UUID, i, h.Take)
			return nil, false
		}
	}
	return carried, true
}

// deliverInherited is deliverWith for a message that inherits a context: the first delivery carries the
// transported upstream context; a redelivery starts from it again or carries the values of the previous delivery.
func deliverInherited(sp *vlib.Subscription, ms *msgState, inherited context.Context, maxRedeliver int, prep func(*message.Message)) (copies []*message.Message, acked bool) {
	ip := ms.plan.Inherit
	orig := ms.plan.build()
	for n := 0; ; n++ {
		c := orig.Copy()
		from := inherited
		if n > 0 && ip.Redeliver == redelPrevious {
			from = context.WithoutCancel(copies[n-1].Context()) // the nacked copy is settled: nobody writes its context any more
		}
		c.SetContext(transport(ip.Transport, from, sp.Ctx))
		prep(c)
		if !sp.Send(c) {
			return copies, false
		}
		copies = append(copies, c)
		select {
		case <-c.Acked():
			return copies, true
		case <-c.Nacked():
			if n >= maxRedeliver {
				return copies, false
			}
		case <-sp.Ended():
			return copies, false
		}
	}
}

// inheritedNames is what the public accessors read from a context.
func inheritedNames(ctx context.Context) names {
	return names{Topic: message.SubscribeTopicFromCtx(ctx), Handler: message.HandlerNameFromCtx(ctx), Subscriber: message.SubscriberNameFromCtx(ctx)}
}

// countInherited reports what the class exercised (counters) and voids the case when an upstream hop failed.
func countInherited(res *vlib.Result, w *world, cfg *config, nm []names) {
	res.Count("inherited_cases", 1)
	if cfg.UpSameRouter {
		res.Count("inherited_cases_upstream_in_judged_router", 1)
	}
	if w.up != nil {
		w.up.mu.Lock()
		problems := append([]string(nil), w.up.problems...)
		w.up.mu.Unlock()
		if len(problems) > 0 && !res.Failed() {
			res.Inconclusive("upstream: %s", strings.Join(problems, "; "))
		}
	}
	for _, ms := range w.order {
		ip := ms.plan.Inherit
		if ip == nil {
			res.Count("inherited_messages_with_fresh_context", 1)
			continue
		}
		res.Count("inherited_messages", 1)
		res.Count("inherited_hops", len(ip.Hops))
		for _, h := range ip.Hops {
			res.Count("inherited_take_"+h.Take, 1)
		}
		res.Count("inherited_transport_"+ip.Transport, 1)
		if len(ms.attempts) > 1 {
			res.Count("inherited_redeliveries_from_"+ip.Redeliver, len(ms.attempts)-1)
		}
		if in := ms.inherited; in != nil && ms.plan.Handler >= 0 {
			n := nm[ms.plan.Handler]
			if in.Handler != "" && in.Handler != n.Handler {
				res.Count("inherited_ctx_named_another_handler", 1)
			}
			if in.Handler == "" {
				res.Count("inherited_ctx_without_handler_name", 1)
			}
			if in.Topic != "" && in.Topic != n.Topic {
				res.Count("inherited_ctx_named_another_topic", 1)
			}
			if in.Subscriber != "" && in.Subscriber != n.Subscriber {
				res.Count("inherited_ctx_named_another_subscriber", 1)
			}
			for _, a := range ms.attempts {
				if len(a.calls) > 0 {
					res.Count("inherited_poison_publishes_judged", 1)
					break
				}
			}
		}
	}
}
