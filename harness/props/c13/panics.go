package c13

import (
	"context"
	"errors"
	"fmt"

	"verifharness/vlib"
)

// ---------------------------------------------------------------------------------------------
// Classes 'standalone+panics' / 'router+panics': user code called by the salvage path panics.
//
// The statement's publisher outcomes are "accept" and "error". A publisher can also fail by panicking
// (nil client after a failed reconnect, send on a closed channel, a buggy decorator). Such a Publish call
// has not put the message into the poison topic, so it is read as "that publish fails": the failure must
// still be reported. How it is reported is left open - the panic may propagate out of the middleware (the
// Router recovers it and Nacks; a stand-alone caller sees the panic) or the middleware may turn it into a
// returned error that still carries the handler's error. What no reading allows is success (nil error /
// Ack) although the poison topic did not accept the message.

// panic values of the poison publisher
var pubPanicKinds = []string{
	"error-plain", "error-sentinel", "error-handlers-own", "error-typed-nil", "error-uncomparable", "error-ctx-canceled",
	"runtime-error-nil-map", "runtime-error-nil-deref", "string", "empty-string", "nil",
	"slice", "map", "func", "struct-with-slice", "int", "struct-pointer",
}

type noCmp struct {
	Parts []string
	Why   string
}

// raise panics with the value of the given kind (never returns). handlerErr is the error of the handler
// invocation being salvaged.
func raise(kind, txt string, sent, handlerErr error) {
	switch kind {
	case "error-plain":
		panic(errors.New("publisher broke: " + txt))
	case "error-sentinel":
		panic(sent)
	case "error-handlers-own":
		panic(handlerErr)
	case "error-typed-nil":
		panic(error((*typedErr)(nil)))
	case "error-uncomparable":
		panic(error(sliceErr{Parts: []string{"publisher", txt}}))
	case "error-ctx-canceled":
		panic(context.Canceled)
	case "runtime-error-nil-map":
		var m map[string]string
		m[txt] = txt // runtime.Error: assignment to entry in nil map
	case "runtime-error-nil-deref":
		var t *typedErr
		_ = t.Code // runtime.Error: nil pointer dereference
	case "string":
		panic("connection is gone " + txt)
	case "empty-string":
		panic("")
	case "nil":
		panic(nil) // go >= 1.21: arrives as *runtime.PanicNilError
	case "slice":
		panic([]string{"publisher", txt})
	case "map":
		panic(map[string]int{txt: 1})
	case "func":
		panic(func() string { return txt })
	case "struct-with-slice":
		panic(noCmp{Parts: []string{txt}, Why: "publisher"})
	case "int":
		panic(len(txt) + 500)
	default: // struct-pointer
		panic(&noCmp{Why: txt})
	}
	panic("unreachable: " + kind)
}

// panicText describes a recovered value without comparing it (the values may be non-comparable).
func panicText(v any) string {
	if v == nil {
		return "<nil>"
	}
	if _, ok := v.(func() string); ok {
		return "func() string"
	}
	s := fmt.Sprintf("%T(%v)", v, v)
	if len(s) > 120 {
		s = s[:120] + "..."
	}
	return s
}

// genPanics rewrites the drawn attempts of one message for the '+panics' classes. Publisher outcome per
// attempt: 30% accept, 25% error, 45% panic (value kind drawn). 45% of the messages are "outage" messages:
// one failure the filter accepts (re-drawn up to 6 times), repeated on every delivery; the poison publisher
// panics / fails on the first 1..3 deliveries and accepts on the last one. 7% of the attempts: the handler
// itself panics; 7% (only where the filter's caller can be identified): the filter panics when asked.
func genPanics(r *vlib.Rand, p *msgPlan, sent error, pred func(error) bool, filterPanics bool) {
	drawOutcome := func(a *attemptPlan, forcePanic bool) {
		a.PubPanicK, a.PubPanicTxt = "", ""
		x := r.Intn(100)
		switch {
		case forcePanic || x < 45:
			a.PubFail = false
			a.PubPanicK, a.PubPanicTxt = pubPanicKinds[r.Intn(len(pubPanicKinds))], r.UTF8(5)
		case x < 70:
			a.PubFail = true
		default:
			a.PubFail = false
		}
	}
	if r.Chance(0.45) {
		kind, err := genErr(r, sent)
		for i := 0; i < 6 && !pred(err); i++ {
			kind, err = genErr(r, sent)
		}
		tpl := p.Attempts[0]
		tpl.ErrKind, tpl.Err, tpl.MutKey, tpl.MutVal = kind, err, "", ""
		n := r.Range(1, 3)
		p.Attempts = p.Attempts[:0]
		for i := 0; i < n; i++ {
			a := tpl
			drawOutcome(&a, r.Chance(0.7))
			if a.PubPanicK == "" {
				a.PubFail = true
			}
			p.Attempts = append(p.Attempts, a)
		}
		last := tpl
		last.PubFail = false
		p.Attempts = append(p.Attempts, last)
		p.Outage = true
		return
	}
	for k := range p.Attempts {
		a := &p.Attempts[k]
		drawOutcome(a, false)
		switch x := r.Intn(100); {
		case x < 7:
			a.HPanicK, a.HPanicTxt = pubPanicKinds[r.Intn(len(pubPanicKinds))], r.UTF8(5)
			a.ErrKind, a.Err = "", nil
		case x < 14 && filterPanics && a.Err != nil:
			a.FPanicK, a.FPanicTxt = pubPanicKinds[r.Intn(len(pubPanicKinds))], r.UTF8(5)
		}
	}
}

// pubText describes the planned outcome of the poison publisher for messages.
func (a *attemptPlan) pubText() string {
	switch {
	case a.PubPanicK != "":
		return "panics(" + a.PubPanicK + ")"
	case a.PubFail:
		return "fails"
	default:
		return "accepts"
	}
}

// panicExpected: a panic out of the poison middleware during this invocation is the drawn fault (the
// publisher / the handler / the filter panicked), not a defect of the middleware.
func (a *attemptObs) panicExpected() bool {
	if a.hPanic || a.fPanicked {
		return true
	}
	for _, c := range a.calls {
		if c.Panic != nil {
			return true
		}
	}
	return false
}

// salvaged: the poison publisher accepted exactly this message on the poison topic during this invocation.
func (a *attemptObs) salvaged(topic, uuid string) bool {
	for _, pc := range a.calls {
		if pc.Err == nil && pc.Panic == nil && pc.End != 0 && pc.Topic == topic && len(pc.Snaps) == 1 && pc.Snaps[0].UUID == uuid {
			return true
		}
	}
	return false
}
