package c13

import (
	"context"
	"errors"
	"fmt"

	"github.com/ThreeDotsLabs/watermill/message"

	"verifharness/vlib"
)

// ---------------------------------------------------------------------------------------------
// Class 'router+names': unusual but legal names.
//
// The Router stores up to five values in the context of every message a handler consumes (handler name,
// publisher name, subscriber name, subscribe topic, publish topic); each of them can legally be the empty
// string: "handlerName must be unique. For now, it is used only for debugging" (AddHandler accepts ""),
// a publisher / subscriber that is a fmt.Stringer is named by String() - whatever it returns -,
// AddNoPublisherHandler has no publish topic. The poison metadata names the topic, the handler and the
// subscriber the message was consumed by; an empty name of one of them (or of something the metadata does
// not even mention, such as the publisher) says nothing about the others.

// subscribers named ""
type emptyNameSub struct{ s *vlib.Sub }

func (e *emptyNameSub) Subscribe(ctx context.Context, topic string) (<-chan *message.Message, error) {
	return e.s.Subscribe(ctx, topic)
}
func (e *emptyNameSub) Close() error   { return e.s.Close() }
func (e *emptyNameSub) String() string { return "" }

// publishers: named "" / named by their pointer type / named by their value type
type emptyNamePub struct{ p *vlib.Pub }

func (e *emptyNamePub) Publish(topic string, msgs ...*message.Message) error {
	return e.p.Publish(topic, msgs...)
}
func (e *emptyNamePub) Close() error   { return e.p.Close() }
func (e *emptyNamePub) String() string { return "" }

type anonPubA struct{ p *vlib.Pub }

func (a *anonPubA) Publish(topic string, msgs ...*message.Message) error {
	return a.p.Publish(topic, msgs...)
}
func (a *anonPubA) Close() error { return a.p.Close() }

type anonPubB struct{ p *vlib.Pub }

func (b anonPubB) Publish(topic string, msgs ...*message.Message) error {
	return b.p.Publish(topic, msgs...)
}
func (b anonPubB) Close() error { return b.p.Close() }

const (
	pubStringer      = "stringer"
	pubEmptyStringer = "empty-stringer"
	pubPtrType       = "ptr-type"
	pubValueType     = "value-type"
	pubNone          = "none"                // AddNoPublisherHandler
	pubEmptyTopic    = "empty-publish-topic" // AddHandler with a publisher and the publish topic ""
)

var (
	namesPubKinds = []string{pubStringer, pubStringer, pubEmptyStringer, pubEmptyStringer, pubEmptyStringer, pubPtrType, pubValueType, pubNone, pubNone, pubEmptyTopic}
	namesSubKinds = []string{"stringer", "stringer", "empty-stringer", "empty-stringer", "ptr-type", "value-type"}
)

func wrapPub(kind string, p *vlib.Pub) message.Publisher {
	switch kind {
	case pubEmptyStringer:
		return &emptyNamePub{p}
	case pubPtrType:
		return &anonPubA{p}
	case pubValueType:
		return anonPubB{p}
	default:
		return p
	}
}

// ---------------------------------------------------------------------------------------------
// Classes 'standalone+stateful' / 'router+stateful': filters with memory.
//
// PoisonQueueWithFilter "accepts a function that decides which errors qualify for the poison queue"; the
// function is user code and nothing requires it to be a pure function of the error ("poison after N failed
// deliveries", one-shot, sampled, budgeted filters). How often the middleware asks it per failure is not
// specified, so the oracle is stated over the answers the filter actually gave for a failure (judge.go).

var statefulKinds = []string{"scripted", "scripted", "every-nth", "give-up-after-n", "per-text-budget", "first-k-only", "not-first-k", "sentinel-with-budget", "alternating"}

// statefulPredicate returns the decision function of a filter with memory and a description of its
// parameters. The function is only called with w.mu held (world.filter), which also guards its state.
func statefulPredicate(kind string, r *vlib.Rand, sent error) (func(error) bool, string) {
	calls := 0
	switch kind {
	case "scripted": // the answer of the i-th call is fixed in advance
		script := make([]bool, r.Range(3, 24))
		txt := ""
		for i := range script {
			script[i] = r.Bool()
			if script[i] {
				txt += "y"
			} else {
				txt += "n"
			}
		}
		return func(error) bool { calls++; return script[(calls-1)%len(script)] }, txt
	case "every-nth": // sampled poisoning
		n := r.Range(2, 4)
		return func(error) bool { calls++; return calls%n == 0 }, fmt.Sprint("n=", n)
	case "give-up-after-n": // poison on the n-th failure, then forget the counter
		n, failures := r.Range(1, 3), 0
		return func(error) bool {
			failures++
			if failures >= n {
				failures = 0
				return true
			}
			return false
		}, fmt.Sprint("n=", n)
	case "per-text-budget": // the same, counted per error text
		n, seen := r.Range(1, 3), map[string]int{}
		return func(err error) bool {
			k := "<nil>"
			if err != nil {
				k = err.Error()
			}
			seen[k]++
			if seen[k] >= n {
				delete(seen, k)
				return true
			}
			return false
		}, fmt.Sprint("n=", n)
	case "first-k-only": // one-shot / limited budget
		k := r.Range(1, 4)
		return func(error) bool { calls++; return calls <= k }, fmt.Sprint("k=", k)
	case "not-first-k": // warm-up: the first k failures are left to the retries
		k := r.Range(1, 3)
		return func(error) bool { calls++; return calls > k }, fmt.Sprint("k=", k)
	case "sentinel-with-budget": // a pure criterion combined with a budget
		b := r.Range(1, 4)
		return func(err error) bool {
			if !errors.Is(err, sent) {
				return true
			}
			b--
			return b >= 0
		}, fmt.Sprint("budget=", b)
	default: // alternating: every yes is followed by a no and the other way round
		next := r.Bool()
		p := fmt.Sprint("first=", next)
		return func(error) bool { ans := next; next = !ans; return ans }, p
	}
}

// tagErr makes the error of one planned attempt recognisable among those of concurrently handled
// messages: it wraps the drawn error (errors.Is / errors.As see through it, the text is the same).
type tagErr struct {
	inner error
	tag   string
	obs   *attemptObs // the handler invocation that returned it (guarded by world.mu)
}

func (t *tagErr) Error() string { return t.inner.Error() }
func (t *tagErr) Unwrap() error { return t.inner }

// attributeFilterCall finds the handler invocation a filter call belongs to (caller holds mu): the one
// whose tagged error is being asked about, else the only invocation whose handler has returned while the
// poison middleware has not (the filter can only be asked about an error in that window).
func (w *world) attributeFilterCall(err error) *attemptObs {
	var t *tagErr
	if err != nil && errors.As(err, &t) {
		if t.obs != nil && t.obs.returned && !t.obs.gotSet {
			return t.obs
		}
		w.filterUnattributed++ // asked about an error whose invocation is not being decided: nobody's answer
		return nil
	}
	var cand *attemptObs
	n := 0
	for _, ms := range w.order {
		if len(ms.attempts) == 0 {
			continue
		}
		if a := ms.attempts[len(ms.attempts)-1]; a.returned && !a.gotSet {
			cand = a
			n++
		}
	}
	switch n {
	case 1:
		return cand
	case 0:
		w.filterUnattributed++
	default:
		w.filterAmbiguous++
	}
	return nil
}

func answersText(ans []bool) string {
	s := ""
	for _, a := range ans {
		if a {
			s += "y"
		} else {
			s += "n"
		}
	}
	return s
}

func countAnswers(ans []bool) (yes, no int) {
	for _, a := range ans {
		if a {
			yes++
		} else {
			no++
		}
	}
	return
}
