// Package c13 is the runtime monitor for property C13 of watermill:
//
//	Poison queue: a failed message is either in the poison topic or still failing.
//
// The real middleware.PoisonQueue / PoisonQueueWithFilter is run stand-alone and inside a running
// Router, between a harness "spy" middleware (observes what the poison middleware returns) and a
// scripted handler; the poison publisher and the subscriber are scripted ends (vlib.Pub / vlib.Sub).
// Every handler invocation ("attempt") is judged against the reference model in judge.go.
package c13

import (
	"context"
	"errors"
	"fmt"
	"sync"

	"github.com/ThreeDotsLabs/watermill"
	"github.com/ThreeDotsLabs/watermill/message"
	"github.com/ThreeDotsLabs/watermill/message/router/middleware"

	"verifharness/vlib"
)

func init() {
	vlib.Register(&vlib.Prop{
		ID:    "C13",
		Level: "exploration",
		Cases: func(tier string) int { return vlib.TierN(tier, 2000, 500000) },
		Rule: "case = one PoisonQueue instance (constructor without filter, or PoisonQueueWithFilter with one of 7 predicates: all, none, errors.Is sentinel, " +
			"its negation, errors.As type, hash of the text, not context.Canceled) with a random poison topic, 1..6 messages (random payload, 0..4 random metadata keys, " +
			"40%: some of the four poison keys pre-set) x 1..4 scripted attempts each (success or one of 21 error shapes: plain, pkg/errors, sentinel, fmt/pkg/deep wrapped, " +
			"typed pointer / typed nil / value / uncomparable, multierror, errors.Join, context errors, empty text; outputs nil/empty/1..3; handler may set a metadata key; " +
			"poison publisher accepts or fails with a plain/sentinel/typed error). Even case indices run the middleware stand-alone (attempts repeated on the same message " +
			"until nil is returned), odd ones inside a running Router (1..2 handlers with or without publisher, middleware at router or handler level, scripted subscriber " +
			"redelivering after every Nack, messages delivered concurrently or in sequence). Every attempt is one evaluation of the model; a case is non-trivial when at least " +
			"one attempt failed with an error the filter accepts (the poison publisher was due); distinct = distinct (mode, filter, registration, per-attempt " +
			"(error shape, outputs, filter verdict, publisher outcome, settlement)) signatures.",
		Assumptions: []string{
			"messages are built with message.NewMessage (non-nil Metadata map)",
			"stand-alone calls carry no Router context, so the topic/handler/subscriber keys are expected to be set to the empty string (the context keys are unexported and cannot be forged)",
			"filters are pure functions of the error; the expected verdict is computed from the handler's error at the instant the handler returns",
			"outputs returned together with an accepted error are not judged (the statement is silent on them)",
			"a blocked call is decided by the quiescence detector, not by a time-out",
		},
		Run: run,
	})
}

// ---------------------------------------------------------------------------------------------
// observation

type attemptObs struct {
	idx  int
	plan *attemptPlan
	msg  *message.Message

	// handler boundary
	enter, ret uint64
	returned   bool
	snap       vlib.MsgSnap // message value at the instant the handler returned
	outs       []*message.Message
	err        error
	reason     string // err.Error() at that instant
	accept     bool   // filter predicate on err at that instant

	// spy boundary: what the poison middleware returned
	gotSet  bool
	gotOuts []*message.Message
	gotErr  error
	after   vlib.MsgSnap
	spyRet  uint64

	// poison publisher boundary
	calls       []*vlib.PubCall
	filterCalls int
}

type msgState struct {
	plan     *msgPlan
	attempts []*attemptObs
	copies   []*message.Message // router mode: the copies the subscriber emitted
	acked    bool               // router mode: Deliver's verdict
}

type names struct{ Topic, Handler, Subscriber string }

type world struct {
	mu          sync.Mutex
	msgs        map[string]*msgState
	order       []*msgState
	pred        func(error) bool
	inflight    *attemptObs // stand-alone: the only attempt in flight
	standalone  bool
	stray       []string
	filterCalls int
	panics      []string
}

// current returns the latest attempt of the message with this UUID (caller holds mu).
func (w *world) current(uuid string) *attemptObs {
	if w.standalone {
		return w.inflight
	}
	ms := w.msgs[uuid]
	if ms == nil || len(ms.attempts) == 0 {
		return nil
	}
	return ms.attempts[len(ms.attempts)-1]
}

// handler is the scripted handler (innermost).
func (w *world) handler(msg *message.Message) ([]*message.Message, error) {
	enter := vlib.Now()
	w.mu.Lock()
	ms := w.msgs[msg.UUID]
	if ms == nil {
		w.stray = append(w.stray, "handler called with unknown UUID "+msg.UUID)
		w.mu.Unlock()
		return nil, nil
	}
	k := len(ms.attempts)
	ap := ms.plan.attempt(k)
	a := &attemptObs{idx: k, plan: ap, msg: msg, enter: enter}
	ms.attempts = append(ms.attempts, a)
	if w.standalone {
		w.inflight = a
	}
	w.mu.Unlock()

	if ap.MutKey != "" {
		msg.Metadata.Set(ap.MutKey, ap.MutVal) // the handler owns the message while it runs
	}

	w.mu.Lock()
	a.snap = vlib.Snap(msg)
	a.outs = ap.Outs
	a.err = ap.Err
	if ap.Err != nil {
		a.reason = ap.Err.Error()
		a.accept = w.pred(ap.Err)
	}
	a.returned = true
	a.ret = vlib.Now()
	w.mu.Unlock()
	return ap.Outs, ap.Err
}

// spy is the harness middleware placed directly outside the poison middleware.
func (w *world) spy(h message.HandlerFunc) message.HandlerFunc {
	return func(msg *message.Message) ([]*message.Message, error) {
		outs, err := h(msg)
		w.mu.Lock()
		if a := w.current(msg.UUID); a != nil && !a.gotSet {
			a.gotSet, a.gotOuts, a.gotErr = true, outs, err
			a.after = vlib.Snap(msg)
			a.spyRet = vlib.Now()
		} else {
			w.stray = append(w.stray, "poison middleware returned for "+msg.UUID+" without a (fresh) handler invocation")
		}
		w.mu.Unlock()
		return outs, err
	}
}

// filter wraps the predicate handed to PoisonQueueWithFilter (calls are counted, not judged).
func (w *world) filter(err error) bool {
	w.mu.Lock()
	w.filterCalls++
	w.mu.Unlock()
	return w.pred(err)
}

// attribute finds the attempt a Publish call belongs to (caller holds mu).
func (w *world) attribute(msgs []*message.Message) *attemptObs {
	if w.standalone {
		return w.inflight
	}
	for _, m := range msgs {
		if m == nil {
			continue
		}
		if a := w.current(m.UUID); a != nil {
			return a
		}
	}
	return nil
}

func (w *world) poisonPub(name string) *vlib.Pub {
	p := &vlib.Pub{Name: name}
	p.OnPublish = func(c *vlib.PubCall) {
		w.mu.Lock()
		defer w.mu.Unlock()
		a := w.attribute(c.Msgs)
		if a == nil {
			u := "<no message>"
			if len(c.Snaps) > 0 {
				u = c.Snaps[0].UUID
			}
			w.stray = append(w.stray, fmt.Sprintf("Publish(%q) of UUID %q which is not a message in flight", c.Topic, u))
			return
		}
		// settlement of the consumed message sampled inside the Publish call
		c.Sampled["settled"] = vlib.Settled(a.msg)
		if !a.returned {
			c.Sampled["before_handler_returned"] = "1"
		}
		a.calls = append(a.calls, c)
	}
	p.Script = func(no int, topic string, msgs []*message.Message) error {
		w.mu.Lock()
		defer w.mu.Unlock()
		if a := w.attribute(msgs); a != nil && a.plan.PubFail {
			return a.plan.PubErr
		}
		return nil
	}
	return p
}

// ---------------------------------------------------------------------------------------------
// case

type config struct {
	Mode        string `json:"mode"`
	Filter      string `json:"filter"`
	PoisonTopic string `json:"poison_topic"`
	Reg         string `json:"registration,omitempty"`
	Concurrent  bool   `json:"concurrent,omitempty"`
	Handlers    []hcfg `json:"handlers,omitempty"`
}

type hcfg struct {
	Name, Topic, Sub string
	WithPublisher    bool
}

func run(e *vlib.Env) vlib.Result {
	r := e.R
	cfg := config{Mode: "standalone", Filter: filterKinds[r.Intn(len(filterKinds))]}
	if e.Idx%2 == 1 {
		cfg.Mode = "router"
	}
	cfg.PoisonTopic = e.ID() + "-poison-" + r.UTF8(5)
	res := vlib.Result{Class: cfg.Mode + "/" + cfg.Filter}

	sent := errors.New(e.ID() + " sentinel")
	w := &world{msgs: map[string]*msgState{}, standalone: cfg.Mode == "standalone"}
	w.pred = predicate(cfg.Filter, sent, e.ID())

	ppub := w.poisonPub(e.ID() + "-ppub")
	var pq message.HandlerMiddleware
	var err error
	if cfg.Filter == "default" {
		pq, err = middleware.PoisonQueue(ppub, cfg.PoisonTopic)
	} else {
		pq, err = middleware.PoisonQueueWithFilter(ppub, cfg.PoisonTopic, w.filter)
	}
	if err != nil || pq == nil {
		res.Fail("constructor", "constructor rejected the non-empty topic %q: %v", cfg.PoisonTopic, err)
		return res
	}

	nh := 1
	if cfg.Mode == "router" {
		nh = r.Range(1, 2)
		cfg.Reg = []string{"router-level", "handler-level"}[r.Intn(2)]
		cfg.Concurrent = r.Bool()
		for i := 0; i < nh; i++ {
			cfg.Handlers = append(cfg.Handlers, hcfg{
				Name:          fmt.Sprintf("%s-h%d-%s", e.ID(), i, r.UTF8(4)),
				Topic:         fmt.Sprintf("%s-t%d-%s", e.ID(), i, r.UTF8(4)),
				Sub:           fmt.Sprintf("%s-s%d-%s", e.ID(), i, r.UTF8(3)),
				WithPublisher: r.Chance(0.6),
			})
		}
	}
	allowOuts := func(h int) bool { return cfg.Mode == "standalone" || cfg.Handlers[h].WithPublisher }
	for i, n := 0, r.Range(1, 6); i < n; i++ {
		p := genMsg(r, e.ID(), i, sent, nh, allowOuts)
		ms := &msgState{plan: p}
		w.msgs[p.UUID] = ms
		w.order = append(w.order, ms)
	}

	var nm []names
	if cfg.Mode == "standalone" {
		nm = []names{{}}
		runStandalone(&res, w, pq)
	} else {
		for _, h := range cfg.Handlers {
			nm = append(nm, names{Topic: h.Topic, Handler: h.Name, Subscriber: "vsub:" + h.Sub})
		}
		runRouter(&res, w, pq, &cfg)
	}

	w.mu.Lock()
	defer w.mu.Unlock()
	ppub.Calls() // synchronises with every finished Publish call
	judge(&res, w, &cfg, nm)
	describe(&res, w, &cfg)
	return res
}

// runStandalone drives spy(pq(handler)) directly: every message is retried on the same *Message
// (as a Retry middleware or a redelivering caller would) until nil is returned or the plan ends.
func runStandalone(res *vlib.Result, w *world, pq message.HandlerMiddleware) {
	h := w.spy(pq(w.handler))
	done := make(chan struct{})
	go func() {
		defer close(done)
		for _, ms := range w.order {
			msg := ms.plan.build()
			for k := 0; k < len(ms.plan.Attempts); k++ {
				var err error
				func() {
					defer func() {
						if p := recover(); p != nil {
							w.mu.Lock()
							w.panics = append(w.panics, fmt.Sprintf("message %s attempt %d: %v", ms.plan.UUID, k, p))
							w.mu.Unlock()
							err = fmt.Errorf("panic")
						}
					}()
					_, err = h(msg)
				}()
				w.mu.Lock()
				w.inflight = nil
				w.mu.Unlock()
				if err == nil {
					break
				}
			}
		}
	}()
	switch oc, dump := vlib.WaitClosed(done, vlib.WD); oc {
	case vlib.Stuck:
		res.Fail("blocked", "the poison middleware never returned (process quiescent)")
		res.Witness = dump
	case vlib.Inconclusive:
		res.Inconclusive("stand-alone workload did not finish before the watchdog")
	}
}

// runRouter runs the middleware inside a real Router behind scripted subscribers.
func runRouter(res *vlib.Result, w *world, pq message.HandlerMiddleware, cfg *config) {
	router, err := message.NewRouter(message.RouterConfig{}, watermill.NopLogger{})
	if err != nil {
		res.Inconclusive("NewRouter: %v", err)
		return
	}
	if cfg.Reg == "router-level" {
		router.AddMiddleware(w.spy, pq) // first added = outermost
	}
	subs := make([]*vlib.Sub, len(cfg.Handlers))
	outPubs := make([]*vlib.Pub, len(cfg.Handlers))
	for i, hc := range cfg.Handlers {
		subs[i] = &vlib.Sub{Name: hc.Sub}
		var h *message.Handler
		if hc.WithPublisher {
			outPubs[i] = &vlib.Pub{Name: hc.Name + "-out"}
			h = router.AddHandler(hc.Name, hc.Topic, subs[i], hc.Topic+"-out", outPubs[i], w.handler)
		} else {
			h = router.AddNoPublisherHandler(hc.Name, hc.Topic, subs[i], func(msg *message.Message) error {
				_, err := w.handler(msg)
				return err
			})
		}
		if cfg.Reg == "handler-level" {
			h.AddMiddleware(w.spy, pq)
		}
	}
	ctx, cancel := context.WithCancel(context.Background())
	defer cancel()
	runDone := make(chan struct{})
	go func() {
		defer close(runDone)
		_ = router.Run(ctx)
	}()
	closeRouter := func() {
		closed := make(chan struct{})
		go func() {
			defer close(closed)
			router.Close()
		}()
		if oc, _ := vlib.WaitClosed(closed, vlib.WD); oc != vlib.Done {
			res.Inconclusive("Router.Close did not return (%v)", oc)
			return
		}
		if oc, _ := vlib.WaitClosed(runDone, vlib.WD); oc != vlib.Done {
			res.Inconclusive("Router.Run did not return after Close (%v)", oc)
		}
	}
	if oc, _ := vlib.WaitUntil(func() bool { return vlib.IsClosed(router.Running()) || vlib.IsClosed(runDone) }, vlib.WD); oc != vlib.Done || vlib.IsClosed(runDone) {
		res.Inconclusive("router did not start (%v)", oc)
		closeRouter()
		return
	}
	sps := make([]*vlib.Subscription, len(cfg.Handlers))
	for i, hc := range cfg.Handlers {
		if sps[i] = subs[i].SubFor(hc.Topic); sps[i] == nil {
			res.Inconclusive("router did not subscribe to %q", hc.Topic)
			closeRouter()
			return
		}
	}

	deliver := func(ms *msgState) {
		copies, acked := sps[ms.plan.Handler].Deliver(ms.plan.build(), len(ms.plan.Attempts)-1)
		w.mu.Lock()
		ms.copies, ms.acked = copies, acked
		w.mu.Unlock()
	}
	done := make(chan struct{})
	go func() {
		defer close(done)
		if !cfg.Concurrent {
			for _, ms := range w.order {
				deliver(ms)
			}
			return
		}
		var wg sync.WaitGroup
		for _, ms := range w.order {
			wg.Add(1)
			go func(ms *msgState) {
				defer wg.Done()
				deliver(ms)
			}(ms)
		}
		wg.Wait()
	}()
	switch oc, dump := vlib.WaitClosed(done, vlib.WD); oc {
	case vlib.Stuck:
		res.Fail("unsettled", "a delivered message was never acked nor nacked (process quiescent)")
		res.Witness = dump
	case vlib.Inconclusive:
		res.Inconclusive("router workload did not finish before the watchdog")
	}
	closeRouter()
	if oc, _ := vlib.WaitClosed(done, vlib.WD); oc != vlib.Done && !res.Failed() {
		res.Inconclusive("delivery goroutines did not finish after the router was closed")
	}
	for _, p := range outPubs {
		if p != nil {
			res.Count("output_publishes", len(p.Calls()))
		}
	}
}
