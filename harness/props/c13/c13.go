// Package c13 is the runtime monitor for property C13 of watermill:
//
//	Poison queue: a failed message is either in the poison topic or still failing.
//
// The real middleware.PoisonQueue / PoisonQueueWithFilter is run stand-alone and inside a running
// Router, between a harness "spy" middleware (observes what the poison middleware returns) and a
// scripted handler; the poison publisher and the subscriber are scripted ends (vlib.Pub / vlib.Sub).
// Every handler invocation ("attempt") is judged against the reference model in judge.go.
package c13

import (
	"context"
	"errors"
	"fmt"
	"sync"

	"github.com/ThreeDotsLabs/watermill"
	"github.com/ThreeDotsLabs/watermill/message"
	"github.com/ThreeDotsLabs/watermill/message/router/middleware"

	"verifharness/vlib"
)

// Case counts. Indices below the "legacy" count of a tier are the original two classes (stand-alone /
// Router, drawn exactly as before); the indices above it are the extended classes (see Rule).
const (
	legacyQuick, legacyThorough = 2000, 500000
	extQuick, extThorough       = 1200, 120000
	r4Quick, r4Thorough         = 1500, 90000 // round 4: router+names, standalone+stateful, router+stateful (round-robin)
	r5Quick, r5Thorough         = 1600, 60000 // round 5: router+lifecycle
	r6Quick, r6Thorough         = 1500, 50000 // round 6: router+refused
	r7Quick, r7Thorough         = 1800, 60000 // round 7: standalone+panics, router+panics (alternating)
	r8Quick, r8Thorough         = 1200, 40000 // round 8: router+inherited
)

func init() {
	vlib.Register(&vlib.Prop{
		ID:    "C13",
		Level: "exploration",
		Cases: func(tier string) int {
			return vlib.TierN(tier, legacyQuick+extQuick+r4Quick+r5Quick+r6Quick+r7Quick+r8Quick, legacyThorough+extThorough+r4Thorough+r5Thorough+r6Thorough+r7Thorough+r8Thorough)
		},
		Rule: "case = one PoisonQueue instance (constructor without filter, or PoisonQueueWithFilter with one of 7 predicates: all, none, errors.Is sentinel, " +
			"its negation, errors.As type, hash of the text, not context.Canceled) with a random poison topic, 1..6 messages (random payload, 0..4 random metadata keys, " +
			"40%: some of the four poison keys pre-set) x 1..4 scripted attempts each (success or one of 21 error shapes: plain, pkg/errors, sentinel, fmt/pkg/deep wrapped, " +
			"typed pointer / typed nil / value / uncomparable, multierror, errors.Join, context errors, empty text; outputs nil/empty/1..3; handler may set a metadata key; " +
			"poison publisher accepts or fails with a plain/sentinel/typed error). Base classes (first 2000 quick / 500000 thorough indices): even case indices run the " +
			"middleware stand-alone (attempts repeated on the same message " +
			"until nil is returned), odd ones inside a running Router (1..2 handlers with or without publisher, middleware at router or handler level, scripted subscriber " +
			"redelivering after every Nack, messages delivered concurrently or in sequence). Extended classes (the next 1200 quick / 120000 thorough indices, round-robin): " +
			"'standalone+ctx' and 'router+ctx' = the base classes where application code additionally stores foreign values in the message context (per message 0..3 " +
			"injections x 1..3 key/value pairs; place: by the emitter/caller, in a subscriber decorator added after the Router's own, in a middleware above or below the " +
			"poison middleware (before calling / after the wrapped function returned), in the handler before it returns; key: plain string spelled like one of the Router's " +
			"five context keys, another plain string, an application key type with the same spelling, struct key, int key; value: foreign string, the real name of another " +
			"handler/topic/subscriber, empty string, non-string, nil), message metadata may carry keys spelled like the Router's context keys, Router handlers 1..3 with " +
			"subscribers named by fmt.Stringer or by their (pointer/value) type, possibly one subscriber or one topic shared by two handlers; " +
			"'router+shared' = ONE wrapped function guarded := spy(pq(handler)) registered as the handler function of 2..3 handlers of one Router (distinct names; " +
			"topics/subscribers distinct or partly shared), the first messages spread over all handlers, 35%: 1..2 further messages dispatched directly into the same " +
			"guarded function without any Router context (expected names: empty), with or without foreign context values. " +
			"Round-4 classes (the last 1500 quick / 90000 thorough indices, round-robin): " +
			"'router+names' = the Router class with 1..3 handlers whose names are unusual but legal: 55%: one handler registered under the empty name \"\", 20%: one handler " +
			"consuming the topic \"\", publisher per handler drawn from {fmt.Stringer with a name, fmt.Stringer whose String() is \"\", plain pointer type, plain value type, " +
			"none (AddNoPublisherHandler), a publisher with the empty publish topic}, subscriber from {Stringer with a name, Stringer whose String() is \"\", pointer type, value type}, " +
			"subscribers/topics shared as in 'router+ctx', 30%: foreign context values; expected poison names = exactly what the handler was registered with, empty where it is empty; " +
			"'standalone+stateful' and 'router+stateful' = the base classes with a filter that has memory, drawn from {answers scripted per call (3..24 random answers, cyclic), " +
			"every n-th call, yes on the n-th failure then forget the counter, the same counted per error text, only the first k calls, not the first k calls, a sentinel criterion " +
			"with a budget, alternating}; every answer the filter gives is recorded with the handler invocation whose error it decides (per-attempt tagged error wrappers, 50%, allow " +
			"concurrent deliveries; otherwise one failure at a time) and the model is evaluated over those answers: all yes -> poison rows, all no -> pass-through row, " +
			"contradicting answers for one failure (or none) -> the row matching what reached the poison publisher is demanded in full, so that success without a publish is never allowed. " +
			"Round-5 class (the last 1600 quick / 60000 thorough indices): 'router+lifecycle' = the PoisonQueue (router-level, or handler-level on 65% of the handlers, at least one) inside a Router " +
			"that has a history before and between the deliveries: wave 0 = 1..3 handlers registered before Run, 0..2 later waves of 1..2 handlers added to the running Router and started with RunHandlers; " +
			"start-up faults: per handler 30%: its first 1..2 Subscribe calls fail, 30%: an application SubscriberDecorator (innermost or after the context-value decorator) fails at 1..2 drawn call numbers, " +
			"15%: an application PublisherDecorator likewise; RunHandlers is repeated until it returns nil; when the failing attempt is the one made by Run, Run returns the error, the handlers it had started stop with " +
			"its context, the harness awaits them, repeats RunHandlers and registers the stopped ones once more under their names; every handler but #0 (which keeps the Router alive) is stopped with 45% after a drawn wave, " +
			"by Handler.Stop or by its subscription ending, and awaited (Stopped()); handlers of later waves take with 40% the name of a handler stopped earlier (half of them also its subscriber object and topic); names otherwise: " +
			"30% the empty name (once), 25% a variant of another handler's name (common prefix of all names, name + space, upper-cased), else plain; subscribers/publishers named as in 'router+names', 8% the topic \"\", " +
			"subscriber or topic shared with handler #0, 40% of the handlers with a pass-through handler-level middleware of their own, 25% foreign context values; 2..4+ messages, each consumed by a handler covered by the " +
			"PoisonQueue at a drawn instant at which it runs (after its wave was started and before it is stopped; the first message by a handler of the last wave, half of the rest after the whole history), redelivered after every Nack at most " +
			"len(attempts)-1 times, so that a message that never reaches the poison topic ends as 'nacked-instead-of-ack' / 'not-published' instead of a redelivery loop; expected names = those of the registration that consumed the message. " +
			"Round-6 class (the last 1500 quick / 50000 thorough indices): 'router+refused' = a 'router+lifecycle' history (PoisonQueue handler-level in 70% of the cases) interleaved with 1..4 API calls that fail as documented " +
			"(or are documented no-ops) and therefore must change nothing: 50% a duplicate AddHandler / AddNoPublisherHandler under the name of a registered handler (DuplicateHandlerNameError panic, recovered; with the registered handler's " +
			"subscriber object / topic or other ones; 60% of them aimed at a handler that is registered with its handler-level middlewares and not started yet), 20% a second Run (\"router is already running\"), 10% RunHandlers before Run " +
			"(\"you can't call RunHandlers on non-running router\"), 10% Handler.Stop of a handler that is not started (panic \"handler is not started\", recovered), 10% Handler.Stop once more on a handler that has stopped (its own " +
			"handle; returns, nothing left to cancel); instants per wave: 'registered' (handlers of the wave added, before Run / RunHandlers), 'after-failed-startup-attempt' (between a Run / RunHandlers that returned a scripted start-up error " +
			"and the next attempt; reached only when a fault fires), 'started', 'delivered', 'stopped'; from the second message on, 60% of the messages are consumed by a covered handler that a refused call named, after that call; " +
			"a call whose precondition does not hold at its instant (the handler was restarted after a failed Run ...) is skipped and counted; every handler's PoisonQueue behaviour is judged as in 'router+lifecycle'. " +
			"Round-7 classes (the last 1800 quick / 60000 thorough indices, alternating): 'standalone+panics' and 'router+panics' = the stand-alone class and the Router class (1..3 handlers, topology as in 'router+ctx', " +
			"15%: foreign context values, 25% of the Router cases: middleware.Recoverer outermost, so that a panic reaches the Router as an error) where the user code called on the salvage path may PANIC on chosen calls: " +
			"poison-publisher outcome per attempt drawn from {accept 30%, error 25%, panic 45%}, panic value from 17 kinds {error values: plain, the sentinel, the handler's own error, typed nil pointer, non-comparable error, " +
			"context.Canceled; real runtime errors: write to a nil map, nil dereference; string, empty string, nil (arrives as *runtime.PanicNilError), non-comparable values: slice, map, func, struct with a slice; int, struct pointer}; " +
			"45% of the messages are 'outage' messages: one failure the filter accepts on every delivery, the publisher panics (70%) or fails on the first 1..3 deliveries and accepts on the last one (panic -> Nack -> redelivery -> poisoned); " +
			"other messages: 7% of the attempts the handler itself panics with one of these values instead of returning, 7% (filter present; stand-alone or per-attempt tagged errors, 50%) the filter panics when asked about the failure; " +
			"the spy records that a panic left the poison middleware and passes it on unchanged; the stand-alone caller recovers it, counts it as a reported failure and retries the same message like after an error. " +
			"Round-8 class (the last 1200 quick / 40000 thorough indices): 'router+inherited' = the Router class (1..3 judged handlers, all names non-empty, topology and registration as in 'router+ctx', 20%: foreign context values) behind a " +
			"Pub/Sub that hands the context VALUES of the published message to the consumer, fed by 1..2 upstream Router handlers (in a Router of their own, or - PoisonQueue handler-level, 50% - in the judged Router itself; upstream name 1/8 empty, " +
			"upstream topic 1/8 spelled like a judged handler's; with or without publisher): 80% of the messages first travel through 1..2 upstream hops and reach the judged handler with a context that already carries the Router's own " +
			"handler/topic/subscriber/publisher values of the upstream handler(s); per hop the context handed on is that of {the message the upstream handler consumed, a fresh message it produced, a produced message to which it copied the " +
			"consumed context, the consumed *Message returned as output (values stacked twice)}; transport into the judged subscription: {context.WithoutCancel(published), the published context as is, subscription context with the " +
			"published values behind it}; a redelivery after a Nack starts from the published context again or carries the values of the previous (nacked) delivery's context (the judged handler's own values stacked below the new ones); " +
			"expected poison names = those of the handler that consumed the message, never the inherited ones. " +
			"Every attempt is one evaluation of the model; a case is non-trivial when at least " +
			"one attempt failed with an error the filter accepts (the poison publisher was due); distinct = distinct (mode, filter, registration, topology, per-attempt " +
			"(error shape, outputs, filter verdict, publisher outcome, settlement), per-message context-injection shape, lifecycle history incl. the observed failed start-up attempts, refused calls (kind, instant, handler, arguments, outcome)) signatures.",
		Assumptions: []string{
			"messages are built with message.NewMessage (non-nil Metadata map)",
			"stand-alone calls carry no Router context, so the topic/handler/subscriber keys are expected to be set to the empty string (the context keys are unexported and cannot be forged); " +
				"values that application code stores under keys of its own - whatever they are spelled like - are not the Router's and are expected to leave the poison metadata untouched",
			"application code only derives from the context the message carries (context.WithValue on msg.Context()); it never replaces it, so the Router's values stay reachable",
			"inside a Router the expected names are those the handler was registered with: handler name, subscribe topic, subscriber name = String() of a fmt.Stringer subscriber, else its type name without the pointer marker (godoc of SubscriberNameFromCtx: 'kafka.Subscriber')",
			"base and extended classes: filters are pure functions of the error; the expected verdict is computed from the handler's error at the instant the handler returns",
			"'+stateful' classes: the filter is user code with memory; how often the middleware consults it per failure is not specified and not judged (counted); the verdict for a failure " +
				"is the set of answers the filter gave between the handler's return and the middleware's return for that invocation; a failure with contradicting answers may take either row of the model, but one of them completely",
			"'router+names': an empty name is a name - the expected value of handler_poisoned / subscriber_poisoned / topic_poisoned is the empty string exactly where the handler name / " +
				"the subscriber's String() / the subscribe topic is empty, and the registered value everywhere else, whatever the other names (incl. the publisher's) are",
			"'router+lifecycle': the history uses the Router as documented: 'RunHandlers is idempotent, so can be called multiple times safely' (repeated after an error, also after Run returned the start-up error), " +
				"'If handler is added while router is already running, you need to explicitly call RunHandlers()', a handler name is free again once Stopped() of its handler is closed; the statement does not mention the history, " +
				"so it is expected to hold unchanged for every handler covered by the PoisonQueue; handlers without a PoisonQueue (handler-level registration) receive no messages; " +
				"a RunHandlers error without a scripted fault left, a handler that does not start / stop, or a message that is not consumed make the case inconclusive (not this property)",
			"'router+refused': a call that the Router refuses as documented (godoc: 'handlerName must be unique', DuplicateHandlerNameError 'is sent in a panic when you try to add a second handler with the same name'; Run: 'router is already running'; " +
				"RunHandlers: 'you can't call RunHandlers on non-running router'; Handler.Stop: panic 'handler is not started') has not happened - the statement knows no such calls, so it is expected to hold unchanged for the handler the call named and for all others; " +
				"Handler.Stop on a handler that has stopped only cancels a context that is cancelled already (it is made through the stopped registration's own handle, also when its name was taken by a new registration); " +
				"a call that is NOT refused (no panic / nil error / does not return) voids the drawn history: the case is inconclusive (not this property)",
			"'+panics': the statement's publisher outcomes are accept and error; a Publish call that PANICS has not put the message into the poison topic and is read as 'that publish fails' => the attempt must not be reported as success: " +
				"either the panic leaves the middleware (stand-alone: the caller sees it; Router: recovered, Nack) or a non-nil error that still carries the handler's error is returned (Nack); which of the two, and the panic value that " +
				"comes out, are not judged; the single Publish call and its message are judged as in the error row; clauses: 'success-after-publisher-panic' (nil returned), 'acked-but-neither-handled-nor-poisoned' (Router), 'handler-error-lost'; " +
				"a panic that leaves the middleware while none was drawn (or before the publisher panicked) is the middleware's own: clause 'panic'",
			"'+panics': a handler that panics has neither succeeded nor returned an error, a filter that panics has given no verdict: no row of the statement applies, only its invariant is demanded - no success (nil error / Ack) " +
				"unless the poison publisher accepted the message during that invocation ('success-after-panic', 'acked-but-neither-handled-nor-poisoned'); Nack, a propagating panic, a returned error, or a successful poison publish followed by Ack are all allowed",
			"'router+inherited': Message.Context / SetContext are public and a Pub/Sub may hand the published message's context values to the consumer (upstream GoChannel PreserveContext, in-process pipes); the Router stores the handler's values " +
				"in the context of every consumed and every produced message, so a message that went through handler A carries A's values when handler B consumes it; godoc of HandlerNameFromCtx / SubscribeTopicFromCtx / SubscriberNameFromCtx: " +
				"'... in the router that consumed the message' => the poison message of B names B's handler, topic and subscriber; every judged handler has a non-empty name, topic and subscriber name in this class (what an EMPTY name should " +
				"shadow is not judged); an upstream hop that does not ack / hand on a context makes the case inconclusive",
			"outputs returned together with an accepted error are not judged (the statement is silent on them)",
			"a blocked call is decided by the quiescence detector, not by a time-out",
		},
		Run: run,
	})
}

// ---------------------------------------------------------------------------------------------
// observation

type attemptObs struct {
	idx  int
	plan *attemptPlan
	msg  *message.Message

	// handler boundary
	enter, ret uint64
	returned   bool
	snap       vlib.MsgSnap // message value at the instant the handler returned
	outs       []*message.Message
	err        error
	reason     string // err.Error() at that instant
	accept     bool   // filter predicate on err at that instant

	// spy boundary: what the poison middleware returned
	gotSet  bool
	gotOuts []*message.Message
	gotErr  error
	after   vlib.MsgSnap
	spyRet  uint64
	// ... or that it did not return: a panic left it (the spy passes it on)
	gotPanic     bool
	gotPanicText string

	// '+panics': the handler panicked instead of returning / the filter panicked when asked about this failure
	hPanic    bool
	fPanicked bool

	// poison publisher boundary
	calls []*vlib.PubCall

	// filter boundary: the answers the filter gave while this invocation's error was being decided
	answers []bool
}

type msgState struct {
	plan      *msgPlan
	attempts  []*attemptObs
	copies    []*message.Message // router mode: the copies the subscriber emitted
	inherited *names             // 'router+inherited': what the Router's accessors read from the context the message arrived with
	acked     bool               // router mode: Deliver's verdict
}

type names struct{ Topic, Handler, Subscriber string }

type world struct {
	mu          sync.Mutex
	msgs        map[string]*msgState
	order       []*msgState
	pred        func(error) bool
	inflight    *attemptObs // stand-alone: the only attempt in flight
	standalone  bool
	stray       []string
	filterCalls int
	panics      []string
	sent        error // the case's sentinel error (a possible panic value)

	expectedPanicsStandalone int // stand-alone: drawn panics (publisher / handler / filter) that reached the caller

	// filters with memory (classes '+stateful'): the expected verdict is what the filter answered
	stateful           bool
	filterNilErr       int // filter calls with a nil error
	filterUnattributed int // filter calls while no handler invocation was between "handler returned" and "middleware returned"
	filterAmbiguous    int // filter calls that could belong to more than one handler invocation

	up *upstream // 'router+inherited': the upstream handlers
}

// current returns the latest attempt of the message with this UUID (caller holds mu).
func (w *world) current(uuid string) *attemptObs {
	if w.standalone {
		return w.inflight
	}
	ms := w.msgs[uuid]
	if ms == nil || len(ms.attempts) == 0 {
		return nil
	}
	return ms.attempts[len(ms.attempts)-1]
}

// handler is the scripted handler (innermost).
func (w *world) handler(msg *message.Message) ([]*message.Message, error) {
	enter := vlib.Now()
	w.mu.Lock()
	ms := w.msgs[msg.UUID]
	if ms == nil {
		w.stray = append(w.stray, "handler called with unknown UUID "+msg.UUID)
		w.mu.Unlock()
		return nil, nil
	}
	k := len(ms.attempts)
	ap := ms.plan.attempt(k)
	a := &attemptObs{idx: k, plan: ap, msg: msg, enter: enter}
	ms.attempts = append(ms.attempts, a)
	if w.standalone {
		w.inflight = a
	}
	w.mu.Unlock()

	if ap.MutKey != "" {
		msg.Metadata.Set(ap.MutKey, ap.MutVal) // the handler owns the message while it runs
	}
	applyCtx(msg, ms.plan.Ctx, placeHandler, false) // plans are immutable once generated

	w.mu.Lock()
	a.snap = vlib.Snap(msg)
	a.outs = ap.Outs
	a.err = ap.Err
	if ap.Err != nil {
		a.reason = ap.Err.Error()
		if !w.stateful {
			a.accept = w.pred(ap.Err) // pure filters: the reference verdict
		}
		if t, ok := ap.Err.(*tagErr); ok {
			t.obs = a
		}
	}
	if ap.HPanicK != "" {
		a.hPanic, a.err, a.reason = true, nil, ""
	}
	a.returned = true
	a.ret = vlib.Now()
	w.mu.Unlock()
	if ap.HPanicK != "" {
		raise(ap.HPanicK, ap.HPanicTxt, w.sent, errors.New("handler panic "+ap.HPanicTxt))
	}
	return ap.Outs, ap.Err
}

// spy is the harness middleware placed directly outside the poison middleware.
func (w *world) spy(h message.HandlerFunc) message.HandlerFunc {
	return func(msg *message.Message) ([]*message.Message, error) {
		completed := false
		defer func() {
			if completed {
				return
			}
			// the poison middleware did not return: a panic is passing through (recorded and passed on unchanged)
			p := recover()
			w.mu.Lock()
			if a := w.current(msg.UUID); a != nil && !a.gotSet {
				a.gotSet, a.gotPanic, a.gotPanicText = true, true, panicText(p)
				a.after = vlib.Snap(msg)
				a.spyRet = vlib.Now()
			} else {
				w.stray = append(w.stray, "poison middleware panicked for "+msg.UUID+" without a (fresh) handler invocation: "+panicText(p))
			}
			w.mu.Unlock()
			if p != nil {
				panic(p)
			}
		}()
		outs, err := h(msg)
		completed = true
		w.mu.Lock()
		if a := w.current(msg.UUID); a != nil && !a.gotSet {
			a.gotSet, a.gotOuts, a.gotErr = true, outs, err
			a.after = vlib.Snap(msg)
			a.spyRet = vlib.Now()
		} else {
			w.stray = append(w.stray, "poison middleware returned for "+msg.UUID+" without a (fresh) handler invocation")
		}
		w.mu.Unlock()
		return outs, err
	}
}

// filter wraps the predicate handed to PoisonQueueWithFilter. How often it is called is counted, not
// judged; every answer is recorded with the handler invocation whose error it decides (a filter with
// memory - its state is guarded by mu - need not answer the same way twice).
func (w *world) filter(err error) bool {
	w.mu.Lock()
	defer w.mu.Unlock()
	w.filterCalls++
	if err == nil {
		w.filterNilErr++
	}
	if fa := w.filterPanicOwner(err); fa != nil && !fa.fPanicked {
		fa.fPanicked = true
		raise(fa.plan.FPanicK, fa.plan.FPanicTxt, w.sent, err) // mu is released by the deferred Unlock
	}
	a := w.attributeFilterCall(err)
	ans := w.pred(err)
	if a != nil {
		a.answers = append(a.answers, ans)
	}
	return ans
}

// filterPanicOwner finds the handler invocation whose drawn fault is "the filter panics when asked about this
// failure" (caller holds mu): stand-alone the only invocation in flight, else the owner of the tagged error.
func (w *world) filterPanicOwner(err error) *attemptObs {
	var a *attemptObs
	var t *tagErr
	switch {
	case w.standalone:
		a = w.inflight
	case err != nil && errors.As(err, &t):
		a = t.obs
	}
	if a == nil || a.plan.FPanicK == "" || !a.returned || a.gotSet {
		return nil
	}
	return a
}

// attribute finds the attempt a Publish call belongs to (caller holds mu).
func (w *world) attribute(msgs []*message.Message) *attemptObs {
	if w.standalone {
		return w.inflight
	}
	for _, m := range msgs {
		if m == nil {
			continue
		}
		if a := w.current(m.UUID); a != nil {
			return a
		}
	}
	return nil
}

func (w *world) poisonPub(name string) *vlib.Pub {
	p := &vlib.Pub{Name: name}
	p.OnPublish = func(c *vlib.PubCall) {
		w.mu.Lock()
		defer w.mu.Unlock()
		a := w.attribute(c.Msgs)
		if a == nil {
			u := "<no message>"
			if len(c.Snaps) > 0 {
				u = c.Snaps[0].UUID
			}
			w.stray = append(w.stray, fmt.Sprintf("Publish(%q) of UUID %q which is not a message in flight", c.Topic, u))
			return
		}
		// settlement of the consumed message sampled inside the Publish call
		c.Sampled["settled"] = vlib.Settled(a.msg)
		if !a.returned {
			c.Sampled["before_handler_returned"] = "1"
		}
		a.calls = append(a.calls, c)
	}
	p.Script = func(no int, topic string, msgs []*message.Message) error {
		w.mu.Lock()
		defer w.mu.Unlock()
		a := w.attribute(msgs)
		if a != nil && a.plan.PubPanicK != "" {
			raise(a.plan.PubPanicK, a.plan.PubPanicTxt, w.sent, a.err) // mu is released by the deferred Unlock
		}
		if a != nil && a.plan.PubFail {
			return a.plan.PubErr
		}
		return nil
	}
	return p
}

// ---------------------------------------------------------------------------------------------
// case

type config struct {
	Mode         string    `json:"mode"`
	Variant      string    `json:"variant,omitempty"` // "" (base classes) | "ctx" | "shared"
	Filter       string    `json:"filter"`
	PoisonTopic  string    `json:"poison_topic"`
	Reg          string    `json:"registration,omitempty"`
	Concurrent   bool      `json:"concurrent,omitempty"`
	CtxValues    bool      `json:"foreign_ctx_values,omitempty"`
	FilterParam  string    `json:"filter_param,omitempty"`        // '+stateful': parameters of the filter with memory
	TaggedErrs   bool      `json:"tagged_errors,omitempty"`       // '+stateful', '+panics': every planned error is wrapped in a per-attempt *tagErr
	Recoverer    bool      `json:"recoverer_outermost,omitempty"` // 'router+panics': middleware.Recoverer above everything (a panic reaches the Router as an error)
	Handlers     []hcfg    `json:"handlers,omitempty"`
	Life         *lifePlan `json:"lifecycle,omitempty"`                 // 'router+lifecycle': the history of the Router before / between the deliveries
	Up           []upcfg   `json:"upstream_handlers,omitempty"`         // 'router+inherited'
	UpSameRouter bool      `json:"upstream_in_judged_router,omitempty"` // 'router+inherited'
}

type hcfg struct {
	Name, Topic, Sub string
	WithPublisher    bool
	SubKind          string `json:",omitempty"` // how the Router names the subscriber: stringer | empty-stringer | ptr-type | value-type
	PubKind          string `json:",omitempty"` // 'router+names': stringer | empty-stringer | ptr-type | value-type | none | empty-publish-topic
	SubOf            int    // index of the handler whose subscriber object this one uses (its own index = its own)
	Life             *lifeH `json:",omitempty"` // 'router+lifecycle': when it is registered / started / stopped
}

const (
	regRouter  = "router-level"
	regHandler = "handler-level"
	regShared  = "shared-wrapped-func"
)

func run(e *vlib.Env) vlib.Result {
	r := e.R
	legacyN := vlib.TierN(e.Tier, legacyQuick, legacyThorough)
	ext := e.Idx >= legacyN
	r4 := e.Idx >= legacyN+vlib.TierN(e.Tier, extQuick, extThorough)
	r5 := e.Idx >= legacyN+vlib.TierN(e.Tier, extQuick, extThorough)+vlib.TierN(e.Tier, r4Quick, r4Thorough)
	r6 := e.Idx >= legacyN+vlib.TierN(e.Tier, extQuick, extThorough)+vlib.TierN(e.Tier, r4Quick, r4Thorough)+vlib.TierN(e.Tier, r5Quick, r5Thorough)
	r7 := e.Idx >= legacyN+vlib.TierN(e.Tier, extQuick, extThorough)+vlib.TierN(e.Tier, r4Quick, r4Thorough)+vlib.TierN(e.Tier, r5Quick, r5Thorough)+vlib.TierN(e.Tier, r6Quick, r6Thorough)
	r8 := e.Idx >= legacyN+vlib.TierN(e.Tier, extQuick, extThorough)+vlib.TierN(e.Tier, r4Quick, r4Thorough)+vlib.TierN(e.Tier, r5Quick, r5Thorough)+vlib.TierN(e.Tier, r6Quick, r6Thorough)+vlib.TierN(e.Tier, r7Quick, r7Thorough)
	cfg := config{Mode: "standalone", Filter: filterKinds[r.Intn(len(filterKinds))]}
	stateful := false
	if !ext {
		if e.Idx%2 == 1 {
			cfg.Mode = "router"
		}
	} else if r8 {
		cfg.Mode, cfg.Variant, cfg.CtxValues = "router", "inherited", r.Chance(0.2)
	} else if r7 {
		cfg.Variant, cfg.CtxValues, cfg.TaggedErrs = "panics", r.Chance(0.15), r.Bool()
		if e.Idx%2 == 1 {
			cfg.Mode, cfg.Recoverer = "router", r.Chance(0.25)
		}
	} else if r6 {
		cfg.Mode, cfg.Variant, cfg.CtxValues = "router", "refused", r.Chance(0.2)
	} else if r5 {
		cfg.Mode, cfg.Variant, cfg.CtxValues = "router", "lifecycle", r.Chance(0.25)
	} else if r4 {
		switch e.Idx % 3 {
		case 0:
			cfg.Mode, cfg.Variant, cfg.CtxValues = "router", "names", r.Chance(0.3)
		case 1:
			cfg.Variant, stateful = "stateful", true
		default:
			cfg.Mode, cfg.Variant, stateful = "router", "stateful", true
		}
		if stateful {
			cfg.Filter = statefulKinds[r.Intn(len(statefulKinds))]
			cfg.TaggedErrs = r.Bool()
		}
	} else {
		switch (e.Idx - legacyN) % 3 {
		case 0:
			cfg.Variant, cfg.CtxValues = "ctx", true
		case 1:
			cfg.Mode, cfg.Variant = "router", "shared"
		default:
			cfg.Mode, cfg.Variant, cfg.CtxValues = "router", "ctx", true
		}
	}
	cfg.PoisonTopic = e.ID() + "-poison-" + r.UTF8(5)
	res := vlib.Result{Class: cfg.Mode + "/" + cfg.Filter}
	if ext {
		res.Class = cfg.Mode + "+" + cfg.Variant + "/" + cfg.Filter
	}

	sent := errors.New(e.ID() + " sentinel")
	w := &world{msgs: map[string]*msgState{}, standalone: cfg.Mode == "standalone", stateful: stateful, sent: sent}
	if stateful {
		w.pred, cfg.FilterParam = statefulPredicate(cfg.Filter, r, sent)
	} else {
		w.pred = predicate(cfg.Filter, sent, e.ID())
	}

	ppub := w.poisonPub(e.ID() + "-ppub")
	var pq message.HandlerMiddleware
	var err error
	if cfg.Filter == "default" {
		pq, err = middleware.PoisonQueue(ppub, cfg.PoisonTopic)
	} else {
		pq, err = middleware.PoisonQueueWithFilter(ppub, cfg.PoisonTopic, w.filter)
	}
	if err != nil || pq == nil {
		res.Fail("constructor", "constructor rejected the non-empty topic %q: %v", cfg.PoisonTopic, err)
		return res
	}

	nh := 1
	if cfg.Variant == "lifecycle" || cfg.Variant == "refused" {
		genLifecycle(r, e.ID(), &cfg)
		nh = len(cfg.Handlers)
		if cfg.Variant == "refused" {
			genRefused(r, &cfg)
		}
	} else if cfg.Mode == "router" {
		nh = r.Range(1, 2)
		cfg.Reg = []string{regRouter, regHandler}[r.Intn(2)]
		cfg.Concurrent = r.Bool()
		if ext {
			nh = r.Range(1, 3)
		}
		if cfg.Variant == "shared" {
			nh, cfg.Reg, cfg.CtxValues = r.Range(2, 3), regShared, r.Bool()
		}
		for i := 0; i < nh; i++ {
			cfg.Handlers = append(cfg.Handlers, hcfg{
				Name:          fmt.Sprintf("%s-h%d-%s", e.ID(), i, r.UTF8(4)),
				Topic:         fmt.Sprintf("%s-t%d-%s", e.ID(), i, r.UTF8(4)),
				Sub:           fmt.Sprintf("%s-s%d-%s", e.ID(), i, r.UTF8(3)),
				WithPublisher: r.Chance(0.6),
				SubOf:         i,
			})
		}
		if ext {
			// topology: how the Router names the subscribers; one subscriber or one topic shared by two handlers
			for i := range cfg.Handlers {
				hc := &cfg.Handlers[i]
				hc.SubKind = subKinds[r.Intn(len(subKinds))]
				if cfg.Variant == "names" {
					hc.SubKind = namesSubKinds[r.Intn(len(namesSubKinds))]
					hc.PubKind = namesPubKinds[r.Intn(len(namesPubKinds))]
					hc.WithPublisher = hc.PubKind != pubNone
				}
				if i > 0 {
					switch r.Intn(5) {
					case 0: // same subscriber object as handler 0, another topic
						hc.SubOf, hc.Sub, hc.SubKind = 0, cfg.Handlers[0].Sub, cfg.Handlers[0].SubKind
					case 1: // same topic as handler 0, another subscriber
						hc.Topic = cfg.Handlers[0].Topic
					}
				}
			}
		}
		if cfg.Variant == "names" {
			// handler names are unique, so at most one handler is the anonymous one; at most one consumes the topic ""
			if r.Chance(0.55) {
				cfg.Handlers[r.Intn(nh)].Name = ""
			}
			if r.Chance(0.2) {
				cfg.Handlers[r.Intn(nh)].Topic = ""
			}
		}
		if stateful && !cfg.TaggedErrs {
			// untagged errors (shared sentinels ...): one failure at a time, so that every answer of the filter has one owner
			cfg.Concurrent = false
		}
	}
	allowOuts := func(h int) bool { return cfg.Mode == "standalone" || h < 0 || cfg.Handlers[h].WithPublisher }

	// names the poison metadata has to carry, per handler; realNames feeds the foreign context values
	var nm []names
	realNames := []string{e.ID() + "-some-handler", e.ID() + "-some-topic", "app.Consumer"}
	if cfg.Mode == "standalone" {
		nm = []names{{}}
	} else {
		for _, h := range cfg.Handlers {
			_, subName := wrapSub(h.SubKind, &vlib.Sub{Name: h.Sub})
			nm = append(nm, names{Topic: h.Topic, Handler: h.Name, Subscriber: subName})
			realNames = append(realNames, h.Topic, h.Name, subName)
		}
	}

	nmsg := r.Range(1, 6)
	if cfg.Variant == "shared" {
		nmsg = r.Range(nh, 6)
	}
	if cfg.Life != nil {
		nmsg = r.Range(2, 4+nh/2)
	}
	for i := 0; i < nmsg; i++ {
		force := -2
		if cfg.Variant == "shared" && i < nh {
			force = i // every handler that shares the wrapped function gets a message
		}
		at := 0
		if cfg.Life != nil {
			force, at = cfg.lifeTarget(r, i) // a handler covered by the PoisonQueue, at an instant of the history at which it runs
			if cfg.Variant == "refused" && i >= 1 && r.Chance(0.6) {
				// ... preferably one that a refused call names, after that call
				if h, a, ok := cfg.refusedTarget(r); ok {
					force, at = h, a
				}
			}
		}
		p := genMsg(r, e.ID(), i, sent, nh, force, allowOuts)
		p.At = at
		if cfg.Variant == "panics" {
			// a panicking filter needs an owner: stand-alone the invocation in flight, in a Router the tagged error's
			genPanics(r, p, sent, w.pred, cfg.Filter != "default" && (cfg.Mode == "standalone" || cfg.TaggedErrs))
		}
		if cfg.TaggedErrs {
			for k := range p.Attempts {
				if ap := &p.Attempts[k]; ap.Err != nil {
					ap.Err = &tagErr{inner: ap.Err, tag: fmt.Sprintf("%s-a%d", p.UUID, k)}
				}
			}
		}
		ms := &msgState{plan: p}
		w.msgs[p.UUID] = ms
		w.order = append(w.order, ms)
	}
	if cfg.Variant == "shared" {
		shuffled := make([]*msgState, 0, len(w.order))
		for _, i := range r.Perm(len(w.order)) {
			shuffled = append(shuffled, w.order[i])
		}
		w.order = shuffled
		if r.Chance(0.35) {
			// the same wrapped function is also fed directly, with messages that never went through the Router
			for i, n := 0, r.Range(1, 2); i < n; i++ {
				p := genMsg(r, e.ID(), nmsg+i, sent, nh, -1, allowOuts)
				ms := &msgState{plan: p}
				w.msgs[p.UUID] = ms
				at := r.Intn(len(w.order) + 1)
				w.order = append(w.order, nil)
				copy(w.order[at+1:], w.order[at:])
				w.order[at] = ms
			}
		}
	}
	if ext {
		for _, ms := range w.order {
			p := ms.plan
			if r.Chance(0.25) {
				// metadata (not context) keys spelled like the Router's context keys: ordinary metadata
				for i, n := 0, r.Range(1, 2); i < n; i++ {
					p.Metadata[routerKeySpellings[r.Intn(len(routerKeySpellings))]] = r.UTF8(6)
				}
			}
			if cfg.CtxValues {
				places := []string{placeEmit, placeOuterMW, placeInnerMW, placeInnerMW, placeHandler, placeHandler}
				if cfg.Mode == "router" && p.Handler >= 0 {
					places = append(places, placeDecorator, placeDecorator)
				}
				p.Ctx = genCtxPlan(r, places, realNames)
			}
		}
	}

	if cfg.Variant == "inherited" {
		genInherited(r, e.ID(), &cfg, w.order)
	}

	if cfg.Mode == "standalone" {
		runStandalone(&res, w, pq, &cfg)
	} else if cfg.Life != nil {
		runLifecycle(&res, w, pq, &cfg)
	} else {
		runRouter(&res, w, pq, &cfg)
	}

	w.mu.Lock()
	defer w.mu.Unlock()
	ppub.Calls() // synchronises with every finished Publish call
	judge(&res, w, &cfg, nm)
	describe(&res, w, &cfg)
	return res
}

// chain builds the function under test: spy directly outside the poison middleware, the scripted
// handler innermost; with foreign context values, the application's context middlewares above and below.
func (w *world) chain(pq message.HandlerMiddleware, cfg *config) message.HandlerFunc {
	if !cfg.CtxValues {
		return w.spy(pq(w.handler))
	}
	return w.ctxMiddleware(placeOuterMW)(w.spy(pq(w.ctxMiddleware(placeInnerMW)(w.handler))))
}

// callDirect invokes the chain on one message the way a retrying caller would: the same *Message
// again until nil is returned or the plan ends. (Stand-alone: one call at a time, w.inflight.)
func (w *world) callDirect(h message.HandlerFunc, ms *msgState) {
	msg := ms.plan.build()
	applyCtx(msg, ms.plan.Ctx, placeEmit, false)
	for k := 0; k < len(ms.plan.Attempts); k++ {
		var err error
		func() {
			defer func() {
				if p := recover(); p != nil {
					// a drawn panic (publisher / handler / filter) that reaches the caller is a reported failure;
					// any other panic is the middleware's
					w.mu.Lock()
					if a := w.inflight; a != nil && a.panicExpected() {
						w.expectedPanicsStandalone++
					} else {
						w.panics = append(w.panics, fmt.Sprintf("message %s attempt %d: %s", ms.plan.UUID, k, panicText(p)))
					}
					w.mu.Unlock()
					err = fmt.Errorf("panic")
				}
			}()
			_, err = h(msg)
		}()
		w.mu.Lock()
		w.inflight = nil
		w.mu.Unlock()
		if err == nil {
			break
		}
	}
}

// runStandalone drives spy(pq(handler)) directly: every message is retried on the same *Message
// (as a Retry middleware or a redelivering caller would) until nil is returned or the plan ends.
func runStandalone(res *vlib.Result, w *world, pq message.HandlerMiddleware, cfg *config) {
	h := w.chain(pq, cfg)
	done := make(chan struct{})
	go func() {
		defer close(done)
		for _, ms := range w.order {
			w.callDirect(h, ms)
		}
	}()
	switch oc, dump := vlib.WaitClosed(done, vlib.WD); oc {
	case vlib.Stuck:
		res.Fail("blocked", "the poison middleware never returned (process quiescent)")
		res.Witness = dump
	case vlib.Inconclusive:
		res.Inconclusive("stand-alone workload did not finish before the watchdog")
	}
}

// deliverWith is Subscription.Deliver with a hook on every emitted copy: copies of orig (context =
// subscription context, then whatever the emitter stores in it) are emitted until one is acked,
// redelivering after each Nack like a broker, at most maxRedeliver extra times.
func deliverWith(sp *vlib.Subscription, orig *message.Message, maxRedeliver int, prep func(*message.Message)) (copies []*message.Message, acked bool) {
	for n := 0; ; n++ {
		c := orig.Copy()
		c.SetContext(sp.Ctx)
		prep(c)
		if !sp.Send(c) {
			return copies, false
		}
		copies = append(copies, c)
		select {
		case <-c.Acked():
			return copies, true
		case <-c.Nacked():
			if n >= maxRedeliver {
				return copies, false
			}
		case <-sp.Ended():
			return copies, false
		}
	}
}

// runRouter runs the middleware inside a real Router behind scripted subscribers.
func runRouter(res *vlib.Result, w *world, pq message.HandlerMiddleware, cfg *config) {
	router, err := message.NewRouter(message.RouterConfig{}, watermill.NopLogger{})
	if err != nil {
		res.Inconclusive("NewRouter: %v", err)
		return
	}
	mws := []message.HandlerMiddleware{w.spy, pq} // first added = outermost
	if cfg.CtxValues {
		mws = []message.HandlerMiddleware{w.ctxMiddleware(placeOuterMW), w.spy, pq, w.ctxMiddleware(placeInnerMW)}
		// runs after the Router's own decorator that stores the handler's names in the context
		router.AddSubscriberDecorators(w.ctxDecorator())
	}
	if cfg.Recoverer {
		mws = append([]message.HandlerMiddleware{middleware.Recoverer}, mws...)
	}
	if cfg.Reg == regRouter {
		router.AddMiddleware(mws...)
	}
	// regShared: ONE wrapped function for all handlers (a HandlerMiddleware is a plain func(HandlerFunc) HandlerFunc)
	var guarded message.HandlerFunc
	if cfg.Reg == regShared {
		guarded = w.chain(pq, cfg)
	}
	if cfg.Variant == "inherited" {
		w.up = &upstream{cfg: cfg, take: map[string]string{}, got: map[string]context.Context{}}
		if cfg.UpSameRouter {
			w.up.addTo(router)
		} else {
			defer w.up.close()
			if !w.up.start() {
				res.Inconclusive("upstream router did not start")
				return
			}
		}
	}
	subs := make([]*vlib.Sub, len(cfg.Handlers))
	msubs := make([]message.Subscriber, len(cfg.Handlers))
	outPubs := make([]*vlib.Pub, len(cfg.Handlers))
	for i, hc := range cfg.Handlers {
		if hc.SubOf != i {
			subs[i], msubs[i] = subs[hc.SubOf], msubs[hc.SubOf]
		} else {
			subs[i] = &vlib.Sub{Name: hc.Sub}
			msubs[i], _ = wrapSub(hc.SubKind, subs[i])
		}
		hf := message.HandlerFunc(w.handler)
		if guarded != nil {
			hf = guarded
		}
		var h *message.Handler
		if hc.WithPublisher {
			outPubs[i] = &vlib.Pub{Name: hc.Name + "-out"}
			outTopic := hc.Topic + "-out"
			if hc.PubKind == pubEmptyTopic {
				outTopic = ""
			}
			h = router.AddHandler(hc.Name, hc.Topic, msubs[i], outTopic, wrapPub(hc.PubKind, outPubs[i]), hf)
		} else {
			h = router.AddNoPublisherHandler(hc.Name, hc.Topic, msubs[i], func(msg *message.Message) error {
				_, err := hf(msg)
				return err
			})
		}
		if cfg.Reg == regHandler {
			h.AddMiddleware(mws...)
		}
	}
	ctx, cancel := context.WithCancel(context.Background())
	defer cancel()
	runDone := make(chan struct{})
	go func() {
		defer close(runDone)
		_ = router.Run(ctx)
	}()
	closeRouter := func() {
		closed := make(chan struct{})
		go func() {
			defer close(closed)
			router.Close()
		}()
		if oc, _ := vlib.WaitClosed(closed, vlib.WD); oc != vlib.Done {
			res.Inconclusive("Router.Close did not return (%v)", oc)
			return
		}
		if oc, _ := vlib.WaitClosed(runDone, vlib.WD); oc != vlib.Done {
			res.Inconclusive("Router.Run did not return after Close (%v)", oc)
		}
	}
	if oc, _ := vlib.WaitUntil(func() bool { return vlib.IsClosed(router.Running()) || vlib.IsClosed(runDone) }, vlib.WD); oc != vlib.Done || vlib.IsClosed(runDone) {
		res.Inconclusive("router did not start (%v)", oc)
		closeRouter()
		return
	}
	sps := make([]*vlib.Subscription, len(cfg.Handlers))
	for i, hc := range cfg.Handlers {
		if sps[i] = subs[i].SubFor(hc.Topic); sps[i] == nil {
			res.Inconclusive("router did not subscribe to %q", hc.Topic)
			closeRouter()
			return
		}
	}

	deliver := func(ms *msgState) {
		if ms.plan.Handler < 0 {
			w.callDirect(guarded, ms) // no Router, no settlement
			return
		}
		var copies []*message.Message
		var acked bool
		if cfg.Variant == "" {
			copies, acked = sps[ms.plan.Handler].Deliver(ms.plan.build(), len(ms.plan.Attempts)-1)
		} else if ms.plan.Inherit != nil {
			ictx, ok := w.up.travel(ms)
			if !ok {
				return // recorded by the upstream: the case is inconclusive
			}
			in := inheritedNames(ictx)
			w.mu.Lock()
			ms.inherited = &in
			w.mu.Unlock()
			copies, acked = deliverInherited(sps[ms.plan.Handler], ms, ictx, len(ms.plan.Attempts)-1, func(c *message.Message) {
				applyCtx(c, ms.plan.Ctx, placeEmit, false)
			})
		} else {
			copies, acked = deliverWith(sps[ms.plan.Handler], ms.plan.build(), len(ms.plan.Attempts)-1, func(c *message.Message) {
				applyCtx(c, ms.plan.Ctx, placeEmit, false)
			})
		}
		w.mu.Lock()
		ms.copies, ms.acked = copies, acked
		w.mu.Unlock()
	}
	done := make(chan struct{})
	go func() {
		defer close(done)
		if !cfg.Concurrent {
			for _, ms := range w.order {
				deliver(ms)
			}
			return
		}
		var wg sync.WaitGroup
		for _, ms := range w.order {
			wg.Add(1)
			go func(ms *msgState) {
				defer wg.Done()
				deliver(ms)
			}(ms)
		}
		wg.Wait()
	}()
	switch oc, dump := vlib.WaitClosed(done, vlib.WD); oc {
	case vlib.Stuck:
		res.Fail("unsettled", "a delivered message was never acked nor nacked (process quiescent)")
		res.Witness = dump
	case vlib.Inconclusive:
		res.Inconclusive("router workload did not finish before the watchdog")
	}
	closeRouter()
	if oc, _ := vlib.WaitClosed(done, vlib.WD); oc != vlib.Done && !res.Failed() {
		res.Inconclusive("delivery goroutines did not finish after the router was closed")
	}
	for _, p := range outPubs {
		if p != nil {
			res.Count("output_publishes", len(p.Calls()))
		}
	}
}
