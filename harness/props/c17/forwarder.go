package c17

import (
	"context"
	"encoding/base64"
	"encoding/json"
	"fmt"
	"strings"
	"sync/atomic"
	"time"

	"github.com/ThreeDotsLabs/watermill"
	"github.com/ThreeDotsLabs/watermill/components/forwarder"
	"github.com/ThreeDotsLabs/watermill/message"

	"verifharness/vlib"
)

const defaultForwarderTopic = "forwarder_topic" // documented default of forwarder.Config / PublisherConfig

// refEnvelope is the harness's own reading of the envelope format (used only to make sure that a
// generated "malformed" payload really is not a decodable envelope with a destination).
type refEnvelope struct {
	DestinationTopic string            `json:"destination_topic"`
	UUID             string            `json:"uuid"`
	Payload          []byte            `json:"payload"`
	Metadata         map[string]string `json:"metadata"`
}

func decodable(b []byte) bool {
	var env refEnvelope
	return json.Unmarshal(b, &env) == nil && env.DestinationTopic != ""
}

func jstr(s string) string {
	b, _ := json.Marshal(s)
	return string(b)
}

func ws(r *vlib.Rand) string {
	return []string{"", "", " ", "\n", "\t ", "  "}[r.Intn(6)]
}

// handEnvelope writes an envelope by hand: all four fields, random key order and whitespace.
func handEnvelope(r *vlib.Rand, dest string, m *message.Message) []byte {
	meta := "{"
	i := 0
	for k, v := range m.Metadata {
		if i > 0 {
			meta += ","
		}
		meta += ws(r) + jstr(k) + ws(r) + ":" + ws(r) + jstr(v)
		i++
	}
	meta += ws(r) + "}"
	pay := "null"
	if m.Payload != nil {
		pay = jstr(base64.StdEncoding.EncodeToString(m.Payload))
	}
	fields := []string{
		jstr("destination_topic") + ws(r) + ":" + ws(r) + jstr(dest),
		jstr("uuid") + ws(r) + ":" + ws(r) + jstr(m.UUID),
		jstr("payload") + ws(r) + ":" + ws(r) + pay,
		jstr("metadata") + ws(r) + ":" + ws(r) + meta,
	}
	out := ws(r) + "{"
	for n, p := range r.Perm(len(fields)) {
		if n > 0 {
			out += ","
		}
		out += ws(r) + fields[p]
	}
	return []byte(out + ws(r) + "}" + ws(r))
}

var malformedKinds = []string{"random-bytes", "empty", "truncated", "non-object", "no-destination", "empty-destination", "null-destination", "ill-typed", "bad-base64", "trailing-garbage", "two-envelopes"}

// malformedEnvelope returns a payload that is not a valid forwarder envelope, by construction.
func malformedEnvelope(e *vlib.Env, no int) ([]byte, string) {
	r := e.R
	inner := genMsg(e, no, false)
	good := map[string]any{"destination_topic": e.ID() + "/never", "uuid": inner.UUID, "payload": inner.Payload, "metadata": map[string]string(inner.Metadata)}
	kind := malformedKinds[r.Intn(len(malformedKinds))]
	var b []byte
	switch kind {
	case "random-bytes":
		for {
			b = r.Bytes(r.Range(1, 48))
			if !json.Valid(b) {
				break
			}
		}
	case "empty":
		if r.Bool() {
			b = []byte{}
		}
	case "truncated":
		full, _ := json.Marshal(good)
		b = full[:r.Intn(len(full))] // every proper prefix of a JSON object is invalid JSON
	case "non-object":
		b = []byte([]string{"null", "[]", "5", "true", `"destination_topic"`, `["destination_topic","t"]`, "{}"}[r.Intn(7)])
	case "no-destination":
		delete(good, "destination_topic")
		if r.Bool() {
			good["destination"] = e.ID() + "/never"
			good["topic"] = e.ID() + "/never"
		}
		b, _ = json.Marshal(good)
	case "empty-destination":
		good["destination_topic"] = ""
		b, _ = json.Marshal(good)
	case "null-destination":
		good["destination_topic"] = nil
		b, _ = json.Marshal(good)
	case "ill-typed":
		switch r.Intn(4) {
		case 0:
			good["destination_topic"] = 5
		case 1:
			good["destination_topic"] = []string{e.ID() + "/never"}
		case 2:
			good["metadata"] = map[string]any{"a": 1}
		default:
			good["uuid"] = map[string]any{"x": "y"}
		}
		b, _ = json.Marshal(good)
	case "bad-base64":
		good["payload"] = "!!! not base64 !!!"
		b, _ = json.Marshal(good)
	case "trailing-garbage":
		// a complete, valid envelope followed by something else: the payload as a whole is not a JSON document
		full, _ := json.Marshal(good)
		b = append(full, []byte([]string{"x", "}", " {", "\n[1]", "null", ",", "\"t\""}[r.Intn(7)])...)
	case "two-envelopes":
		full, _ := json.Marshal(good)
		good["uuid"] = inner.UUID + "-second"
		second, _ := json.Marshal(good)
		b = append(append(full, ws(r)...), second...)
	}
	if decodable(b) {
		// cannot happen for the kinds above; keep the oracle sound anyway
		b, kind = []byte("{"), "truncated"
	}
	return b, kind
}

func runForwarder(e *vlib.Env) vlib.Result {
	r := e.R
	res := vlib.Result{}
	ackCU := r.Bool()
	res.Class = "forwarder/nack-cannot-unwrap"
	if ackCU {
		res.Class = "forwarder/ack-cannot-unwrap"
	}
	ctl := vlib.NewCtl(r.Uint64(), 0.15, 30)
	defer ctl.Uninstall()

	fwdTopic := ""
	if r.Chance(0.6) {
		fwdTopic = genTopics(e, "fwd", 1, false)[0]
	}
	eff := fwdTopic
	if eff == "" {
		eff = defaultForwarderTopic
	}
	destTopics := genTopics(e, "dst", r.Range(1, 4), false)

	// stage 1: publish through forwarder.Publisher into an outbox, collect the envelopes
	outbox := &vlib.Pub{Name: e.ID() + ".outbox"}
	fp := forwarder.NewPublisher(outbox, forwarder.PublisherConfig{ForwarderTopic: fwdTopic})
	var msgs []*relayMsg
	no := 0
	nValid := r.Range(2, 8)
	for produced := 0; produced < nValid; {
		batch := r.Range(1, 3)
		if batch > nValid-produced {
			batch = nValid - produced
		}
		topic := destTopics[r.Intn(len(destTopics))]
		var orig []*message.Message
		for i := 0; i < batch; i++ {
			m := genMsg(e, no, false)
			if r.Chance(0.06) {
				m = &message.Message{UUID: m.UUID, Payload: m.Payload} // built without the constructor: nil metadata
			}
			orig = append(orig, m)
			no++
		}
		before := len(outbox.Calls())
		err := fp.Publish(topic, orig...)
		calls := outbox.Calls()[before:]
		if err != nil || len(calls) != 1 || calls[0].Topic != eff || len(calls[0].Msgs) != len(orig) {
			got := "no call"
			if len(calls) > 0 {
				got = fmt.Sprintf("%d call(s), first on topic %q with %d messages", len(calls), calls[0].Topic, len(calls[0].Msgs))
			}
			res.Fail("publisher-envelope", "forwarder.Publisher(ForwarderTopic=%q).Publish(%q, %d msgs) returned %v and made %s; want one Publish of %d envelopes on %q", fwdTopic, topic, len(orig), err, got, len(orig), eff)
			return res
		}
		for i, env := range calls[0].Msgs {
			rm := &relayMsg{Kind: "envelope", SrcTopic: eff, Orig: env, Valid: true, WantTopic: topic, Want: vlib.Snap(orig[i])}
			rm.Plan, rm.MaxRedeliver = genPlan(r)
			msgs = append(msgs, rm)
		}
		produced += batch
	}
	for i, n := 0, r.Intn(2); i < n; i++ {
		inner := genMsg(e, no, false)
		no++
		topic := destTopics[r.Intn(len(destTopics))]
		env := message.NewMessage(fmt.Sprintf("%s-env%d", e.ID(), no), handEnvelope(r, topic, inner))
		rm := &relayMsg{Kind: "handmade", SrcTopic: eff, Orig: env, Valid: true, WantTopic: topic, Want: vlib.Snap(inner)}
		rm.Plan, rm.MaxRedeliver = genPlan(r)
		msgs = append(msgs, rm)
	}
	for i, n := 0, r.Intn(4); i < n; i++ {
		b, kind := malformedEnvelope(e, no)
		no++
		env := message.NewMessage(fmt.Sprintf("%s-bad%d", e.ID(), no), b)
		for k, v := range genMeta(r, false) {
			env.Metadata.Set(k, v)
		}
		msgs = append(msgs, &relayMsg{Kind: "malformed/" + kind, SrcTopic: eff, Orig: env, MaxRedeliver: r.Range(0, 2)})
	}
	perm := r.Perm(len(msgs))
	shuffled := make([]*relayMsg, len(msgs))
	for i, p := range perm {
		shuffled[i] = msgs[p]
		shuffled[i].No = i
	}
	msgs = shuffled

	// stage 2: the Forwarder between the scripted ends
	mon := newMonitor(true)
	src := &vlib.Sub{Name: e.ID() + ".src"}
	dst := &vlib.Pub{Name: e.ID() + ".dst", OnPublish: mon.onPublish, Script: mon.script}
	var mwCalls atomic.Int64
	nMw := r.Intn(3)
	var mws []message.HandlerMiddleware
	for i := 0; i < nMw; i++ {
		mws = append(mws, func(h message.HandlerFunc) message.HandlerFunc {
			return func(m *message.Message) ([]*message.Message, error) {
				mwCalls.Add(1)
				return h(m)
			}
		})
	}
	closeTimeout := []time.Duration{0, 5 * time.Second, time.Minute}[r.Intn(3)]
	cfg := forwarder.Config{ForwarderTopic: fwdTopic, AckWhenCannotUnwrap: ackCU, Middlewares: mws, CloseTimeout: closeTimeout}
	ownRouter := r.Chance(0.3)
	if ownRouter {
		rt, err := message.NewRouter(message.RouterConfig{CloseTimeout: closeTimeout}, watermill.NopLogger{})
		if err != nil {
			res.Inconclusive("NewRouter: %v", err)
			return res
		}
		cfg.Router = rt
	}
	fwd, err := forwarder.NewForwarder(src, dst, watermill.NopLogger{}, cfg)
	if err != nil {
		res.Inconclusive("NewForwarder: %v", err)
		return res
	}
	comp := component{name: "Forwarder", run: func() error { return fwd.Run(context.Background()) }, running: func() bool { return vlib.IsClosed(fwd.Running()) }, stop: func() { fwd.Close() }}
	byTopic := map[string][]*relayMsg{eff: msgs}
	drive(&res, comp, src, mon, []string{eff}, byTopic)
	st := mon.judge(&res, msgs, judgeCfg{component: "Forwarder", ackCannotUnwrap: ackCU})
	fill(&res, st, mon, msgs, false)
	if nMw > 0 {
		res.Count("middleware_calls", int(mwCalls.Load()))
	}
	kinds := map[string]int{}
	for _, rm := range msgs {
		kinds[strings.SplitN(rm.Kind, "/", 2)[0]]++
	}
	res.Sig = vlib.Sig("fwd", ackCU, fwdTopic == "", nMw, ownRouter, closeTimeout, len(destTopics), shapeSig(msgs))
	res.Hooks = ctl.Counts()
	sample := map[string]any{"component": "Forwarder", "config": map[string]any{"ForwarderTopic": fwdTopic, "AckWhenCannotUnwrap": ackCU, "middlewares": nMw, "external_router": ownRouter, "CloseTimeout": closeTimeout.String()},
		"dest_topics": destTopics, "messages": msgTrace(msgs, 8)}
	res.Sample = sample
	if res.Failed() && res.Witness == nil {
		res.Witness = map[string]any{"messages": msgTrace(msgs, 100)}
	}
	return res
}
