package c17

import (
	"context"
	"encoding/base64"
	"encoding/json"
	"fmt"
	"strings"
	"sync"
	"sync/atomic"
	"time"

	"github.com/ThreeDotsLabs/watermill"
	"github.com/ThreeDotsLabs/watermill/components/forwarder"
	"github.com/ThreeDotsLabs/watermill/message"

	"verifharness/vlib"
)

const defaultForwarderTopic = "forwarder_topic" // documented default of forwarder.Config / PublisherConfig

// refEnvelope is the harness's own reading of the envelope format (used only to make sure that a
// generated "malformed" payload really is not a decodable envelope with a destination).
type refEnvelope struct {
	DestinationTopic string            `json:"destination_topic"`
	UUID             string            `json:"uuid"`
	Payload          []byte            `json:"payload"`
	Metadata         map[string]string `json:"metadata"`
}

func decodable(b []byte) bool {
	var env refEnvelope
	return json.Unmarshal(b, &env) == nil && env.DestinationTopic != ""
}

func jstr(s string) string {
	b, _ := json.Marshal(s)
	return string(b)
}

func ws(r *vlib.Rand) string {
	return []string{"", "", " ", "\n", "\t ", "  "}[r.Intn(6)]
}

// handEnvelope writes an envelope by hand: random member order and whitespace. Members named in omit are left
// out; nullUUID writes "uuid":null; a nil payload is written as null (as forwarder.Publisher does), empty metadata
// as {} or null.
func handEnvelope(r *vlib.Rand, dest string, m *message.Message, omit map[string]bool, nullUUID bool) []byte {
	meta := "{"
	i := 0
	for k, v := range m.Metadata {
		if i > 0 {
			meta += ","
		}
		meta += ws(r) + jstr(k) + ws(r) + ":" + ws(r) + jstr(v)
		i++
	}
	meta += ws(r) + "}"
	if len(m.Metadata) == 0 && r.Bool() {
		meta = "null" // what forwarder.Publisher writes for a message with a nil Metadata map
	}
	pay := "null"
	if m.Payload != nil {
		pay = jstr(base64.StdEncoding.EncodeToString(m.Payload))
	}
	uuid := jstr(m.UUID)
	if nullUUID {
		uuid = "null"
	}
	fields := []string{jstr("destination_topic") + ws(r) + ":" + ws(r) + jstr(dest)}
	if !omit["uuid"] {
		fields = append(fields, jstr("uuid")+ws(r)+":"+ws(r)+uuid)
	}
	if !omit["payload"] {
		fields = append(fields, jstr("payload")+ws(r)+":"+ws(r)+pay)
	}
	if !omit["metadata"] {
		fields = append(fields, jstr("metadata")+ws(r)+":"+ws(r)+meta)
	}
	out := ws(r) + "{"
	for n, p := range r.Perm(len(fields)) {
		if n > 0 {
			out += ","
		}
		out += ws(r) + fields[p]
	}
	return []byte(out + ws(r) + "}" + ws(r))
}

// genHandmade draws one hand-written envelope message for destination topic dest.
//
//	"handmade"          all four members (the UUID may be "", the payload null, the metadata {} or null: all of
//	                    which forwarder.Publisher writes itself for such messages): a valid envelope.
//	"handmade-partial"  one or more of uuid/payload/metadata left out, or "uuid":null: see relayMsg.Optional.
func genHandmade(e *vlib.Env, o *odd, no int, eff, dest string) *relayMsg {
	r := e.R
	inner := genMsg(e, no, false)
	o.uuid(r, inner)
	if r.Chance(0.2) {
		inner.Metadata = message.Metadata{}
	}
	rm := &relayMsg{Kind: "handmade", SrcTopic: eff, Valid: true, WantTopic: dest}
	omit := map[string]bool{}
	nullUUID := false
	if r.Chance(0.4) {
		rm.Kind, rm.Optional = "handmade-partial", true
		for len(omit) == 0 && !nullUUID {
			if r.Chance(0.5) {
				if r.Chance(0.3) {
					nullUUID = true
				} else {
					omit["uuid"] = true
				}
			}
			if r.Chance(0.25) {
				omit["payload"] = true
			}
			if r.Chance(0.25) {
				omit["metadata"] = true
			}
		}
	}
	body := handEnvelope(r, dest, inner, omit, nullUUID)
	if omit["uuid"] || nullUUID {
		inner.UUID = ""
	}
	if omit["payload"] {
		inner.Payload = nil
	}
	if omit["metadata"] {
		inner.Metadata = message.Metadata{}
	}
	rm.Want = vlib.Snap(inner)
	rm.Orig = message.NewMessage(fmt.Sprintf("%s-env%d", e.ID(), no), body)
	rm.Plan, rm.MaxRedeliver = genPlan(r)
	return rm
}

var malformedKinds = []string{"random-bytes", "empty", "truncated", "non-object", "no-destination", "empty-destination", "null-destination", "ill-typed", "bad-base64", "trailing-garbage", "two-envelopes"}

// malformedEnvelope returns a payload that is not a valid forwarder envelope, by construction.
func malformedEnvelope(e *vlib.Env, no int) ([]byte, string) {
	r := e.R
	inner := genMsg(e, no, false)
	good := map[string]any{"destination_topic": e.ID() + "/never", "uuid": inner.UUID, "payload": inner.Payload, "metadata": map[string]string(inner.Metadata)}
	kind := malformedKinds[r.Intn(len(malformedKinds))]
	var b []byte
	switch kind {
	case "random-bytes":
		for {
			b = r.Bytes(r.Range(1, 48))
			if !json.Valid(b) {
				break
			}
		}
	case "empty":
		if r.Bool() {
			b = []byte{}
		}
	case "truncated":
		full, _ := json.Marshal(good)
		b = full[:r.Intn(len(full))] // every proper prefix of a JSON object is invalid JSON
	case "non-object":
		b = []byte([]string{"null", "[]", "5", "true", `"destination_topic"`, `["destination_topic","t"]`, "{}"}[r.Intn(7)])
	case "no-destination":
		delete(good, "destination_topic")
		if r.Bool() {
			good["destination"] = e.ID() + "/never"
			good["topic"] = e.ID() + "/never"
		}
		b, _ = json.Marshal(good)
	case "empty-destination":
		good["destination_topic"] = ""
		b, _ = json.Marshal(good)
	case "null-destination":
		good["destination_topic"] = nil
		b, _ = json.Marshal(good)
	case "ill-typed":
		switch r.Intn(4) {
		case 0:
			good["destination_topic"] = 5
		case 1:
			good["destination_topic"] = []string{e.ID() + "/never"}
		case 2:
			good["metadata"] = map[string]any{"a": 1}
		default:
			good["uuid"] = map[string]any{"x": "y"}
		}
		b, _ = json.Marshal(good)
	case "bad-base64":
		good["payload"] = "!!! not base64 !!!"
		b, _ = json.Marshal(good)
	case "trailing-garbage":
		// a complete, valid envelope followed by something else: the payload as a whole is not a JSON document
		full, _ := json.Marshal(good)
		b = append(full, []byte([]string{"x", "}", " {", "\n[1]", "null", ",", "\"t\""}[r.Intn(7)])...)
	case "two-envelopes":
		full, _ := json.Marshal(good)
		good["uuid"] = inner.UUID + "-second"
		second, _ := json.Marshal(good)
		b = append(append(full, ws(r)...), second...)
	}
	if decodable(b) {
		// cannot happen for the kinds above; keep the oracle sound anyway
		b, kind = []byte("{"), "truncated"
	}
	return b, kind
}

func runForwarder(e *vlib.Env) vlib.Result { return runForwarderOpt(e, false) }

// fwdBatch is one forwarder.Publisher.Publish call of stage 1.
type fwdBatch struct {
	topic string
	orig  []*message.Message
}

func runForwarderOpt(e *vlib.Env, conc bool) vlib.Result {
	r := e.R
	res := vlib.Result{}
	ackCU := r.Bool()
	res.Class = "forwarder/nack-cannot-unwrap"
	if ackCU {
		res.Class = "forwarder/ack-cannot-unwrap"
	}
	if conc {
		res.Class = "concurrent/" + res.Class
	}
	ctl := vlib.NewCtl(r.Uint64(), 0.15, 30)
	defer ctl.Uninstall()

	fwdTopic := ""
	if r.Chance(0.6) {
		fwdTopic = genTopics(e, "fwd", 1, false)[0]
	}
	eff := fwdTopic
	if eff == "" {
		eff = defaultForwarderTopic
	}
	destTopics := genTopics(e, "dst", r.Range(1, 4), false)
	o := &odd{}

	// stage 1: publish through forwarder.Publisher into an outbox, collect the envelopes
	var batches []fwdBatch
	no := 0
	nValid := r.Range(2, 8)
	for produced := 0; produced < nValid; {
		n := r.Range(1, 3)
		if n > nValid-produced {
			n = nValid - produced
		}
		b := fwdBatch{topic: destTopics[r.Intn(len(destTopics))]}
		for i := 0; i < n; i++ {
			m := genMsg(e, no, false)
			o.uuid(r, m)
			if r.Chance(0.06) {
				m = &message.Message{UUID: m.UUID, Payload: m.Payload} // built without the constructor: nil metadata
				o.nilM++
			}
			b.orig = append(b.orig, m)
			no++
		}
		batches = append(batches, b)
		produced += n
	}
	// several goroutines publishing through ONE forwarder.Publisher at the same time (a Publisher is shared by
	// request handlers), the outbox reading its arguments late; every goroutine has its own destination topic,
	// which is how an outbox call is paired with the batch it came from
	nPublishers := 1
	if conc && len(destTopics) >= 2 && len(batches) >= 2 && r.Chance(0.6) {
		nPublishers = len(destTopics)
		if nPublishers > 3 {
			nPublishers = 3
		}
		for i := range batches {
			batches[i].topic = destTopics[i%nPublishers]
		}
	}
	// the outbox (the wrapped publisher of forwarder.Publisher) refuses calls now and then: see outboxPlan
	ob := newOutboxFaults(r.Fork(), batches, nPublishers > 1)
	var msgs []*relayMsg
	if nPublishers == 1 {
		var ok bool
		if msgs, ok = publishSerially(e, &res, ob, fwdTopic, eff, batches); !ok {
			return res
		}
		for _, rm := range msgs {
			rm.Plan, rm.MaxRedeliver = genPlan(r)
		}
	} else {
		var ok bool
		if msgs, ok = publishConcurrently(e, &res, ob, fwdTopic, eff, destTopics[:nPublishers], batches); !ok {
			return res
		}
		for _, rm := range msgs {
			rm.Plan, rm.MaxRedeliver = genPlan(r)
		}
	}
	nHand := r.Intn(2)
	if r.Chance(0.15) {
		nHand += 2
	}
	for i := 0; i < nHand; i++ {
		msgs = append(msgs, genHandmade(e, o, no, eff, destTopics[r.Intn(len(destTopics))]))
		no++
	}
	for i, n := 0, r.Intn(4); i < n; i++ {
		b, kind := malformedEnvelope(e, no)
		no++
		env := message.NewMessage(fmt.Sprintf("%s-bad%d", e.ID(), no), b)
		for k, v := range genMeta(r, false) {
			env.Metadata.Set(k, v)
		}
		msgs = append(msgs, &relayMsg{Kind: "malformed/" + kind, SrcTopic: eff, Orig: env, MaxRedeliver: r.Range(0, 2)})
	}
	perm := r.Perm(len(msgs))
	shuffled := make([]*relayMsg, len(msgs))
	for i, p := range perm {
		shuffled[i] = msgs[p]
		shuffled[i].No = i
	}
	msgs = shuffled

	// stage 2: the Forwarder between the scripted ends
	mon := newMonitor(!conc)
	src := &vlib.Sub{Name: e.ID() + ".src"}
	rec := &vlib.Pub{Name: e.ID() + ".dst", OnPublish: mon.onPublish, Script: mon.script}
	var dst message.Publisher = rec
	var co *concOpts
	if conc {
		co = newConc(r, r.Range(2, 4), "publisher")
		dst = &gatedPub{inner: rec, g: co.gate}
	}
	var mwCalls atomic.Int64
	nMw := r.Intn(3)
	var mws []message.HandlerMiddleware
	for i := 0; i < nMw; i++ {
		mws = append(mws, func(h message.HandlerFunc) message.HandlerFunc {
			return func(m *message.Message) ([]*message.Message, error) {
				mwCalls.Add(1)
				return h(m)
			}
		})
	}
	closeTimeout := []time.Duration{0, 5 * time.Second, time.Minute}[r.Intn(3)]
	cfg := forwarder.Config{ForwarderTopic: fwdTopic, AckWhenCannotUnwrap: ackCU, Middlewares: mws, CloseTimeout: closeTimeout}
	ownRouter := r.Chance(0.3)
	if ownRouter {
		rt, err := message.NewRouter(message.RouterConfig{CloseTimeout: closeTimeout}, watermill.NopLogger{})
		if err != nil {
			res.Inconclusive("NewRouter: %v", err)
			return res
		}
		cfg.Router = rt
	}
	fwd, err := forwarder.NewForwarder(src, dst, watermill.NopLogger{}, cfg)
	if err != nil {
		res.Inconclusive("NewForwarder: %v", err)
		return res
	}
	comp := component{name: "Forwarder", run: func() error { return fwd.Run(context.Background()) }, running: func() bool { return vlib.IsClosed(fwd.Running()) }, stop: func() { fwd.Close() }}
	byTopic := map[string][]*relayMsg{eff: msgs}
	drive(&res, comp, src, mon, []string{eff}, byTopic, co)
	st := mon.judge(&res, msgs, judgeCfg{component: "Forwarder", ackCannotUnwrap: ackCU})
	fill(&res, st, mon, msgs, o.any() || st.optionalForwarded+st.optionalRefused > 0 || ob.refused() > 0)
	o.count(&res)
	ob.count(&res)
	if nMw > 0 {
		res.Count("middleware_calls", int(mwCalls.Load()))
	}
	if nPublishers > 1 {
		res.Count("concurrent_forwarder_publisher_goroutines", nPublishers)
	}
	kinds := map[string]int{}
	for _, rm := range msgs {
		kinds[strings.SplitN(rm.Kind, "/", 2)[0]]++
	}
	res.Sig = vlib.Sig("fwd", ackCU, fwdTopic == "", nMw, ownRouter, closeTimeout, len(destTopics), shapeSig(msgs), ob.sig())
	if conc {
		co.count(&res)
		res.NonTrivial = st.relayed > 0 && co.multiRelease > 0
		res.Sig = vlib.Sig(res.Sig, co.sig(), nPublishers)
	}
	res.Hooks = ctl.Counts()
	sample := map[string]any{"component": "Forwarder", "config": map[string]any{"ForwarderTopic": fwdTopic, "AckWhenCannotUnwrap": ackCU, "middlewares": nMw, "external_router": ownRouter, "CloseTimeout": closeTimeout.String()},
		"dest_topics": destTopics, "messages": msgTrace(msgs, 8)}
	if conc {
		sample["in_flight_window"] = co.window
		sample["publisher_goroutines"] = nPublishers
	}
	res.Sample = sample
	if res.Failed() && res.Witness == nil {
		res.Witness = map[string]any{"messages": msgTrace(msgs, 100)}
	}
	return res
}

// publishConcurrently runs stage 1 with one goroutine per destination topic, all on the same forwarder.Publisher,
// whose outbox is gated (it reads its arguments late). ok=false: verdict set.
func publishConcurrently(e *vlib.Env, res *vlib.Result, ob *outboxFaults, fwdTopic, eff string, topics []string, batches []fwdBatch) ([]*relayMsg, bool) {
	co := newConc(e.R, len(topics), "publisher")
	defer co.gate.openForever()
	outbox := &vlib.Pub{Name: e.ID() + ".outbox", Script: ob.script}
	fps := ob.publishers(&gatedPub{inner: outbox, g: co.gate}, fwdTopic)
	perTopic := map[string][]*outboxAttempt{}
	for i, b := range batches {
		perTopic[b.topic] = append(perTopic[b.topic], ob.attempts[i]...)
	}
	var wg sync.WaitGroup
	for _, t := range topics {
		if len(perTopic[t]) == 0 {
			continue
		}
		wg.Add(1)
		co.active.Add(1)
		go func(list []*outboxAttempt) {
			defer wg.Done()
			defer co.active.Add(-1)
			for _, a := range list {
				ob.publish(fps, a) // a refused call is retried with the same messages, or the batch is given up: see newOutboxFaults
			}
		}(perTopic[t])
	}
	wd := vlib.WD
	wd.IgnoreFrames = []string{gateFrame}
	if oc, dump := co.rounds(started(wg.Wait), wd); oc != vlib.Done {
		res.Inconclusive("forwarder.Publisher.Publish did not return (%v)", oc)
		res.Witness = dump
		return nil, false
	}
	// every outbox call was paired with its Publish call when it was made (ob.script): the envelope names the destination
	// topic, the calls for one topic are made by one goroutine in plan order
	msgs, ok := ob.judge(res, outbox, fwdTopic, eff, len(topics))
	if !ok {
		return nil, false
	}
	res.Count("outbox_gate_rounds_with_2plus_calls_waiting", co.multiRelease)
	return msgs, true
}
