package c17

import (
	"context"
	"time"

	"github.com/ThreeDotsLabs/watermill"
	"github.com/ThreeDotsLabs/watermill/components/fanin"
	"github.com/ThreeDotsLabs/watermill/components/requeuer"
	"github.com/ThreeDotsLabs/watermill/message"

	"verifharness/vlib"
)

func runFanIn(e *vlib.Env) vlib.Result { return runFanInOpt(e, false) }

func runFanInOpt(e *vlib.Env, conc bool) vlib.Result {
	r := e.R
	res := vlib.Result{Class: "fanin"}
	if conc {
		res.Class = "concurrent/fanin"
	}
	ctl := vlib.NewCtl(r.Uint64(), 0.15, 30)
	defer ctl.Uninstall()

	nSrc := r.Range(1, 4)
	srcTopics := genTopics(e, "in", nSrc, true)
	target := genTopics(e, "target", 1, true)[0]
	closeTimeout := []time.Duration{0, 5 * time.Second, time.Minute}[r.Intn(3)]

	var msgs []*relayMsg
	byTopic := map[string][]*relayMsg{}
	n := r.Range(3, 12)
	if conc {
		n = r.Range(4, 14)
	}
	edge := nSrc >= 2
	o := &odd{}
	for i := 0; i < n; i++ {
		m := genMsg(e, i, true)
		o.uuid(r, m)
		// a foreign retries counter must pass through FanIn untouched
		if r.Chance(0.25) {
			if v, present, _ := retriesValue(r); present {
				m.Metadata.Set(requeuer.RetriesKey, v)
			}
		}
		t := srcTopics[r.Intn(nSrc)]
		rm := &relayMsg{No: i, Kind: "relay", SrcTopic: t, Orig: m, Valid: true, WantTopic: target, Want: vlib.Snap(m)}
		rm.Plan, rm.MaxRedeliver = genPlan(r)
		if r.Chance(0.05) {
			rm.NilMeta = true // the subscriber built the message without the constructor
			rm.Want.Metadata = map[string]string{}
			o.nilM++
		}
		msgs = append(msgs, rm)
		byTopic[t] = append(byTopic[t], rm)
	}

	mon := newMonitor(false)
	src := &vlib.Sub{Name: e.ID() + ".src"}
	rec := &vlib.Pub{Name: e.ID() + ".dst", OnPublish: mon.onPublish, Script: mon.script}
	var dst message.Publisher = rec
	var co *concOpts
	if conc {
		// the gate sits in the destination publisher (it reads its arguments late) or between the handler's return
		// and the Router's publishing of what it returned (hook router.handle.before_publish)
		co = newConc(r, r.Range(2, 4), []string{"publisher", "publisher", "hook"}[r.Intn(3)])
		if co.via == "publisher" {
			dst = &gatedPub{inner: rec, g: co.gate}
		} else {
			ctl.Observe(co.hook)
		}
	}
	var logger watermill.LoggerAdapter = watermill.NopLogger{}
	if r.Chance(0.2) {
		logger = nil // documented: a nil logger is replaced by NopLogger
	}
	fi, err := fanin.NewFanIn(src, dst, fanin.Config{SourceTopics: srcTopics, TargetTopic: target, CloseTimeout: closeTimeout}, logger)
	if err != nil {
		res.Inconclusive("NewFanIn: %v", err)
		return res
	}
	comp := component{name: "FanIn", run: func() error { return fi.Run(context.Background()) }, running: func() bool { return vlib.IsClosed(fi.Running()) }, stop: func() { fi.Close() }}
	drive(&res, comp, src, mon, srcTopics, byTopic, co)
	st := mon.judge(&res, msgs, judgeCfg{component: "FanIn"})
	fill(&res, st, mon, msgs, edge || o.any())
	o.count(&res)
	res.Count("source_topics", nSrc)
	res.Sig = vlib.Sig("fanin", nSrc, closeTimeout, logger == nil, shapeSig(msgs))
	if conc {
		co.count(&res)
		res.NonTrivial = st.relayed > 0 && co.multiRelease > 0
		res.Sig = vlib.Sig(res.Sig, co.sig())
	}
	res.Hooks = ctl.Counts()
	res.Sample = map[string]any{"component": "FanIn", "config": map[string]any{"SourceTopics": srcTopics, "TargetTopic": target, "CloseTimeout": closeTimeout.String()}, "messages": msgTrace(msgs, 8)}
	if conc {
		res.Sample.(map[string]any)["in_flight_window_per_topic"] = co.window
		res.Sample.(map[string]any)["gate"] = co.via
	}
	if res.Failed() && res.Witness == nil {
		res.Witness = map[string]any{"messages": msgTrace(msgs, 100)}
	}
	return res
}
