package c17

import (
	"context"
	"time"

	"github.com/ThreeDotsLabs/watermill"
	"github.com/ThreeDotsLabs/watermill/components/fanin"
	"github.com/ThreeDotsLabs/watermill/components/requeuer"

	"verifharness/vlib"
)

func runFanIn(e *vlib.Env) vlib.Result {
	r := e.R
	res := vlib.Result{Class: "fanin"}
	ctl := vlib.NewCtl(r.Uint64(), 0.15, 30)
	defer ctl.Uninstall()

	nSrc := r.Range(1, 4)
	srcTopics := genTopics(e, "in", nSrc, true)
	target := genTopics(e, "target", 1, true)[0]
	closeTimeout := []time.Duration{0, 5 * time.Second, time.Minute}[r.Intn(3)]

	var msgs []*relayMsg
	byTopic := map[string][]*relayMsg{}
	n := r.Range(3, 12)
	edge := nSrc >= 2
	for i := 0; i < n; i++ {
		m := genMsg(e, i, true)
		// a foreign retries counter must pass through FanIn untouched
		if r.Chance(0.25) {
			if v, present, _ := retriesValue(r); present {
				m.Metadata.Set(requeuer.RetriesKey, v)
			}
		}
		t := srcTopics[r.Intn(nSrc)]
		rm := &relayMsg{No: i, Kind: "relay", SrcTopic: t, Orig: m, Valid: true, WantTopic: target, Want: vlib.Snap(m)}
		rm.Plan, rm.MaxRedeliver = genPlan(r)
		msgs = append(msgs, rm)
		byTopic[t] = append(byTopic[t], rm)
	}

	mon := newMonitor(false)
	src := &vlib.Sub{Name: e.ID() + ".src"}
	dst := &vlib.Pub{Name: e.ID() + ".dst", OnPublish: mon.onPublish, Script: mon.script}
	var logger watermill.LoggerAdapter = watermill.NopLogger{}
	if r.Chance(0.2) {
		logger = nil // documented: a nil logger is replaced by NopLogger
	}
	fi, err := fanin.NewFanIn(src, dst, fanin.Config{SourceTopics: srcTopics, TargetTopic: target, CloseTimeout: closeTimeout}, logger)
	if err != nil {
		res.Inconclusive("NewFanIn: %v", err)
		return res
	}
	comp := component{name: "FanIn", run: func() error { return fi.Run(context.Background()) }, running: func() bool { return vlib.IsClosed(fi.Running()) }, stop: func() { fi.Close() }}
	drive(&res, comp, src, mon, srcTopics, byTopic)
	st := mon.judge(&res, msgs, judgeCfg{component: "FanIn"})
	fill(&res, st, mon, msgs, edge)
	res.Count("source_topics", nSrc)
	res.Sig = vlib.Sig("fanin", nSrc, closeTimeout, logger == nil, shapeSig(msgs))
	res.Hooks = ctl.Counts()
	res.Sample = map[string]any{"component": "FanIn", "config": map[string]any{"SourceTopics": srcTopics, "TargetTopic": target, "CloseTimeout": closeTimeout.String()}, "messages": msgTrace(msgs, 8)}
	if res.Failed() && res.Witness == nil {
		res.Witness = map[string]any{"messages": msgTrace(msgs, 100)}
	}
	return res
}
