package c17

import (
	"context"
	"encoding/json"
	"errors"
	"fmt"
	"strings"
	"sync"
	"sync/atomic"
	"time"

	"github.com/ThreeDotsLabs/watermill"
	"github.com/ThreeDotsLabs/watermill/components/fanin"
	"github.com/ThreeDotsLabs/watermill/components/forwarder"
	"github.com/ThreeDotsLabs/watermill/components/requeuer"
	"github.com/ThreeDotsLabs/watermill/message"
	"github.com/ThreeDotsLabs/watermill/pubsub/gochannel"

	"verifharness/vlib"
)

// Classes gosource/<component>: Requeuer, FanIn and Forwarder behind a REAL source - a GoChannel, or a FanOut that
// is fed by a GoChannel ("one external subscription and multiple workers inside the process": the relay is one of
// the workers) - in front of the scripted destination publisher.
//
// The scripted source of the other classes hands out a fresh copy of the original for every delivery and never
// gives a consumed copy a second look. A real Pub/Sub owns the redelivery: what the relay did to a consumed copy
// before it Nacked it (the Requeuer raises its counter in place and only then publishes) must not be part of what
// comes again. The statement quantifies over "all destination-publisher failure sequences": every message gets a
// plan "k refused destination calls, then accepted", and whatever k is,
//
//   - every destination call made for the message carries the computed topic and the value that was published to
//     the source - UUID, payload, metadata intact, the Requeuer's counter raised by exactly one (dest-topic,
//     dest-uuid, dest-payload, dest-metadata, retries);
//   - a refused call is followed by another call for the message: a GoChannel subscription gets a Nacked message
//     again, so "Nack it when the destination fails" shows as the redelivery (no-redelivery-after-failure,
//     decided by quiescence); no call follows the accepted one (duplicate-relay); a message published while the
//     relay was subscribed produces a call at all (not-relayed);
//   - nothing reaches the destination that was not published to the source (invented);
//   - with BlockPublishUntilSubscriberAck the source's Publish returns only after the relay acknowledged the
//     message: a destination call for a message whose Publish has already returned means the consumed copy was
//     acknowledged before the destination accepted it (ack-before-accept; direct GoChannel source only).
//
// Behind a FanOut, 0-2 further workers read the same FanOut topics next to the relay. They Nack some messages
// once or twice and (half of them) edit their copy before the Nack - new metadata keys, another UUID, another
// payload slice (never writing into the shared payload bytes). The FanOut owes every worker the consumed message
// intact at every receipt, exactly 1 + own Nacks times (dest-uuid/-payload/-metadata, fanout-invented,
// fanout-missing).
//
// The relay must also COMPLETE: the statement holds "for all destination-publisher failure sequences" and "all
// configurations", so a finite plan "k refused calls, then accepted" ends with the accepted call whatever the relay's
// handlers look at. Relays whose handlers honour the consumed message's context are part of the family: the Requeuer
// with Delay > 0 (it waits "Delay or the message's context"), a Forwarder with a middleware that refuses to work for
// a message whose context has ended (forwarder.Config.Middlewares), and - all three relays hand the consumed
// message's context on to the relayed message - a destination publisher that refuses a message whose context has
// ended, as every publisher that passes msg.Context() to its client does. A source-side delivery counter (a
// pass-through subscriber decorator between the source and the relay; the Router puts one there itself) counts the
// copies the relay consumed per message:
//
//   - at quiescence every consumed copy of a message has produced a destination call (consumed-not-relayed: the relay
//     settled a consumed copy without handing it to the destination, while nobody was stopping it);
//   - a message that was consumed gsRunaway times more often than the destination was called for it, or that a
//     context-honouring destination had to refuse gsRunaway times because it came with an ended context, is in an
//     endless Nack/redelivery loop although its destination plan is finite (runaway-redelivery). The harness then ends
//     the loop (the decorator acknowledges the copy itself / the destination accepts), so that the case becomes
//     quiescent and is judged instead of running into the watchdog.
//
// A destination call that was refused only because of the ended context does not use up the message's plan.
//
// Identity travels in metadata key c17-id (UUIDs may be empty or repeated); for the Forwarder it is the metadata
// of the enveloped message. No verdict depends on time: the case is judged when the process is quiescent.

const gsClass = "gosource/"

// gsRunaway: so many consumed copies of one message without a destination call for them (or so many destination
// calls that arrived with an ended context) are a loop, not a retry. No correct run has a single one.
const gsRunaway = 20

var gsKinds = []string{"requeuer", "fanin", "forwarder"}

func gosrcCases(tier string) int { return vlib.TierN(tier, 800, 32000) }

// gsMsg is one message published to the source.
type gsMsg struct {
	no        int
	id        string
	kind      string           // "relay/<counter class>", "relay", "envelope", "malformed/<k>"
	srcTopic  string           // topic of the source it is published on (Forwarder: the forwarder topic)
	pub       *message.Message // what the harness hands to the source's Publish (Forwarder: to forwarder.Publisher)
	valid     bool             // a destination call is expected
	wantTopic string
	want      vlib.MsgSnap // value every destination call must carry
	srcSnap   vlib.MsgSnap // value as it travels through the source (what a FanOut worker must receive)
	haveSrc   bool
	plan      []failKind // outcomes of the first len(plan) destination calls (all failures); the next one is accepted
	early     bool       // published before the relay subscribed (persistent source)
	teeRefuse int        // Forwarder: the source refuses that many forwarder.Publisher calls whose last message this is (guarded by gsCase.mu)

	// observed; guarded by gsCase.mu
	calls      []*gsCall
	returned   bool             // the source's Publish call that carried it has returned
	consumed   int              // copies the relay took from the source subscription (before the harness began to stop it)
	deadCtx    int              // ... of them handed over with an already ended context
	ctxRefused int              // destination calls refused because the message's context had ended
	swallowed  int              // copies the runaway guard acknowledged itself instead of handing them to the relay
	runaway    string           // set by the runaway guard: what ran away
	lastCopy   *message.Message // non-envelope: the copy the relay consumed last
	nacked     int              // non-envelope: consumed copies found Nacked when the next copy arrived
}

type gsCall struct {
	c           *vlib.PubCall
	planned     failKind
	afterReturn bool  // sampled inside the call: the source's Publish for this message had already returned
	ctxErr      error // refused by the context-honouring destination: the message's context had ended (not part of the plan)
}

// gsSubscriber tells when the relay's Subscribe calls have returned (a Requeuer on its own router has no Running()).
//
// It is also the source-side delivery counter: a pass-through decorator (same message values, nothing settled,
// closed when the source closes the subscription) that counts the copies the relay consumed and ends a runaway loop.
type gsSubscriber struct {
	g     *gsCase
	inner message.Subscriber
	mu    sync.Mutex
	done  map[string]int
}

func (s *gsSubscriber) Subscribe(ctx context.Context, topic string) (<-chan *message.Message, error) {
	ch, err := s.inner.Subscribe(ctx, topic)
	if err != nil {
		return ch, err
	}
	out := make(chan *message.Message)
	go s.g.pump(ch, out)
	s.mu.Lock()
	s.done[topic]++
	s.mu.Unlock()
	return out, nil
}

// pump hands every message of one source subscription to the relay, unchanged.
func (g *gsCase) pump(in <-chan *message.Message, out chan<- *message.Message) {
	defer close(out)
	fwd := g.kind == "forwarder"
	for m := range in {
		id := ""
		if fwd {
			id = gsIdentify(vlib.MsgSnap{Payload: m.Payload, Metadata: m.Metadata}, true)
		} else {
			id = m.Metadata[idKey]
		}
		dead := m.Context().Err() != nil
		g.mu.Lock()
		rm := g.byID[id]
		counted := rm != nil && rm.valid && !g.stopping
		swallow := false
		if counted && rm.consumed-len(rm.calls) >= gsRunaway {
			// an endless loop: the relay settles copy after copy of this message without calling the destination
			if rm.runaway == "" {
				rm.runaway = fmt.Sprintf("the relay consumed %d copies of it from the source but made only %d destination calls for it", rm.consumed, len(rm.calls))
			}
			rm.swallowed++
			swallow = true
		}
		bad := rm != nil && !rm.valid && !g.stopping
		if bad {
			// a non-envelope (generated with AckWhenCannotUnwrap=true only) that comes again was Nacked; a GoChannel would
			// bring it for ever
			if rm.lastCopy != nil && vlib.Settled(rm.lastCopy) == "nack" {
				rm.nacked++
			}
			if rm.nacked >= 3 {
				rm.swallowed++
				swallow = true
			}
		}
		g.mu.Unlock()
		if swallow {
			m.Ack() // ends the loop: the source stops redelivering, the case can become quiescent
			continue
		}
		select {
		case out <- m:
		case <-g.over:
			return // the case is over and the relay has stopped reading
		}
		if bad {
			g.mu.Lock()
			rm.lastCopy = m
			g.mu.Unlock()
		}
		if counted {
			g.mu.Lock()
			rm.consumed++
			if dead {
				rm.deadCtx++
			}
			g.mu.Unlock()
		}
	}
}

func (s *gsSubscriber) Close() error { return s.inner.Close() }

func (s *gsSubscriber) String() string { return "c17gosource" }

func (s *gsSubscriber) subscribed(topics []string) bool {
	s.mu.Lock()
	defer s.mu.Unlock()
	for _, t := range topics {
		if s.done[t] == 0 {
			return false
		}
	}
	return true
}

// gsTee sits between forwarder.Publisher and the source and records the envelopes as they enter the source.
type gsTee struct {
	g     *gsCase
	inner message.Publisher
}

// errTeeRefused is what the source answers to a forwarder.Publisher call it refuses (nothing of the call enters the source).
var errTeeRefused = errors.New("c17: the forwarder topic's publisher refused the call")

func (t *gsTee) Publish(topic string, msgs ...*message.Message) error {
	t.g.mu.Lock()
	if len(msgs) > 0 {
		var env refEnvelope
		if json.Unmarshal(msgs[len(msgs)-1].Payload, &env) == nil {
			if rm := t.g.byID[env.Metadata[idKey]]; rm != nil && rm.teeRefuse > 0 {
				rm.teeRefuse--
				t.g.mu.Unlock()
				t.g.teeRefused.Add(1)
				return errTeeRefused
			}
		}
	}
	for _, m := range msgs {
		var env refEnvelope
		if json.Unmarshal(m.Payload, &env) == nil {
			if rm := t.g.byID[env.Metadata[idKey]]; rm != nil {
				rm.srcSnap, rm.haveSrc = vlib.Snap(m), true
			}
		}
	}
	t.g.mu.Unlock()
	return t.inner.Publish(topic, msgs...)
}

func (t *gsTee) Close() error { return nil }

// gsWorker is a further consumer of the FanOut next to the relay.
type gsWorker struct {
	name     string
	topic    string
	ch       <-chan *message.Message
	nacks    map[string]int // id -> Nacks before the Ack
	scribble bool           // edits its copy before a Nack
	fwd      bool           // the topic carries forwarder envelopes

	mu        sync.Mutex
	got       []gsReceipt
	seen      map[string]int
	scribbled int
	done      chan struct{}
}

type gsReceipt struct {
	id   string
	snap vlib.MsgSnap
}

func gsIdentify(s vlib.MsgSnap, fwd bool) string {
	if fwd {
		var env refEnvelope
		if json.Unmarshal(s.Payload, &env) == nil && env.Metadata[idKey] != "" {
			return env.Metadata[idKey]
		}
	}
	return s.Metadata[idKey]
}

func (w *gsWorker) loop() {
	defer close(w.done)
	for m := range w.ch {
		s := vlib.Snap(m)
		id := gsIdentify(s, w.fwd)
		w.mu.Lock()
		w.got = append(w.got, gsReceipt{id: id, snap: s})
		n := w.seen[id]
		w.seen[id]++
		w.mu.Unlock()
		if n >= w.nacks[id] {
			m.Ack()
			continue
		}
		if w.scribble {
			// a worker that got half-way before it failed: what it did to ITS copy is its own business
			m.Metadata.Set("c17-worker-note", fmt.Sprintf("%s attempt %d", w.name, n))
			m.Metadata.Set(requeuer.RetriesKey, "99")
			switch n % 3 {
			case 0:
				m.UUID = "scribbled-" + m.UUID
			case 1:
				if !w.fwd {
					m.Payload = []byte("scribbled") // another slice; the shared bytes are not written
				}
			}
			w.mu.Lock()
			w.scribbled++
			w.mu.Unlock()
		}
		m.Nack()
	}
}

// gsCase is the state of one case.
type gsCase struct {
	e    *vlib.Env
	r    *vlib.Rand
	kind string

	cfg        gochannel.Config
	gc         *gochannel.GoChannel
	fo         *gochannel.FanOut
	foFirst    bool // FanOut is running before the relay subscribes to it
	sub        *gsSubscriber
	dst        *vlib.Pub
	comp       component
	topics     []string // source topics the relay subscribes to
	msgs       []*gsMsg
	publish    func(batch []*gsMsg) error
	cfgSig     string
	config     map[string]any
	edge       bool
	ackCU      bool
	ctxDst     bool // the destination honours the relayed message's context: it refuses a message whose context has ended
	ctxMw      bool // Forwarder: one middleware honours the consumed message's context
	mwRefuse   atomic.Int64
	teeRefused atomic.Int64 // gosource/forwarder: forwarder.Publisher calls the source refused (the publisher retried)
	workers    []*gsWorker
	odd        *odd
	counters   map[string]int

	mu       sync.Mutex
	byID     map[string]*gsMsg
	strays   []*vlib.PubCall
	decision map[int]failKind
	ctxErrs  map[int]error // destination call number -> the context error it is refused with
	stopping bool
	over     chan struct{} // closed when the case returns
}

func (g *gsCase) onPublish(c *vlib.PubCall) {
	g.mu.Lock()
	defer g.mu.Unlock()
	var m *gsMsg
	if len(c.Msgs) > 0 && c.Msgs[0] != nil {
		m = g.byID[c.Msgs[0].Metadata[idKey]]
	}
	if m == nil || !m.valid {
		g.strays = append(g.strays, c)
		g.decision[c.No] = fkOK
		return
	}
	cr := &gsCall{c: c, afterReturn: m.returned && !g.stopping}
	if g.ctxDst && !g.stopping {
		// a publisher that honours the context of the message it is given (all three relays hand on the consumed one's)
		if err := c.Msgs[0].Context().Err(); err != nil {
			m.ctxRefused++
			if m.ctxRefused <= gsRunaway {
				cr.ctxErr = err
				m.calls = append(m.calls, cr)
				g.ctxErrs[c.No] = err
				return
			}
			// an endless loop: every redelivered copy comes with an ended context. End it: go on with the plan.
			if m.runaway == "" {
				m.runaway = fmt.Sprintf("%d destination calls for it came with an already ended message context (%v) and were refused for that by the context-honouring destination", gsRunaway, err)
			}
		}
	}
	n := 0
	for _, p := range m.calls {
		if p.ctxErr == nil {
			n++
		}
	}
	if n < len(m.plan) {
		cr.planned = m.plan[n]
	}
	m.calls = append(m.calls, cr)
	g.decision[c.No] = cr.planned
}

func (g *gsCase) script(no int, topic string, msgs []*message.Message) error {
	g.mu.Lock()
	k := g.decision[no]
	ctxErr := g.ctxErrs[no]
	g.mu.Unlock()
	if ctxErr != nil {
		return fmt.Errorf("c17: the message's context has ended: %w", ctxErr)
	}
	switch k {
	case fkErr:
		return errInjected
	case fkCanceled:
		return fmt.Errorf("c17: destination gave up: %w", context.Canceled)
	case fkPanic:
		panic("c17: injected destination panic")
	}
	return nil
}

// gsPlan draws "k refused calls, then accepted".
func gsPlan(r *vlib.Rand) []failKind {
	k := 0
	switch x := r.Intn(20); {
	case x < 6:
		k = 0
	case x < 12:
		k = 1
	case x < 16:
		k = 2
	case x < 18:
		k = 3
	case x < 19:
		k = 4
	default:
		k = r.Range(5, 7)
	}
	var plan []failKind
	for i := 0; i < k; i++ {
		switch x := r.Intn(10); {
		case x < 6:
			plan = append(plan, fkErr)
		case x < 9:
			plan = append(plan, fkCanceled)
		default:
			plan = append(plan, fkPanic)
		}
	}
	return plan
}

func (g *gsCase) add(m *gsMsg) {
	m.no = len(g.msgs)
	m.id = fmt.Sprint(m.no)
	g.msgs = append(g.msgs, m)
	g.byID[m.id] = m
}

// ---------------------------------------------------------------------------------------------
// the three relays

func (g *gsCase) buildRequeuer(res *vlib.Result) bool {
	e, r := g.e, g.r
	subTopic := genTopics(e, "poison", 1, true)[0]
	destTopics := genTopics(e, "back", r.Range(1, 3), true)
	topicMode := []string{"const", "metadata", "uuid"}[r.Intn(3)]
	delay := []time.Duration{0, 0, 0, time.Microsecond, 20 * time.Microsecond, 300 * time.Microsecond, time.Millisecond, 2 * time.Millisecond}[r.Intn(8)]
	g.counters["gosource_requeuer_cases_with_delay"] = b2i(delay > 0)
	ownRouter := r.Bool()
	topicOf := func(m *message.Message) (string, error) {
		switch topicMode {
		case "const":
			return destTopics[0], nil
		case "metadata":
			t, ok := m.Metadata[destKey]
			if !ok {
				return "", errors.New("c17: no destination in metadata")
			}
			return t, nil
		default:
			return destTopics[int(vlib.HashStr(m.UUID)%uint64(len(destTopics)))], nil
		}
	}
	n := r.Range(3, 10)
	prior := 0
	for i := 0; i < n; i++ {
		m := genMsg(e, i, true)
		g.odd.uuid(r, m)
		delete(m.Metadata, requeuer.RetriesKey)
		delete(m.Metadata, destKey)
		v, present, class := retriesValue(r)
		g.counters["retries_"+class]++
		if present {
			m.Metadata.Set(requeuer.RetriesKey, v)
			prior++
		}
		if r.Chance(0.3) {
			m.Metadata.Set("retries", "17")
		}
		if r.Chance(0.2) {
			m.Metadata.Set(requeuer.RetriesKey+"_", "23")
		}
		if topicMode == "metadata" {
			// a message without a destination is Nacked for ever by design: a GoChannel would redeliver it without end
			m.Metadata.Set(destKey, destTopics[r.Intn(len(destTopics))])
		}
		rm := &gsMsg{kind: "relay/" + class, srcTopic: subTopic, pub: m, valid: true, plan: gsPlan(r)}
		g.add(rm)
		m.Metadata.Set(idKey, rm.id)
		rm.wantTopic, _ = topicOf(m)
		rm.want = vlib.Snap(m)
		rm.want.Metadata[requeuer.RetriesKey] = nextRetries(v, present)
		rm.srcSnap, rm.haveSrc = vlib.Snap(m), true
	}
	g.counters["prior_retries_present"] = prior
	g.edge = prior > 0
	cfg := requeuer.Config{
		Subscriber:     g.sub,
		SubscribeTopic: subTopic,
		Publisher:      g.dst,
		GeneratePublishTopic: func(p requeuer.GeneratePublishTopicParams) (string, error) {
			return topicOf(p.Message)
		},
		Delay: delay,
	}
	var router *message.Router
	if ownRouter {
		var err error
		router, err = message.NewRouter(message.RouterConfig{CloseTimeout: 5 * time.Second}, watermill.NopLogger{})
		if err != nil {
			res.Inconclusive("NewRouter: %v", err)
			return false
		}
		cfg.Router = router
	}
	rq, err := requeuer.NewRequeuer(cfg, watermill.NopLogger{})
	if err != nil {
		res.Inconclusive("NewRequeuer: %v", err)
		return false
	}
	ctx, cancel := context.WithCancel(context.Background())
	g.comp = component{name: "Requeuer", run: func() error { return rq.Run(ctx) }, running: func() bool { return true }}
	g.comp.wd = vlib.WaitOpts{Watchdog: 60 * time.Second, NoTimerCheck: []string{"components/requeuer."}, TimerFrames: []string{"requeuer.(*Requeuer).handler"}}
	if ownRouter {
		g.comp.running = func() bool { return vlib.IsClosed(router.Running()) }
		g.comp.stop = func() { router.Close(); cancel() }
	} else {
		g.comp.stop = cancel
	}
	g.topics = []string{subTopic}
	g.publish = func(batch []*gsMsg) error {
		ms := make([]*message.Message, len(batch))
		for i, rm := range batch {
			ms[i] = rm.pub
		}
		return g.gc.Publish(batch[0].srcTopic, ms...)
	}
	g.cfgSig = vlib.Sig("requeuer", topicMode, delay, ownRouter, len(destTopics))
	g.config = map[string]any{"SubscribeTopic": subTopic, "GeneratePublishTopic": topicMode, "dest_topics": destTopics, "Delay": delay.String(), "external_router": ownRouter}
	return true
}

func (g *gsCase) buildFanIn(res *vlib.Result) bool {
	e, r := g.e, g.r
	nSrc := r.Range(1, 3)
	srcTopics := genTopics(e, "in", nSrc, true)
	target := genTopics(e, "target", 1, true)[0]
	closeTimeout := []time.Duration{0, 5 * time.Second, time.Minute}[r.Intn(3)]
	n := r.Range(3, 10)
	for i := 0; i < n; i++ {
		m := genMsg(e, i, true)
		g.odd.uuid(r, m)
		if r.Chance(0.25) {
			if v, present, _ := retriesValue(r); present {
				m.Metadata.Set(requeuer.RetriesKey, v) // a foreign counter passes through untouched
			}
		}
		rm := &gsMsg{kind: "relay", srcTopic: srcTopics[r.Intn(nSrc)], pub: m, valid: true, wantTopic: target, plan: gsPlan(r)}
		g.add(rm)
		m.Metadata.Set(idKey, rm.id)
		rm.want = vlib.Snap(m)
		rm.srcSnap, rm.haveSrc = vlib.Snap(m), true
	}
	g.edge = nSrc >= 2
	fi, err := fanin.NewFanIn(g.sub, g.dst, fanin.Config{SourceTopics: srcTopics, TargetTopic: target, CloseTimeout: closeTimeout}, watermill.NopLogger{})
	if err != nil {
		res.Inconclusive("NewFanIn: %v", err)
		return false
	}
	g.comp = component{name: "FanIn", run: func() error { return fi.Run(context.Background()) }, running: func() bool { return vlib.IsClosed(fi.Running()) }, stop: func() { fi.Close() }}
	g.topics = srcTopics
	g.publish = func(batch []*gsMsg) error {
		ms := make([]*message.Message, len(batch))
		for i, rm := range batch {
			ms[i] = rm.pub
		}
		return g.gc.Publish(batch[0].srcTopic, ms...)
	}
	g.cfgSig = vlib.Sig("fanin", nSrc, closeTimeout)
	g.config = map[string]any{"SourceTopics": srcTopics, "TargetTopic": target, "CloseTimeout": closeTimeout.String()}
	return true
}

func (g *gsCase) buildForwarder(res *vlib.Result) bool {
	e, r := g.e, g.r
	g.ackCU = r.Bool()
	fwdTopic := ""
	if r.Chance(0.6) {
		fwdTopic = genTopics(e, "fwd", 1, false)[0]
	}
	eff := fwdTopic
	if eff == "" {
		eff = defaultForwarderTopic
	}
	destTopics := genTopics(e, "dst", r.Range(1, 4), false)
	n := r.Range(3, 9)
	for i := 0; i < n; i++ {
		m := genMsg(e, i, false)
		g.odd.uuid(r, m)
		rm := &gsMsg{kind: "envelope", srcTopic: eff, pub: m, valid: true, wantTopic: destTopics[r.Intn(len(destTopics))], plan: gsPlan(r)}
		g.add(rm)
		m.Metadata.Set(idKey, rm.id)
		rm.want = vlib.Snap(m)
	}
	nBad := 0
	if g.ackCU {
		// with AckWhenCannotUnwrap=false a non-envelope is Nacked for ever by design: a GoChannel would redeliver it without end
		nBad = r.Intn(3)
	}
	for i := 0; i < nBad; i++ {
		b, kind := malformedEnvelope(e, n+i)
		raw := message.NewMessage(fmt.Sprintf("%s-bad%d", e.ID(), i), b)
		for k, v := range genMeta(r, false) {
			raw.Metadata.Set(k, v)
		}
		rm := &gsMsg{kind: "malformed/" + kind, srcTopic: eff, pub: raw}
		g.add(rm)
		raw.Metadata.Set(idKey, rm.id)
		rm.srcSnap, rm.haveSrc = vlib.Snap(raw), true
	}
	// the publisher of the forwarder topic refuses the first 1 (5 in 20) or 2 (2 in 20) forwarder.Publisher calls that end with the message
	for _, rm := range g.msgs {
		if rm.valid {
			switch x := r.Intn(20); {
			case x < 5:
				rm.teeRefuse = 1
			case x < 7:
				rm.teeRefuse = 2
			}
		}
	}
	// the stream in random order
	perm := r.Perm(len(g.msgs))
	shuffled := make([]*gsMsg, len(g.msgs))
	for i, p := range perm {
		shuffled[i] = g.msgs[p]
	}
	g.msgs = shuffled
	g.edge = nBad > 0

	var mwCalls atomic.Int64
	nMw := r.Intn(3)
	var mws []message.HandlerMiddleware
	for i := 0; i < nMw; i++ {
		mws = append(mws, func(h message.HandlerFunc) message.HandlerFunc {
			return func(m *message.Message) ([]*message.Message, error) {
				mwCalls.Add(1)
				return h(m)
			}
		})
	}
	if g.ctxMw = r.Chance(0.35); g.ctxMw {
		// a middleware that honours the consumed message's context, as the Requeuer's own handler does: no work for a
		// message whose context has ended (the Subscriber contract: that happens when it was settled or the
		// subscription closes - never to a copy that is being handled)
		at := r.Intn(len(mws) + 1)
		mw := func(h message.HandlerFunc) message.HandlerFunc {
			return func(m *message.Message) ([]*message.Message, error) {
				if err := m.Context().Err(); err != nil {
					g.mwRefuse.Add(1)
					return nil, err
				}
				return h(m)
			}
		}
		mws = append(mws[:at:at], append([]message.HandlerMiddleware{mw}, mws[at:]...)...)
	}
	g.counters["gosource_forwarder_cases_ctx_honouring_middleware"] = b2i(g.ctxMw)
	closeTimeout := []time.Duration{0, 5 * time.Second, time.Minute}[r.Intn(3)]
	cfg := forwarder.Config{ForwarderTopic: fwdTopic, AckWhenCannotUnwrap: g.ackCU, Middlewares: mws, CloseTimeout: closeTimeout}
	ownRouter := r.Chance(0.3)
	if ownRouter {
		rt, err := message.NewRouter(message.RouterConfig{CloseTimeout: closeTimeout}, watermill.NopLogger{})
		if err != nil {
			res.Inconclusive("NewRouter: %v", err)
			return false
		}
		cfg.Router = rt
	}
	fwd, err := forwarder.NewForwarder(g.sub, g.dst, watermill.NopLogger{}, cfg)
	if err != nil {
		res.Inconclusive("NewForwarder: %v", err)
		return false
	}
	g.comp = component{name: "Forwarder", run: func() error { return fwd.Run(context.Background()) }, running: func() bool { return vlib.IsClosed(fwd.Running()) }, stop: func() { fwd.Close() }}
	g.topics = []string{eff}
	// stage 1 is the documented one: forwarder.Publisher decorating the publisher of the forwarder topic's Pub/Sub
	fp := forwarder.NewPublisher(&gsTee{g: g, inner: g.gc}, forwarder.PublisherConfig{ForwarderTopic: fwdTopic})
	g.publish = func(batch []*gsMsg) error {
		ms := make([]*message.Message, len(batch))
		for i, rm := range batch {
			ms[i] = rm.pub
		}
		if !batch[0].valid {
			return g.gc.Publish(eff, ms...)
		}
		// the publisher of the forwarder topic refuses a call now and then (gsMsg.teeRefuse); the caller does what the
		// error asks for and publishes the same messages again
		for {
			err := fp.Publish(batch[0].wantTopic, ms...)
			if err == nil || !errors.Is(err, errTeeRefused) {
				return err
			}
		}
	}
	g.cfgSig = vlib.Sig("fwd", g.ackCU, fwdTopic == "", nMw, g.ctxMw, ownRouter, closeTimeout, len(destTopics))
	g.config = map[string]any{"ForwarderTopic": fwdTopic, "AckWhenCannotUnwrap": g.ackCU, "middlewares": nMw, "context_honouring_middleware": g.ctxMw, "external_router": ownRouter, "CloseTimeout": closeTimeout.String(), "dest_topics": destTopics}
	return true
}

// ---------------------------------------------------------------------------------------------

// gsBatches cuts a publisher's list into Publish calls: mostly one message, now and then 2-3 neighbours that share
// source topic, destination topic and validity (one Publish call takes one topic).
func gsBatches(r *vlib.Rand, list []*gsMsg) [][]*gsMsg {
	var out [][]*gsMsg
	for i := 0; i < len(list); {
		b := []*gsMsg{list[i]}
		i++
		for i < len(list) && len(b) < 3 && r.Chance(0.3) && list[i].srcTopic == b[0].srcTopic && list[i].wantTopic == b[0].wantTopic && list[i].valid == b[0].valid {
			b = append(b, list[i])
			i++
		}
		out = append(out, b)
	}
	return out
}

func runGoSource(e *vlib.Env) vlib.Result {
	r := e.R
	j := e.Idx - serialCases(e.Tier) - concCases(e.Tier) - churnCases(e.Tier)
	kind := gsKinds[(j+j/16)%len(gsKinds)] // the driver shards by idx%16: every shard gets every component
	res := vlib.Result{Class: gsClass + kind}
	ctl := vlib.NewCtl(r.Uint64(), 0.15, 30)
	defer ctl.Uninstall()

	g := &gsCase{e: e, r: r, kind: kind, byID: map[string]*gsMsg{}, decision: map[int]failKind{}, ctxErrs: map[int]error{}, odd: &odd{}, counters: map[string]int{}, over: make(chan struct{})}
	defer close(g.over)
	behindFanOut := r.Chance(0.4)
	g.cfg = gochannel.Config{
		OutputChannelBuffer:            []int64{0, 0, 0, 1, 4, 64}[r.Intn(6)],
		Persistent:                     r.Chance(0.3),
		BlockPublishUntilSubscriberAck: r.Chance(0.4),
	}
	g.gc = gochannel.NewGoChannel(g.cfg, watermill.NopLogger{})
	var source message.Subscriber = g.gc
	if behindFanOut {
		fo, err := gochannel.NewFanOut(g.gc, watermill.NopLogger{})
		if err != nil {
			res.Inconclusive("NewFanOut: %v", err)
			return res
		}
		g.fo, g.foFirst = fo, r.Bool()
		source = fo
	}
	g.sub = &gsSubscriber{g: g, inner: source, done: map[string]int{}}
	g.ctxDst = r.Chance(0.3)
	g.dst = &vlib.Pub{Name: e.ID() + ".dst", OnPublish: g.onPublish, Script: g.script}
	ok := false
	switch kind {
	case "requeuer":
		ok = g.buildRequeuer(&res)
	case "fanin":
		ok = g.buildFanIn(&res)
	default:
		ok = g.buildForwarder(&res)
	}
	if !ok {
		g.gc.Close()
		return res
	}
	wd := g.comp.wd
	if wd.Watchdog == 0 {
		wd = vlib.WD
	}

	// the FanOut's topics and its other workers (subscribed before anything is relayed)
	workerCtx, cancelWorkers := context.WithCancel(context.Background())
	defer cancelWorkers()
	if g.fo != nil {
		for _, t := range g.topics {
			g.fo.AddSubscription(t)
		}
		for i, n := 0, r.Intn(3); i < n; i++ {
			t := g.topics[r.Intn(len(g.topics))]
			w := &gsWorker{name: fmt.Sprintf("worker%d(%q)", i, t), topic: t, nacks: map[string]int{}, scribble: r.Bool(), fwd: kind == "forwarder", seen: map[string]int{}, done: make(chan struct{})}
			for _, rm := range g.msgs {
				if rm.srcTopic != t {
					continue
				}
				switch x := r.Intn(10); {
				case x < 5:
				case x < 8:
					w.nacks[rm.id] = 1
				default:
					w.nacks[rm.id] = 2
				}
			}
			ch, err := g.fo.Subscribe(workerCtx, t)
			if err != nil {
				res.Inconclusive("FanOut.Subscribe(%q): %v", t, err)
				g.fo.Close()
				g.gc.Close()
				return res
			}
			w.ch = ch
			go w.loop()
			g.workers = append(g.workers, w)
		}
	}

	// who publishes what, when
	var earlyList, lateList []*gsMsg
	canEarly := g.cfg.Persistent && (g.fo == nil || !g.foFirst)
	nEarly := 0
	if canEarly && r.Chance(0.6) {
		nEarly = r.Range(1, len(g.msgs))
	}
	for i, rm := range g.msgs {
		if i < nEarly {
			rm.early = true
			earlyList = append(earlyList, rm)
		} else {
			lateList = append(lateList, rm)
		}
	}
	nPublishers := 1
	if len(lateList) >= 2 && r.Chance(0.4) {
		nPublishers = 2
	}
	lists := make([][][]*gsMsg, nPublishers)
	{
		per := make([][]*gsMsg, nPublishers)
		for i, rm := range lateList {
			per[i%nPublishers] = append(per[i%nPublishers], rm)
		}
		for i := range per {
			lists[i] = gsBatches(r, per[i])
		}
	}
	earlyBatches := gsBatches(r, earlyList)

	var pubErrMu sync.Mutex
	var pubErrs []string
	publishBatch := func(b []*gsMsg) {
		err := g.publish(b)
		g.mu.Lock()
		for _, rm := range b {
			rm.returned = true
		}
		stopping := g.stopping
		g.mu.Unlock()
		if err != nil && !stopping {
			pubErrMu.Lock()
			pubErrs = append(pubErrs, fmt.Sprintf("message #%d: %v", b[0].no, err))
			pubErrMu.Unlock()
		}
	}

	// persistent source: part of the stream is there before the relay subscribes
	if len(earlyBatches) > 0 {
		earlyDone := started(func() {
			for _, b := range earlyBatches {
				publishBatch(b)
			}
		})
		if oc, dump := vlib.WaitClosed(earlyDone, wd); oc != vlib.Done {
			res.Inconclusive("publishing to the persistent source before anybody subscribed did not return (%v)", oc)
			res.Witness = dump
			g.mu.Lock()
			g.stopping = true
			g.mu.Unlock()
			g.gc.Close()
			return res
		}
	}

	var runErr, foErr error
	var runDone, foDone chan struct{}
	startFanOut := func() bool {
		foDone = started(func() { foErr = g.fo.Run(context.Background()) })
		oc, dump := vlib.WaitUntil(func() bool { return vlib.IsClosed(g.fo.Running()) || vlib.IsClosed(foDone) }, wd)
		if oc != vlib.Done || vlib.IsClosed(foDone) {
			res.Inconclusive("FanOut did not start: %v %v", oc, foErr)
			res.Witness = dump
			return false
		}
		return true
	}
	startRelay := func() bool {
		runDone = started(func() { runErr = g.comp.run() })
		oc, dump := vlib.WaitUntil(func() bool {
			return (g.sub.subscribed(g.topics) && g.comp.running()) || vlib.IsClosed(runDone)
		}, wd)
		if oc != vlib.Done || vlib.IsClosed(runDone) {
			res.Inconclusive("%s did not start: %v %v", g.comp.name, oc, runErr)
			res.Witness = dump
			return false
		}
		return true
	}
	shutdown := func() bool {
		g.mu.Lock()
		g.stopping = true
		g.mu.Unlock()
		okAll := true
		wait := func(ch <-chan struct{}, what string) {
			if ch == nil {
				return
			}
			if oc, dump := vlib.WaitClosed(ch, wd); oc != vlib.Done {
				res.Inconclusive("%s: %s did not return (%v)", g.comp.name, what, oc)
				if res.Witness == nil {
					res.Witness = dump
				}
				okAll = false
			}
		}
		if runDone != nil {
			wait(started(g.comp.stop), "stopping the relay")
			wait(runDone, "Run")
		}
		if g.fo != nil {
			wait(started(func() { g.fo.Close() }), "FanOut.Close")
			wait(foDone, "FanOut.Run")
		}
		wait(started(func() { g.gc.Close() }), "GoChannel.Close")
		cancelWorkers()
		for _, w := range g.workers {
			wait(w.done, "a FanOut worker's channel was not closed: its loop")
		}
		return okAll
	}
	up := true
	if g.fo != nil && g.foFirst {
		up = startFanOut() && startRelay()
	} else if g.fo != nil {
		up = startRelay() && startFanOut()
	} else {
		up = startRelay()
	}
	if !up {
		shutdown()
		return res
	}

	var wg sync.WaitGroup
	for _, l := range lists {
		wg.Add(1)
		go func(l [][]*gsMsg) {
			defer wg.Done()
			for _, b := range l {
				publishBatch(b)
			}
		}(l)
	}
	pubDone := started(wg.Wait)

	// everything that can happen happens: the case is judged at quiescence
	oc, dump := vlib.Settle(wd)
	if oc == vlib.Inconclusive {
		res.Inconclusive("%s behind a GoChannel: the process did not become quiescent", g.comp.name)
		res.Witness = dump
	}
	publishersBack := vlib.IsClosed(pubDone)
	if shutdown() {
		vlib.WaitClosed(pubDone, wd)
	}
	if res.Verdict == vlib.Inconcl {
		return res
	}

	g.judge(&res, publishersBack, dump)

	res.Count("gosource_cases_behind_fanout", b2i(g.fo != nil))
	res.Count("gosource_cases_persistent_source", b2i(g.cfg.Persistent))
	res.Count("gosource_cases_block_publish_until_ack", b2i(g.cfg.BlockPublishUntilSubscriberAck))
	res.Count("gosource_published_before_subscribe", nEarly)
	res.Count("gosource_publisher_goroutines", nPublishers)
	res.Count("gosource_cases_ctx_honouring_destination", b2i(g.ctxDst))
	res.Count("gosource_forwarder_middleware_refusals_for_ended_context", int(g.mwRefuse.Load()))
	res.Count("gosource_forwarder_publisher_calls_refused_by_source", int(g.teeRefused.Load()))
	for k, v := range g.counters {
		res.Count(k, v)
	}
	g.odd.count(&res)
	pubErrMu.Lock()
	if len(pubErrs) > 0 && !res.Failed() {
		res.Inconclusive("publishing to the source failed: %s", strings.Join(pubErrs, "; "))
	}
	pubErrMu.Unlock()
	shape := ""
	for _, rm := range g.msgs {
		shape += fmt.Sprintf("%s:%d/%d%v;", rm.kind, len(rm.plan), len(rm.calls), rm.early)
	}
	wshape := ""
	for _, w := range g.workers {
		wshape += fmt.Sprintf("%d/%v/%d;", len(w.nacks), w.scribble, len(w.got))
	}
	res.Sig = vlib.Sig("gosource", g.cfgSig, g.fo != nil, g.foFirst, g.cfg.OutputChannelBuffer, g.cfg.Persistent, g.cfg.BlockPublishUntilSubscriberAck, nPublishers, g.ctxDst, shape, wshape)
	res.Hooks = ctl.Counts()
	src := "gochannel"
	if g.fo != nil {
		src = "fanout(gochannel)"
	}
	res.Sample = map[string]any{"component": g.comp.name, "source": src, "source_config": map[string]any{"OutputChannelBuffer": g.cfg.OutputChannelBuffer, "Persistent": g.cfg.Persistent, "BlockPublishUntilSubscriberAck": g.cfg.BlockPublishUntilSubscriberAck},
		"destination_honours_message_context": g.ctxDst, "fanout_running_before_relay_subscribes": g.foFirst, "fanout_workers": len(g.workers), "config": g.config, "messages": g.trace(8)}
	if res.Failed() {
		w := map[string]any{"messages": g.trace(100)}
		if res.Witness != nil {
			w["goroutines"] = res.Witness
		}
		res.Witness = w
	}
	return res
}

func b2i(b bool) int {
	if b {
		return 1
	}
	return 0
}

func (g *gsCase) trace(max int) []map[string]any {
	g.mu.Lock()
	defer g.mu.Unlock()
	var out []map[string]any
	for _, rm := range g.msgs {
		if len(out) >= max {
			break
		}
		var plan, calls []string
		for _, k := range rm.plan {
			plan = append(plan, fkNames[k])
		}
		for _, cr := range rm.calls {
			o := "ok"
			if cr.c.Err != nil {
				o = "err"
			}
			if cr.c.Panic != nil {
				o = "panic"
			}
			if cr.ctxErr != nil {
				o = "refused:ended-context"
			}
			s := fmt.Sprintf("pub#%d(%q)=%s", cr.c.No, cr.c.Topic, o)
			if len(cr.c.Snaps) > 0 {
				if v, ok := cr.c.Snaps[0].Metadata[requeuer.RetriesKey]; ok {
					s += fmt.Sprintf(" retries=%q", v)
				}
			}
			calls = append(calls, s)
		}
		out = append(out, map[string]any{"no": rm.no, "kind": rm.kind, "uuid": rm.pub.UUID, "src_topic": rm.srcTopic, "want_topic": rm.wantTopic, "published_metadata": rm.pub.Metadata,
			"published_payload": clip(rm.pub.Payload), "plan": plan, "published_before_subscribe": rm.early, "destination_calls": calls,
			"copies_consumed_by_relay": rm.consumed, "copies_with_ended_context": rm.deadCtx, "copies_acked_by_runaway_guard": rm.swallowed})
	}
	return out
}

// judge checks what the destination (and the FanOut's other workers) saw against the statement. The process was
// quiescent (or, after a watchdog, the case is already inconclusive), every component is stopped.
func (g *gsCase) judge(res *vlib.Result, publishersBack bool, dump string) {
	g.mu.Lock()
	defer g.mu.Unlock()
	name := g.comp.name
	src := "a GoChannel"
	if g.fo != nil {
		src = "a FanOut fed by a GoChannel"
	}
	for _, c := range g.strays {
		uuid, id := "<no message>", ""
		if len(c.Snaps) > 0 {
			uuid, id = c.Snaps[0].UUID, c.Snaps[0].Metadata[idKey]
		}
		if rm := g.byID[id]; rm != nil && !rm.valid {
			res.Fail("non-envelope-forwarded", "%s behind %s: message #%d (%s, payload %q) is not a valid envelope but destination Publish #%d on %q happened", name, src, rm.no, rm.kind, clip(rm.pub.Payload), c.No, c.Topic)
			continue
		}
		res.Fail("invented", "%s behind %s: destination Publish #%d on topic %q carries message uuid=%q (%s=%q) that was never published to the source", name, src, c.No, c.Topic, uuid, idKey, id)
	}
	relayed, failed, redeliveries, sampled, malformed := 0, 0, 0, 0, 0
	consumed, deadCtx, ctxRefused, swallowed := 0, 0, 0, 0
	judgeBlock := g.fo == nil && g.cfg.BlockPublishUntilSubscriberAck
	for _, rm := range g.msgs {
		res.Events += 1 + len(rm.calls)
		where := fmt.Sprintf("%s behind %s: message #%d (%s, uuid=%q, published on %q", name, src, rm.no, rm.kind, rm.pub.UUID, rm.srcTopic)
		if rm.early {
			where += ", before the relay subscribed"
		}
		where += ")"
		if !rm.valid {
			malformed++
			swallowed += rm.swallowed
			if rm.nacked > 0 && g.ackCU {
				res.Fail("cannot-unwrap-settle", "%s: AckWhenCannotUnwrap=true but the non-envelope (payload %q) was Nacked: it came again from the source %d times while nobody was stopping the relay (copies acknowledged by the harness to end the loop: %d)", where, clip(rm.pub.Payload), rm.nacked, rm.swallowed)
			}
			continue // a call for it is a stray (it cannot carry the id), reported above
		}
		nCtx := 0
		for i, cr := range rm.calls {
			c := cr.c
			at := fmt.Sprintf("%s destination call %d of %d (Publish #%d, plan: %d refused then accepted)", where, i+1, len(rm.calls), c.No, len(rm.plan))
			if judgeBlock && !rm.early {
				sampled++
				if cr.afterReturn {
					// "When true, Publish will block until subscriber Ack's the message" (gochannel.Config)
					res.Fail("ack-before-accept", "%s: the source's Publish (BlockPublishUntilSubscriberAck) had already returned - the consumed copy was acknowledged - when this call reached the destination", at)
				}
			}
			if len(c.Snaps) != 1 {
				res.Fail("dest-value", "%s carries %d messages, want exactly the consumed one", at, len(c.Snaps))
				continue
			}
			got := c.Snaps[0]
			if c.Topic != rm.wantTopic {
				res.Fail("dest-topic", "%s: published to %q, computed destination is %q", at, c.Topic, rm.wantTopic)
			}
			if got.UUID != rm.want.UUID {
				res.Fail("dest-uuid", "%s: destination got uuid %q, want %q", at, got.UUID, rm.want.UUID)
			}
			if string(got.Payload) != string(rm.want.Payload) {
				res.Fail("dest-payload", "%s: destination got payload %q, want %q", at, clip(got.Payload), clip(rm.want.Payload))
			}
			if d := metaDiff(rm.want.Metadata, got.Metadata); len(d) > 0 {
				clause := "dest-metadata"
				if g.kind == "requeuer" && len(d) == 1 && d[0] == requeuer.RetriesKey {
					clause = "retries"
				}
				res.Fail(clause, "%s: destination metadata differs at %v: got %s want %s (published to the source: %s)", at, d, describeMeta(got.Metadata, d), describeMeta(rm.want.Metadata, d), describeMeta(rm.pub.Metadata, d))
			}
			if cr.ctxErr != nil {
				nCtx++
			} else if c.Err != nil || c.Panic != nil {
				failed++
			} else {
				relayed++
			}
			if i > 0 {
				redeliveries++
			}
		}
		consumed += rm.consumed
		deadCtx += rm.deadCtx
		ctxRefused += nCtx
		swallowed += rm.swallowed
		if rm.runaway != "" {
			res.Fail("runaway-redelivery", "%s is in an endless Nack/redelivery loop although its destination plan is finite (%d refused calls, then accepted): %s; %d of the consumed copies came with an already ended context; the harness ended the loop (copies acknowledged by the guard: %d)", where, len(rm.plan), rm.runaway, rm.deadCtx, rm.swallowed)
			continue
		}
		if rm.consumed > len(rm.calls) {
			res.Fail("consumed-not-relayed", "%s: the relay consumed %d copies of it from the source but made only %d destination calls for it (process quiescent, nobody was stopping the relay): a consumed copy was settled without being handed to the destination (%d copies came with an already ended context)", where, rm.consumed, len(rm.calls), rm.deadCtx)
		}
		// calls refused only because the message came with an ended context are outside the plan
		lastRefusal := "the message's context had ended"
		if k := len(rm.calls); k > 0 && rm.calls[k-1].ctxErr == nil {
			lastRefusal = fkNames[rm.calls[k-1].planned]
		}
		switch n, want := len(rm.calls)-nCtx, len(rm.plan)+1; {
		case len(rm.calls) == 0:
			res.Fail("not-relayed", "%s never reached the destination (process quiescent, source Publish returned: %v)", where, rm.returned)
			if res.Witness == nil {
				res.Witness = dump
			}
		case n < want:
			res.Fail("no-redelivery-after-failure", "%s: destination call %d was refused (%s) and the message never came again (process quiescent; source Publish returned: %v): a GoChannel subscription gets a Nacked message again, so the consumed copy was not Nacked", where, len(rm.calls), lastRefusal, rm.returned)
			if res.Witness == nil {
				res.Witness = dump
			}
		case n > want:
			res.Fail("duplicate-relay", "%s: %d destination calls, but call %d was accepted: the message was relayed again after the destination had accepted it", where, n, want)
		}
	}
	if !publishersBack && !res.Failed() {
		res.Fail("unsettled", "%s behind %s: a Publish to the source (BlockPublishUntilSubscriberAck=%v) never returned although every message reached the destination (process quiescent)", name, src, g.cfg.BlockPublishUntilSubscriberAck)
		res.Witness = dump
	}

	// the FanOut's other workers
	receipts, wnacks, scribbled := 0, 0, 0
	for _, w := range g.workers {
		w.mu.Lock()
		res.Events += len(w.got)
		receipts += len(w.got)
		scribbled += w.scribbled
		for _, rc := range w.got {
			rm := g.byID[rc.id]
			if rm == nil || rm.srcTopic != w.topic {
				res.Fail("fanout-invented", "FanOut (next to %s): %s received message uuid=%q (%s=%q) that was never published to its topic", name, w.name, rc.snap.UUID, idKey, rc.id)
				continue
			}
			if !rm.haveSrc {
				continue
			}
			if rc.snap.UUID != rm.srcSnap.UUID {
				res.Fail("dest-uuid", "FanOut (next to %s): %s got message #%d with uuid %q, the source carried uuid %q (its Nacks so far of this message: up to %d)", name, w.name, rm.no, rc.snap.UUID, rm.srcSnap.UUID, w.nacks[rc.id])
			}
			if string(rc.snap.Payload) != string(rm.srcSnap.Payload) {
				res.Fail("dest-payload", "FanOut (next to %s): %s got payload %q for message #%d, want %q", name, w.name, clip(rc.snap.Payload), rm.no, clip(rm.srcSnap.Payload))
			}
			if d := metaDiff(rm.srcSnap.Metadata, rc.snap.Metadata); len(d) > 0 {
				res.Fail("dest-metadata", "FanOut (next to %s): %s: metadata of message #%d differs at %v: got %s want %s", name, w.name, rm.no, d, describeMeta(rc.snap.Metadata, d), describeMeta(rm.srcSnap.Metadata, d))
			}
		}
		for _, rm := range g.msgs {
			if rm.srcTopic != w.topic {
				continue
			}
			want := 1 + w.nacks[rm.id]
			wnacks += w.nacks[rm.id]
			if got := w.seen[rm.id]; got > want {
				res.Fail("fanout-invented", "FanOut (next to %s): %s received message #%d uuid=%q %d times, want %d (1 + its %d Nacks)", name, w.name, rm.no, rm.pub.UUID, got, want, w.nacks[rm.id])
			} else if got < want {
				res.Fail("fanout-missing", "FanOut (next to %s): %s received message #%d uuid=%q %d times, want %d (1 + its %d Nacks; process quiescent)", name, w.name, rm.no, rm.pub.UUID, got, want, w.nacks[rm.id])
				if res.Witness == nil {
					res.Witness = dump
				}
			}
		}
		w.mu.Unlock()
	}

	res.Count("messages", len(g.msgs))
	res.Count("relayed_ok", relayed)
	res.Count("dest_failures_injected", failed)
	res.Count("gosource_redeliveries_after_refused_call", redeliveries)
	res.Count("gosource_calls_sampled_against_blocking_publish", sampled)
	res.Count("malformed_deliveries", malformed)
	res.Count("gosource_copies_consumed_by_relay", consumed)
	res.Count("gosource_copies_consumed_with_ended_context", deadCtx)
	res.Count("gosource_dest_calls_refused_for_ended_context", ctxRefused)
	res.Count("gosource_copies_acked_by_runaway_guard", swallowed)
	if g.fo != nil {
		res.Count("fanout_subscriptions", len(g.workers))
		res.Count("fanout_deliveries", receipts)
		res.Count("fanout_subscriber_nacks", wnacks)
		res.Count("gosource_worker_copies_edited_before_nack", scribbled)
	}
	// non-trivial: a message came again from the real source after a refused destination call and was relayed
	res.NonTrivial = relayed > 0 && redeliveries > 0
}
