package c17

import (
	"context"
	"fmt"
	"runtime"
	"sync"

	"github.com/ThreeDotsLabs/watermill"
	"github.com/ThreeDotsLabs/watermill/message"
	"github.com/ThreeDotsLabs/watermill/pubsub/gochannel"
	"github.com/ThreeDotsLabs/watermill/verifhook"

	"verifharness/vlib"
)

// idKey is a metadata key that identifies a FanOut case's message at the subscriptions (UUIDs may be empty or
// repeated; the internal Pub/Sub hands out copies, so neither the pointer nor the context survives).
const idKey = "c17-id"

// foConsumer is one FanOut.Subscribe subscription read by the harness.
type foConsumer struct {
	id    string
	topic string
	ch    <-chan *message.Message
	nacks map[string]int // message id (metadata idKey) -> number of Nacks before the Ack
	yield int            // Gosched calls between receiving a message and settling it (a worker that is not instantaneous)

	mu   sync.Mutex
	got  []vlib.MsgSnap
	seen map[string]int
	done chan struct{}
}

func (c *foConsumer) loop() {
	defer close(c.done)
	for m := range c.ch {
		s := vlib.Snap(m)
		id := m.Metadata[idKey]
		c.mu.Lock()
		c.got = append(c.got, s)
		n := c.seen[id]
		c.seen[id]++
		c.mu.Unlock()
		for i := 0; i < c.yield; i++ {
			runtime.Gosched()
		}
		if n < c.nacks[id] {
			m.Nack()
		} else {
			m.Ack()
		}
	}
}

func (c *foConsumer) count() int {
	c.mu.Lock()
	defer c.mu.Unlock()
	return len(c.got)
}

// foProbe samples, at the entry of the FanOut's internal GoChannel.Publish (hook point
// gochannel.publish.after_closed_check, a = topic), the settle state of the source copy in flight on that topic.
type foProbe struct {
	mon         *monitor
	conc        bool
	pubs        map[*copyRec]int
	sampled     map[*copyRec]string
	latePublish []string
	// several copies of a topic in flight (conc): the hook only names the topic, so the clauses are counted ones
	entries map[string]int // internal Publish calls entered per topic
	early   []string
}

func (p *foProbe) at(point, a, b string) {
	if point != "gochannel.publish.after_closed_check" {
		return
	}
	p.mon.mu.Lock()
	defer p.mon.mu.Unlock()
	if p.conc {
		// Every acknowledged copy of topic a was acknowledged after its own internal Publish had been entered, and the
		// copy this call belongs to is not settled yet: with E calls entered so far (this one included) at most E-1
		// copies of the topic can be acked. (Calls that enter later wait for the monitor lock, acks of earlier ones do not.)
		p.entries[a]++
		acked := 0
		for _, f := range p.mon.flights {
			if f.rm.SrcTopic == a && vlib.Settled(f.rec.m) == "ack" {
				acked++
			}
		}
		if acked >= p.entries[a] {
			p.early = append(p.early, fmt.Sprintf("internal Publish #%d on topic %q entered when %d source copies of that topic were already acked", p.entries[a], a, acked))
		}
		return
	}
	for _, l := range p.mon.byKey {
		for _, f := range l {
			if f.rm.SrcTopic == a {
				p.pubs[f.rec]++
				if s := vlib.Settled(f.rec.m); s != "" && p.sampled[f.rec] == "" {
					p.sampled[f.rec] = s
				}
				return
			}
		}
	}
	p.latePublish = append(p.latePublish, a)
}

func runFanOut(e *vlib.Env) vlib.Result { return runFanOutOpt(e, false) }

func runFanOutOpt(e *vlib.Env, conc bool) vlib.Result {
	r := e.R
	res := vlib.Result{Class: "fanout"}
	if conc {
		res.Class = "concurrent/fanout"
	}
	ctl := vlib.NewCtl(r.Uint64(), 0.15, 30)
	defer ctl.Uninstall()

	nTopics := r.Range(1, 3)
	topics := genTopics(e, "fo", nTopics, true)
	unadded := genTopics(e, "unadded", 1, true)[0]

	src := &vlib.Sub{Name: e.ID() + ".src"}
	var logger watermill.LoggerAdapter = watermill.NopLogger{}
	if r.Chance(0.2) {
		logger = nil
	}
	fo, err := gochannel.NewFanOut(src, logger)
	if err != nil {
		res.Inconclusive("NewFanOut: %v", err)
		return res
	}
	dupAdds := 0
	for _, t := range topics {
		fo.AddSubscription(t)
		if r.Chance(0.3) {
			fo.AddSubscription(t) // documented idempotent
			dupAdds++
		}
	}

	// messages (one serial stream per topic)
	var msgs []*relayMsg
	byTopic := map[string][]*relayMsg{}
	n := r.Range(3, 10)
	if conc {
		n = r.Range(4, 12)
	}
	o := &odd{}
	ids := map[string]*relayMsg{}
	for i := 0; i < n; i++ {
		m := genMsg(e, i, true)
		o.uuid(r, m)
		id := fmt.Sprint(i)
		m.Metadata.Set(idKey, id)
		t := topics[r.Intn(nTopics)]
		rm := &relayMsg{No: i, Kind: "relay", SrcTopic: t, Orig: m, Valid: true, WantTopic: t, Want: vlib.Snap(m), MaxRedeliver: 2}
		ids[id] = rm
		msgs = append(msgs, rm)
		byTopic[t] = append(byTopic[t], rm)
	}

	// consumers: 0..3 per topic, one on a topic that was never added
	var consumers []*foConsumer
	mk := func(topic string) *foConsumer {
		c := &foConsumer{id: fmt.Sprintf("sub%d(%q)", len(consumers), topic), topic: topic, nacks: map[string]int{}, seen: map[string]int{}, done: make(chan struct{})}
		for _, rm := range byTopic[topic] {
			switch x := r.Intn(10); {
			case x < 7:
			case x < 9:
				c.nacks[rm.Orig.Metadata[idKey]] = 1
			default:
				c.nacks[rm.Orig.Metadata[idKey]] = 2
			}
		}
		consumers = append(consumers, c)
		return c
	}
	maxSubs := 0
	for _, t := range topics {
		k := r.Intn(4)
		if k > maxSubs {
			maxSubs = k
		}
		for i := 0; i < k; i++ {
			mk(t)
		}
	}
	mk(unadded)
	early := make([]bool, len(consumers))
	for i := range early {
		early[i] = r.Bool()
	}
	ctx, cancel := context.WithCancel(context.Background())
	defer cancel()
	subscribe := func(c *foConsumer) bool {
		ch, err := fo.Subscribe(ctx, c.topic)
		if err != nil {
			res.Inconclusive("FanOut.Subscribe(%q): %v", c.topic, err)
			return false
		}
		c.ch = ch
		go c.loop()
		return true
	}
	for i, c := range consumers {
		if early[i] && !subscribe(c) {
			return res
		}
	}

	mon := newMonitor(false)
	probe := &foProbe{mon: mon, conc: conc, pubs: map[*copyRec]int{}, sampled: map[*copyRec]string{}, entries: map[string]int{}}
	var co *concOpts
	wd := vlib.WD
	if conc {
		// FanOut's destination is its own GoChannel: the gate sits between the handler's return and the Router's
		// publishing of what it returned (hook router.handle.before_publish)
		co = newConc(r, r.Range(2, 4), "hook")
		wd.IgnoreFrames = []string{gateFrame}
		defer co.gate.openForever()
	}
	if verifhook.Enabled {
		ctl.Observe(func(point, a, b string) {
			probe.at(point, a, b)
			if co != nil {
				co.hook(point, a, b)
			}
		})
	} else if conc {
		res.Verdict = vlib.Unreached
		res.Reason = "hooks are not compiled in: the gate of the concurrent FanOut class needs router.handle.before_publish"
		return res
	}

	var runErr error
	runDone := started(func() { runErr = fo.Run(context.Background()) })
	shutdown := func() bool {
		closeDone := started(func() { fo.Close() })
		if oc, dump := vlib.WaitClosed(closeDone, vlib.WD); oc != vlib.Done {
			res.Inconclusive("FanOut.Close did not return (%v)", oc)
			if res.Witness == nil {
				res.Witness = dump
			}
			return false
		}
		if oc, _ := vlib.WaitClosed(runDone, vlib.WD); oc != vlib.Done {
			res.Inconclusive("FanOut.Run did not return after Close (%v)", oc)
			return false
		}
		for _, c := range consumers {
			if c.ch == nil {
				continue
			}
			if oc, _ := vlib.WaitClosed(c.done, vlib.WD); oc != vlib.Done {
				res.Inconclusive("FanOut subscription %s was not closed by Close (%v)", c.id, oc)
				return false
			}
		}
		return true
	}
	if oc, dump := vlib.WaitUntil(func() bool { return vlib.IsClosed(fo.Running()) || vlib.IsClosed(runDone) }, vlib.WD); oc != vlib.Done || vlib.IsClosed(runDone) {
		if vlib.IsClosed(runDone) {
			res.Inconclusive("FanOut.Run returned before Running(): %v", runErr)
		} else {
			res.Inconclusive("FanOut did not start: %v", oc)
		}
		res.Witness = dump
		return res
	}
	for i, c := range consumers {
		if !early[i] && !subscribe(c) {
			shutdown()
			return res
		}
	}
	subs := map[string]*vlib.Subscription{}
	for _, t := range topics {
		sp := src.SubFor(t)
		if sp == nil {
			res.Fail("no-subscription", "FanOut did not subscribe to added topic %q at its source subscriber", t)
			shutdown()
			return res
		}
		subs[t] = sp
	}
	var wg sync.WaitGroup
	for _, t := range topics {
		spawnDeliverers(&wg, mon, subs[t], byTopic[t], co)
	}
	delivDone := started(wg.Wait)

	// expected number of deliveries per consumer: one per message of its topic plus its own Nacks
	expect := func(c *foConsumer) int {
		n := 0
		for _, rm := range byTopic[c.topic] {
			n += 1 + c.nacks[rm.Orig.Metadata[idKey]]
		}
		return n
	}
	complete := func() bool {
		if !vlib.IsClosed(delivDone) {
			return false
		}
		for _, c := range consumers {
			if c.count() < expect(c) {
				return false
			}
		}
		return true
	}
	var oc vlib.Outcome
	var dump string
	for {
		oc, dump = vlib.WaitUntil(func() bool { return complete() || (co != nil && co.ready()) }, wd)
		if co == nil || oc == vlib.Inconclusive || complete() || !co.open(oc) {
			break
		}
	}
	if co != nil {
		co.gate.openForever()
	}
	settledAll := vlib.IsClosed(delivDone)
	switch oc {
	case vlib.Stuck:
		if !settledAll {
			res.Fail("unsettled", "FanOut: a delivered source message was never acked or nacked (process quiescent)")
		} else {
			for _, c := range consumers {
				c.mu.Lock()
				for _, rm := range byTopic[c.topic] {
					if c.seen[rm.Orig.Metadata[idKey]] == 0 {
						res.Fail("fanout-missing", "FanOut: subscription %s never received message #%d uuid=%q consumed from topic %q (source copy acked; process quiescent)", c.id, rm.No, rm.Orig.UUID, rm.SrcTopic)
					}
				}
				if len(c.got) < expect(c) {
					res.Fail("fanout-missing", "FanOut: subscription %s received %d deliveries, %d expected (a nacked delivery was not redelivered; process quiescent)", c.id, len(c.got), expect(c))
				}
				c.mu.Unlock()
			}
		}
		res.Witness = dump
	case vlib.Inconclusive:
		res.Inconclusive("FanOut: deliveries did not complete before the watchdog")
		res.Witness = dump
	default:
		// everything expected has arrived; let anything surplus arrive as well
		if o, d := vlib.Settle(vlib.WD); o == vlib.Inconclusive {
			res.Inconclusive("FanOut: process did not become quiescent")
			res.Witness = d
		}
	}
	ok := shutdown()
	if !settledAll && ok {
		vlib.WaitClosed(delivDone, vlib.WD)
	}

	// judge
	mon.mu.Lock()
	relayed, nackedBySubs := 0, 0
	for _, rm := range msgs {
		if rm.dropped {
			res.Fail("subscription-ended", "FanOut: the source subscription ended while message #%d was being delivered", rm.No)
		}
		for _, rec := range rm.copies {
			res.Events += 2
			where := fmt.Sprintf("FanOut: message #%d (uuid=%q, topic %q) delivery %d", rm.No, rm.Orig.UUID, rm.SrcTopic, rec.attempt)
			if rec.settle == "" {
				continue
			}
			if verifhook.Enabled && !conc {
				if s := probe.sampled[rec]; s != "" {
					res.Fail("ack-before-accept", "%s: source copy was already %sed when the internal Pub/Sub's Publish was entered", where, s)
				}
				if probe.pubs[rec] == 0 && rec.settle == "ack" {
					res.Fail("ack-without-accept", "%s: acked, but the internal Pub/Sub's Publish was never entered for topic %q while it was in flight", where, rm.SrcTopic)
				}
			}
			if rec.settle != "ack" {
				res.Fail("nack-after-success", "%s: source copy was nacked although the internal Pub/Sub was open", where)
			} else {
				relayed++
			}
		}
	}
	if verifhook.Enabled && len(probe.latePublish) > 0 {
		res.Fail("ack-before-accept", "FanOut: internal Publish on topic(s) %q entered while no source message of that topic was in flight (after its settlement)", probe.latePublish)
	}
	if conc {
		if len(probe.early) > 0 {
			res.Fail("ack-before-accept", "FanOut: %s (%d such entries)", probe.early[0], len(probe.early))
		}
		ackedOn := map[string]int{}
		for _, f := range mon.flights {
			if f.rec.settle == "ack" {
				ackedOn[f.rm.SrcTopic]++
			}
		}
		for t, a := range ackedOn {
			if probe.entries[t] < a {
				res.Fail("ack-without-accept", "FanOut: %d source copies of topic %q were acked, but the internal Pub/Sub's Publish was entered only %d times for that topic", a, t, probe.entries[t])
			}
		}
	}
	mon.mu.Unlock()
	for _, c := range consumers {
		c.mu.Lock()
		res.Events += len(c.got)
		for _, g := range c.got {
			rm := ids[g.Metadata[idKey]]
			if rm == nil || rm.SrcTopic != c.topic {
				res.Fail("fanout-invented", "FanOut: subscription %s received message uuid=%q (%s=%q) that was never consumed from its topic", c.id, g.UUID, idKey, g.Metadata[idKey])
				continue
			}
			if g.UUID != rm.Want.UUID {
				res.Fail("dest-uuid", "FanOut: subscription %s got message #%d with uuid %q, consumed with uuid %q", c.id, rm.No, g.UUID, rm.Want.UUID)
			}
			if string(g.Payload) != string(rm.Want.Payload) {
				res.Fail("dest-payload", "FanOut: subscription %s got payload %q for uuid=%q, want %q", c.id, clip(g.Payload), g.UUID, clip(rm.Want.Payload))
			}
			if d := metaDiff(rm.Want.Metadata, g.Metadata); len(d) > 0 {
				res.Fail("dest-metadata", "FanOut: subscription %s: metadata of uuid=%q differs at %v: got %s want %s", c.id, g.UUID, d, describeMeta(g.Metadata, d), describeMeta(rm.Want.Metadata, d))
			}
		}
		for _, rm := range byTopic[c.topic] {
			id := rm.Orig.Metadata[idKey]
			want := 1 + c.nacks[id]
			nackedBySubs += c.nacks[id]
			if got := c.seen[id]; got > want {
				res.Fail("fanout-invented", "FanOut: subscription %s received message #%d uuid=%q %d times, want %d (1 + its %d Nacks)", c.id, rm.No, rm.Orig.UUID, got, want, c.nacks[id])
			} else if got < want && !res.Failed() && oc == vlib.Done {
				res.Fail("fanout-missing", "FanOut: subscription %s received message #%d uuid=%q %d times, want %d", c.id, rm.No, rm.Orig.UUID, got, want)
			}
		}
		c.mu.Unlock()
	}

	res.Count("messages", len(msgs))
	res.Count("relayed_ok", relayed)
	res.Count("fanout_subscriptions", len(consumers)-1)
	res.Count("fanout_subscriber_nacks", nackedBySubs)
	res.Count("duplicate_add_subscription", dupAdds)
	total := 0
	for _, c := range consumers {
		total += c.count()
	}
	res.Count("fanout_deliveries", total)
	res.NonTrivial = relayed > 0 && (maxSubs >= 2 || o.any())
	o.count(&res)
	if conc {
		co.count(&res)
		res.NonTrivial = relayed > 0 && maxSubs >= 1 && co.multiRelease > 0
	}
	shape := ""
	for _, c := range consumers {
		shape += fmt.Sprintf("%d/%d;", len(byTopic[c.topic]), expect(c))
	}
	res.Sig = vlib.Sig("fanout", nTopics, logger == nil, dupAdds, early, shape, shapeSig(msgs))
	if conc {
		res.Sig = vlib.Sig(res.Sig, co.sig())
	}
	res.Hooks = ctl.Counts()
	var cs []map[string]any
	for i, c := range consumers {
		cs = append(cs, map[string]any{"id": c.id, "subscribed_before_run": early[i], "nack_plan": len(c.nacks), "expected": expect(c), "received": c.count()})
	}
	res.Sample = map[string]any{"component": "FanOut", "topics": topics, "unadded_topic": unadded, "subscriptions": cs, "messages": msgTrace(msgs, 8)}
	if res.Failed() && res.Witness == nil {
		res.Witness = map[string]any{"subscriptions": cs, "messages": msgTrace(msgs, 100)}
	}
	return res
}
