package c17

import (
	"context"
	"fmt"
	"runtime"
	"strings"
	"sync"

	"github.com/ThreeDotsLabs/watermill"
	"github.com/ThreeDotsLabs/watermill/pubsub/gochannel"
	"github.com/ThreeDotsLabs/watermill/verifhook"

	"verifharness/vlib"
)

// Class churn/fanout: a FanOut whose subscriptions come and go while messages are being relayed.
//
// "A typical use case for using FanOut is having one external subscription and multiple workers inside the
// process" (godoc of FanOut) - and workers are started and stopped while the external subscription keeps
// delivering. Every topic has several always-acking workers: some stay for the whole case, some (preferably the
// OLDEST subscription of the topic, so that every later one moves inside the internal Pub/Sub's bookkeeping) end
// their subscription (context cancelled) while the topic's message stream is relayed, some are subscribed in the
// middle of the stream (re-Subscribe on a topic others have just left) and may leave again later.
//
// What the statement demands here: the FanOut relays each consumed message to the destination - its subscriptions
// of that topic - intact, and acknowledges it only after the internal Pub/Sub accepted it. A subscription that
// exists from before the message was handed to the FanOut until the end of the case, and acks everything at once,
// therefore receives the message exactly once per successful (acked) relay: zero is a lost message, two is an
// invented one. A subscription that leaves (or joined later) may miss messages, but never gets one twice.
//
// The point in time at which a leaving subscription disappears from the internal Pub/Sub is a schedule dimension:
// the removal runs freely, or it is held at hook gochannel.unsubscribe.before_remove and let go when the internal
// Publish of a chosen message has just returned (router.handle.before_settle), when one of that message's sends
// to a subscription begins (gochannel.send.locked), or when the source has seen the message acked.
// No verdict depends on time: "never received" is decided by the quiescence detector.

type chMode int

const (
	lvBefore     chMode = iota // cancelled before message k is handed to the FanOut, teardown runs freely
	lvAfterAck                 // cancelled right after the source saw message k acked, the next message follows at once
	lvParkSettle               // cancelled before message k; removal held until the internal Publish of message k returned
	lvParkSend                 // cancelled before message k; removal held until a send of message k to a subscription begins
	lvParkAck                  // cancelled before message k; removal held until the source saw message k acked
	nLvModes
)

var lvNames = [...]string{"before", "after-ack", "held-until-publish-returned", "held-until-send-begins", "held-until-source-ack"}

// chPark holds one subscription's removal from the internal Pub/Sub at gochannel.unsubscribe.before_remove.
type chPark struct {
	release chan struct{}
	once    sync.Once
	yields  int // Gosched calls of the releasing goroutine after the release (lets the removal run first)
	nth     int // lvParkSend: which send of the message triggers
	seen    int
}

func (p *chPark) open() { p.once.Do(func() { close(p.release) }) }

//go:noinline
func (p *chPark) wait() { <-p.release }

// chWorker is one FanOut subscription of the case.
type chWorker struct {
	*foConsumer
	no      int
	joinAt  int // -1: subscribed before the first message; k: subscribed right before message k of its topic is handed over
	early   bool
	leaveAt int // -1: stays until the FanOut is closed; k: leaves at message k of its topic
	mode    chMode
	park    *chPark
	ctx     context.Context
	cancel  context.CancelFunc
	shifts  bool // by the script, a later subscription of the topic still existed when this one left
	nacker  bool // has a nack plan
}

type chState struct {
	fo *gochannel.FanOut

	mu         sync.Mutex
	pending    map[string][]*chPark         // topic -> removals to hold, in cancel order
	atSettle   map[string]map[int][]*chPark // topic -> k -> parks to open when the k-th handled message's Publish returned
	atSend     map[string][]*chPark         // message UUID -> parks to open when a send of that message begins
	settles    map[string]int               // topic -> before_settle arrivals
	parks      []*chPark
	held       int    // removals that actually waited at the hook
	letGo      [3]int // removals let go: when the internal Publish returned / when a send began / when the source saw the ack
	subscribed map[*chWorker]bool
	subErr     error
}

func (cs *chState) at(point, a, b string) {
	switch point {
	case "gochannel.unsubscribe.before_remove":
		cs.mu.Lock()
		var pk *chPark
		if q := cs.pending[a]; len(q) > 0 {
			pk, cs.pending[a] = q[0], q[1:]
			cs.held++
		}
		cs.mu.Unlock()
		if pk != nil {
			pk.wait()
		}
	case "router.handle.before_settle":
		topic := strings.TrimPrefix(a, "fanout-")
		cs.mu.Lock()
		k := cs.settles[topic]
		cs.settles[topic] = k + 1
		l := cs.atSettle[topic][k]
		if len(l) > 0 {
			delete(cs.atSettle[topic], k)
			cs.letGo[0] += len(l)
		}
		cs.mu.Unlock()
		cs.openAll(l)
	case "gochannel.send.locked":
		cs.mu.Lock()
		var l, keep []*chPark
		for _, pk := range cs.atSend[a] {
			if pk.seen >= pk.nth {
				l = append(l, pk)
			} else {
				pk.seen++
				keep = append(keep, pk)
			}
		}
		if len(l) > 0 {
			cs.atSend[a] = keep
			cs.letGo[1] += len(l)
		}
		cs.mu.Unlock()
		cs.openAll(l)
	}
}

func (cs *chState) openAll(l []*chPark) {
	y := 0
	for _, pk := range l {
		pk.open()
		if pk.yields > y {
			y = pk.yields
		}
	}
	for i := 0; i < y; i++ {
		runtime.Gosched()
	}
}

func (cs *chState) openEverything() {
	cs.mu.Lock()
	l := append([]*chPark(nil), cs.parks...)
	cs.mu.Unlock()
	for _, pk := range l {
		pk.open()
	}
}

// join subscribes w (on the calling goroutine: Subscribe has returned before the caller goes on).
func (cs *chState) join(w *chWorker) bool {
	ch, err := cs.fo.Subscribe(w.ctx, w.topic)
	cs.mu.Lock()
	defer cs.mu.Unlock()
	if err != nil {
		if cs.subErr == nil {
			cs.subErr = fmt.Errorf("FanOut.Subscribe(%q) for %s: %w", w.topic, w.id, err)
		}
		return false
	}
	w.ch = ch
	cs.subscribed[w] = true
	go w.loop()
	return true
}

// leave ends w's subscription; with a held removal the hold is registered first.
func (cs *chState) leave(w *chWorker) {
	if w.park != nil {
		cs.mu.Lock()
		cs.pending[w.topic] = append(cs.pending[w.topic], w.park)
		cs.mu.Unlock()
	}
	w.cancel()
}

type chStep struct {
	before []func()
	after  []func()
}

func runFanOutChurn(e *vlib.Env) vlib.Result {
	r := e.R
	res := vlib.Result{Class: "churn/fanout"}
	ctl := vlib.NewCtl(r.Uint64(), 0.15, 30)
	defer ctl.Uninstall()

	nTopics := r.Range(1, 2)
	topics := genTopics(e, "ch", nTopics, true)
	src := &vlib.Sub{Name: e.ID() + ".src"}
	fo, err := gochannel.NewFanOut(src, watermill.NopLogger{})
	if err != nil {
		res.Inconclusive("NewFanOut: %v", err)
		return res
	}
	for _, t := range topics {
		fo.AddSubscription(t)
	}
	cs := &chState{fo: fo, pending: map[string][]*chPark{}, atSettle: map[string]map[int][]*chPark{}, atSend: map[string][]*chPark{},
		settles: map[string]int{}, subscribed: map[*chWorker]bool{}}
	defer cs.openEverything()

	// messages: one serial stream per topic
	var msgs []*relayMsg
	byTopic := map[string][]*relayMsg{}
	ids := map[string]*relayMsg{}
	o := &odd{}
	for ti, t := range topics {
		n := r.Range(6, 14)
		for i := 0; i < n; i++ {
			no := len(msgs)
			m := genMsg(e, no, true)
			o.uuid(r, m)
			id := fmt.Sprintf("%d.%d", ti, i)
			m.Metadata.Set(idKey, id)
			rm := &relayMsg{No: no, Kind: "relay", SrcTopic: t, Orig: m, Valid: true, WantTopic: t, Want: vlib.Snap(m), MaxRedeliver: 2}
			ids[id] = rm
			msgs = append(msgs, rm)
			byTopic[t] = append(byTopic[t], rm)
		}
	}

	// workers and the churn script
	var workers []*chWorker
	steps := map[string][]chStep{}
	hooks := verifhook.Enabled
	mkWorker := func(t string, joinAt, leaveAt int) *chWorker {
		w := &chWorker{no: len(workers), joinAt: joinAt, leaveAt: leaveAt}
		role := "stays"
		if leaveAt >= 0 {
			role = fmt.Sprintf("leaves@%d", leaveAt)
			w.mode = chMode(r.Intn(int(nLvModes)))
			if !hooks && w.mode >= lvParkSettle {
				w.mode = chMode(r.Intn(2))
			}
			role += "/" + lvNames[w.mode]
		}
		if joinAt >= 0 {
			role = fmt.Sprintf("joins@%d,", joinAt) + role
		}
		w.foConsumer = &foConsumer{id: fmt.Sprintf("worker%d(%q,%s)", w.no, t, role), topic: t, nacks: map[string]int{}, seen: map[string]int{}, done: make(chan struct{})}
		w.ctx, w.cancel = context.WithCancel(context.Background())
		if r.Chance(0.25) {
			// a worker that nacks some messages once or twice before it acks them (it is owed the redeliveries as well)
			for _, rm := range byTopic[t] {
				if x := r.Intn(10); x < 2 {
					w.nacks[rm.Orig.Metadata[idKey]] = 1 + x
					w.nacker = true
				}
			}
		}
		if r.Chance(0.3) {
			w.yield = r.Range(1, 3)
		}
		workers = append(workers, w)
		return w
	}
	nStay, nLeaves, nJoins, nShift := 0, 0, 0, 0
	for _, t := range topics {
		list := byTopic[t]
		n := len(list)
		steps[t] = make([]chStep, n)
		// initial subscriptions in subscription order: with 3 in 4 the oldest one is a leaver
		stay, leave := r.Range(1, 3), r.Range(1, 3)
		kinds := make([]bool, 0, stay+leave) // true = leaver
		for i := 0; i < stay; i++ {
			kinds = append(kinds, false)
		}
		for i := 0; i < leave; i++ {
			kinds = append(kinds, true)
		}
		p := r.Perm(len(kinds))
		ord := make([]bool, len(kinds))
		for i, j := range p {
			ord[i] = kinds[j]
		}
		if !ord[0] && r.Chance(0.75) {
			for i := range ord {
				if ord[i] {
					ord[0], ord[i] = true, false
					break
				}
			}
		}
		var tw []*chWorker
		for _, lv := range ord {
			la := -1
			if lv {
				la = r.Intn(n)
			}
			w := mkWorker(t, -1, la)
			w.early = r.Chance(0.3)
			tw = append(tw, w)
		}
		// subscriptions that begin in the middle of the stream; half of them end again later
		for j, nj := 0, r.Intn(3); j < nj && n >= 3; j++ {
			ja := r.Range(1, n-2)
			la := -1
			if r.Bool() {
				la = r.Range(ja, n-1) // la == ja: subscribed and ended at once
			}
			tw = append(tw, mkWorker(t, ja, la))
		}
		// the script, and (by the script's order) which leaves make later subscriptions move
		present := []*chWorker{}
		for _, w := range tw {
			if w.joinAt < 0 {
				present = append(present, w)
			}
		}
		remove := func(w *chWorker) {
			for i, x := range present {
				if x == w {
					w.shifts = i < len(present)-1
					present = append(present[:i:i], present[i+1:]...)
					return
				}
			}
		}
		for k := 0; k < n; k++ {
			st := &steps[t][k]
			for _, w := range tw {
				if w.joinAt == k {
					w := w
					st.before = append(st.before, func() { cs.join(w) })
					present = append(present, w)
					nJoins++
				}
			}
			for _, w := range tw {
				if w.leaveAt != k {
					continue
				}
				w := w
				nLeaves++
				if w.mode >= lvParkSettle {
					w.park = &chPark{release: make(chan struct{}), yields: r.Intn(4), nth: r.Intn(3)}
					cs.parks = append(cs.parks, w.park)
				}
				switch w.mode {
				case lvAfterAck:
					st.after = append(st.after, func() { cs.leave(w) })
				case lvBefore:
					st.before = append(st.before, func() { cs.leave(w) })
				case lvParkSettle:
					if cs.atSettle[t] == nil {
						cs.atSettle[t] = map[int][]*chPark{}
					}
					cs.atSettle[t][k] = append(cs.atSettle[t][k], w.park)
					st.before = append(st.before, func() { cs.leave(w) })
				case lvParkSend:
					u := list[k].Orig.UUID
					cs.atSend[u] = append(cs.atSend[u], w.park)
					st.before = append(st.before, func() { cs.leave(w) })
				case lvParkAck:
					st.before = append(st.before, func() { cs.leave(w) })
				}
				if w.park != nil {
					// whatever the trigger, the removal is let go when the source has seen message k settled
					pk := w.park
					st.after = append(st.after, func() {
						cs.mu.Lock()
						select {
						case <-pk.release:
						default:
							cs.letGo[2]++
						}
						cs.mu.Unlock()
						pk.open()
					})
				}
				remove(w)
			}
		}
		for _, w := range tw {
			if w.leaveAt < 0 {
				nStay++
			} else if w.shifts {
				nShift++
			}
		}
	}

	for _, w := range workers {
		if w.joinAt < 0 && w.early && !cs.join(w) {
			res.Inconclusive("%v", cs.subErr)
			return res
		}
	}

	mon := newMonitor(false)
	probe := &foProbe{mon: mon, pubs: map[*copyRec]int{}, sampled: map[*copyRec]string{}, entries: map[string]int{}}
	if hooks {
		ctl.Observe(func(point, a, b string) {
			probe.at(point, a, b)
			cs.at(point, a, b)
		})
	}

	var runErr error
	runDone := started(func() { runErr = fo.Run(context.Background()) })
	shutdown := func() bool {
		cs.openEverything()
		closeDone := started(func() { fo.Close() })
		if oc, dump := vlib.WaitClosed(closeDone, vlib.WD); oc != vlib.Done {
			res.Inconclusive("FanOut.Close did not return (%v)", oc)
			if res.Witness == nil {
				res.Witness = dump
			}
			return false
		}
		if oc, _ := vlib.WaitClosed(runDone, vlib.WD); oc != vlib.Done {
			res.Inconclusive("FanOut.Run did not return after Close (%v)", oc)
			return false
		}
		cs.mu.Lock()
		var subd []*chWorker
		for _, w := range workers {
			if cs.subscribed[w] {
				subd = append(subd, w)
			}
		}
		cs.mu.Unlock()
		for _, w := range subd {
			if oc, _ := vlib.WaitClosed(w.done, vlib.WD); oc != vlib.Done {
				res.Inconclusive("FanOut subscription %s was not closed by Close (%v)", w.id, oc)
				return false
			}
		}
		return true
	}
	if oc, dump := vlib.WaitUntil(func() bool { return vlib.IsClosed(fo.Running()) || vlib.IsClosed(runDone) }, vlib.WD); oc != vlib.Done || vlib.IsClosed(runDone) {
		if vlib.IsClosed(runDone) {
			res.Inconclusive("FanOut.Run returned before Running(): %v", runErr)
		} else {
			res.Inconclusive("FanOut did not start: %v", oc)
		}
		res.Witness = dump
		return res
	}
	for _, w := range workers {
		if w.joinAt < 0 && !w.early && !cs.join(w) {
			res.Inconclusive("%v", cs.subErr)
			shutdown()
			return res
		}
	}
	subs := map[string]*vlib.Subscription{}
	for _, t := range topics {
		sp := src.SubFor(t)
		if sp == nil {
			res.Fail("no-subscription", "FanOut did not subscribe to added topic %q at its source subscriber", t)
			shutdown()
			return res
		}
		subs[t] = sp
	}
	var wg sync.WaitGroup
	for _, t := range topics {
		wg.Add(1)
		go func(sp *vlib.Subscription, list []*relayMsg, st []chStep) {
			defer wg.Done()
			for k, rm := range list {
				for _, f := range st[k].before {
					f()
				}
				mon.deliver(sp, rm)
				for _, f := range st[k].after {
					f()
				}
			}
		}(subs[t], byTopic[t], steps[t])
	}
	delivDone := started(wg.Wait)

	settledAll := true
	oc, dump := vlib.WaitClosed(delivDone, vlib.WD)
	switch oc {
	case vlib.Stuck:
		settledAll = false
		res.Fail("unsettled", "FanOut: a delivered source message was never acked or nacked (process quiescent)")
		res.Witness = dump
	case vlib.Inconclusive:
		settledAll = false
		res.Inconclusive("FanOut: the source deliveries did not complete before the watchdog")
		res.Witness = dump
	}
	cs.openEverything()

	// acked source copies of a message = successful relays of it
	acked := func(rm *relayMsg) int {
		n := 0
		for _, rec := range rm.copies {
			if rec.settle == "ack" {
				n++
			}
		}
		return n
	}
	// a subscription is owed message k of its topic when it was subscribed before the message was handed over and stays to the end
	owed := func(w *chWorker, k int) bool { return w.leaveAt < 0 && k >= w.joinAt }
	// receipts a subscription that sees the whole relay of message id gets: one per successful relay, plus its own Nacks
	want := map[string]int{}
	due := func(w *chWorker, id string) int {
		if want[id] == 0 {
			return 0
		}
		return want[id] + w.nacks[id]
	}
	stayersDone := true
	if settledAll {
		mon.mu.Lock()
		for id, rm := range ids {
			want[id] = acked(rm)
		}
		mon.mu.Unlock()
		complete := func() bool {
			for _, w := range workers {
				if w.leaveAt >= 0 {
					continue
				}
				w.mu.Lock()
				ok := true
				for k, rm := range byTopic[w.topic] {
					id := rm.Orig.Metadata[idKey]
					if owed(w, k) && w.seen[id] < due(w, id) {
						ok = false
						break
					}
				}
				w.mu.Unlock()
				if !ok {
					return false
				}
			}
			return true
		}
		oc, dump = vlib.WaitUntil(complete, vlib.WD)
		switch oc {
		case vlib.Stuck:
			stayersDone = false
			for _, w := range workers {
				if w.leaveAt >= 0 {
					continue
				}
				w.mu.Lock()
				for k, rm := range byTopic[w.topic] {
					id := rm.Orig.Metadata[idKey]
					if owed(w, k) && w.seen[id] < due(w, id) {
						res.Fail("fanout-missing", "FanOut: subscription %s, subscribed before message #%d (uuid=%q, topic %q) was consumed and until the end, received it %d times; the source copy was acked %d time(s) and the subscription nacks it %d time(s) (process quiescent: no more will come); %d subscriptions of the case left, %d joined while the streams were relayed",
							w.id, rm.No, rm.Orig.UUID, rm.SrcTopic, w.seen[id], want[id], w.nacks[id], nLeaves, nJoins)
					}
				}
				w.mu.Unlock()
			}
			res.Witness = dump
		case vlib.Inconclusive:
			stayersDone = false
			res.Inconclusive("FanOut: deliveries to the staying subscriptions did not complete before the watchdog")
			res.Witness = dump
		default:
			// everything owed has arrived; let anything surplus arrive as well
			if o, d := vlib.Settle(vlib.WD); o == vlib.Inconclusive {
				res.Inconclusive("FanOut: process did not become quiescent")
				res.Witness = d
			}
		}
	}
	ok := shutdown()
	if !settledAll && ok {
		vlib.WaitClosed(delivDone, vlib.WD)
	}
	if !ok || (!settledAll && !vlib.IsClosed(delivDone)) {
		return res // goroutines of the case may still run: nothing more can be judged
	}
	cs.mu.Lock()
	if cs.subErr != nil {
		res.Inconclusive("%v", cs.subErr)
	}
	cs.mu.Unlock()

	// judge: source side (as in class fanout)
	mon.mu.Lock()
	relayed := 0
	for _, rm := range msgs {
		want[rm.Orig.Metadata[idKey]] = acked(rm)
		if rm.dropped {
			res.Fail("subscription-ended", "FanOut: the source subscription ended while message #%d was being delivered", rm.No)
		}
		for _, rec := range rm.copies {
			res.Events += 2
			where := fmt.Sprintf("FanOut: message #%d (uuid=%q, topic %q) delivery %d", rm.No, rm.Orig.UUID, rm.SrcTopic, rec.attempt)
			if rec.settle == "" {
				continue
			}
			if hooks {
				if s := probe.sampled[rec]; s != "" {
					res.Fail("ack-before-accept", "%s: source copy was already %sed when the internal Pub/Sub's Publish was entered", where, s)
				}
				if probe.pubs[rec] == 0 && rec.settle == "ack" {
					res.Fail("ack-without-accept", "%s: acked, but the internal Pub/Sub's Publish was never entered for topic %q while it was in flight", where, rm.SrcTopic)
				}
			}
			if rec.settle != "ack" {
				res.Fail("nack-after-success", "%s: source copy was nacked although the internal Pub/Sub was open", where)
			} else {
				relayed++
			}
		}
	}
	if hooks && len(probe.latePublish) > 0 {
		res.Fail("ack-before-accept", "FanOut: internal Publish on topic(s) %q entered while no source message of that topic was in flight (after its settlement)", probe.latePublish)
	}
	mon.mu.Unlock()

	// judge: subscriptions
	checked, total, beforeJoin, withNacks, nNackers, nSlow := 0, 0, 0, 0, 0, 0
	for _, w := range workers {
		if w.nacker {
			nNackers++
		}
		if w.yield > 0 {
			nSlow++
		}
		w.mu.Lock()
		res.Events += len(w.got)
		total += len(w.got)
		for _, g := range w.got {
			rm := ids[g.Metadata[idKey]]
			if rm == nil || rm.SrcTopic != w.topic {
				res.Fail("fanout-invented", "FanOut: subscription %s received message uuid=%q (%s=%q) that was never consumed from its topic", w.id, g.UUID, idKey, g.Metadata[idKey])
				continue
			}
			if g.UUID != rm.Want.UUID {
				res.Fail("dest-uuid", "FanOut: subscription %s got message #%d with uuid %q, consumed with uuid %q", w.id, rm.No, g.UUID, rm.Want.UUID)
			}
			if string(g.Payload) != string(rm.Want.Payload) {
				res.Fail("dest-payload", "FanOut: subscription %s got payload %q for uuid=%q, want %q", w.id, clip(g.Payload), g.UUID, clip(rm.Want.Payload))
			}
			if d := metaDiff(rm.Want.Metadata, g.Metadata); len(d) > 0 {
				res.Fail("dest-metadata", "FanOut: subscription %s: metadata of uuid=%q differs at %v: got %s want %s", w.id, g.UUID, d, describeMeta(g.Metadata, d), describeMeta(rm.Want.Metadata, d))
			}
		}
		for k, rm := range byTopic[w.topic] {
			id := rm.Orig.Metadata[idKey]
			got, wnt := w.seen[id], due(w, id)
			if got > wnt {
				// more receipts than successful relays (plus own Nacks) is an invented message, for every subscription
				res.Fail("fanout-invented", "FanOut: subscription %s received message #%d (uuid=%q, topic %q) %d times; its source copy was acked %d time(s) and the subscription nacked it %d time(s); %d subscriptions of the case left, %d joined while the streams were relayed",
					w.id, rm.No, rm.Orig.UUID, rm.SrcTopic, got, want[id], w.nacks[id], nLeaves, nJoins)
			}
			if owed(w, k) {
				checked++
				if w.nacks[id] > 0 {
					withNacks++
				}
				if got < wnt && stayersDone && settledAll && !res.Failed() {
					res.Fail("fanout-missing", "FanOut: subscription %s received message #%d uuid=%q %d times, want %d", w.id, rm.No, rm.Orig.UUID, got, wnt)
				}
			} else if w.joinAt > k && got > 0 {
				beforeJoin++ // not judged: the statement does not say what a subscription gets from before it existed
			}
		}
		w.mu.Unlock()
	}

	res.Count("messages", len(msgs))
	res.Count("relayed_ok", relayed)
	res.Count("fanout_subscriptions", len(workers))
	res.Count("fanout_deliveries", total)
	res.Count("churn_staying_subscriptions", nStay)
	res.Count("churn_leaves", nLeaves)
	res.Count("churn_leaves_with_later_subscriptions_present", nShift)
	res.Count("churn_joins_mid_stream", nJoins)
	res.Count("churn_exactly_once_pairs_judged", checked)
	res.Count("churn_received_from_before_join", beforeJoin)
	res.Count("churn_exactly_once_pairs_with_own_nacks", withNacks)
	res.Count("churn_subscriptions_with_nack_plan", nNackers)
	res.Count("churn_subscriptions_not_instantaneous", nSlow)
	cs.mu.Lock()
	res.Count("churn_removals_held_at_hook", cs.held)
	res.Count("churn_removals_let_go_when_internal_publish_returned", cs.letGo[0])
	res.Count("churn_removals_let_go_when_a_send_begins", cs.letGo[1])
	res.Count("churn_removals_let_go_at_source_ack", cs.letGo[2])
	cs.mu.Unlock()
	o.count(&res)
	res.NonTrivial = relayed > 0 && nStay > 0 && nShift > 0
	shape := ""
	var ws []map[string]any
	for _, w := range workers {
		shape += fmt.Sprintf("%d:%d:%d:%d:%v:%d:%d;", len(byTopic[w.topic]), w.joinAt, w.leaveAt, w.mode, w.early, len(w.nacks), w.yield)
		ws = append(ws, map[string]any{"id": w.id, "subscribed_before_run": w.early, "received": w.count()})
	}
	res.Sig = vlib.Sig("fanout-churn", nTopics, shape, shapeSig(msgs), cs.held)
	res.Hooks = ctl.Counts()
	res.Sample = map[string]any{"component": "FanOut", "topics": topics, "subscriptions": ws, "messages": msgTrace(msgs, 6)}
	if res.Failed() && res.Witness == nil {
		res.Witness = map[string]any{"subscriptions": ws, "messages": msgTrace(msgs, 100)}
	}
	return res
}
