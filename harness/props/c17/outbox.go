package c17

import (
	"context"
	"encoding/json"
	"fmt"
	"sync"

	"github.com/ThreeDotsLabs/watermill/components/forwarder"
	"github.com/ThreeDotsLabs/watermill/message"

	"verifharness/vlib"
)

// Stage 1 of the Forwarder classes with a failing outbox.
//
// forwarder.Publisher relays too: it consumes the caller's messages and hands their envelopes to the wrapped
// publisher (the outbox, a transactional table or a broker). That destination can refuse a call like any other;
// the caller then sees the error and retries the same messages, or gives up. What the statement demands of the
// relay holds across such sequences: every Publish call hands the outbox exactly the envelopes of the messages
// of THAT call (nothing of an earlier, refused or accepted, call comes again - "nor invent"; nothing is left out),
// a call the outbox refused is reported to the caller (otherwise the message is lost behind a nil), and what the
// Forwarder later delivers for an accepted call is the value published, on the topic named in that call.
// Whatever a Publisher keeps between calls (a reused batch slice, a buffer, a scratch envelope) shows up here.

// outboxAttempt is one forwarder.Publisher.Publish call of stage 1, planned in advance.
type outboxAttempt struct {
	batch   int      // index into outboxFaults.batches
	attempt int      // 0 = first call for the batch, 1.. = the caller's retries
	planned failKind // what the outbox does with the call
	via     int      // which forwarder.Publisher instance makes the call

	// observed
	returned bool
	err      error
	panicked any
	callNo   int // number of the outbox call attributed to this attempt, -1: none
}

type outboxFaults struct {
	mu         sync.Mutex
	batches    []fwdBatch
	snaps      [][]vlib.MsgSnap            // the messages of every batch as they were before the first Publish
	attempts   [][]*outboxAttempt          // per batch, in call order
	gaveUp     []bool                      // the caller gives up after the refused attempts: the batch is never accepted
	nInstances int                         // forwarder.Publisher instances sharing the outbox
	queue      map[string][]*outboxAttempt // per destination topic (= per publishing goroutine): expected calls in order
	next       map[string]int
	byCall     map[int]*outboxAttempt
}

// newOutboxFaults draws the outbox plan of every batch: 0 (11 in 20), 1, 2 or 3 refused calls (error 60%,
// context.Canceled 25%, panic 15%), after which the caller's next call is accepted or (3 in 10) the caller has
// given up; at least one batch of the case is accepted.
func newOutboxFaults(r *vlib.Rand, batches []fwdBatch, oneInstance bool) *outboxFaults {
	ob := &outboxFaults{batches: batches, nInstances: 1, queue: map[string][]*outboxAttempt{}, next: map[string]int{}, byCall: map[int]*outboxAttempt{}}
	if !oneInstance && r.Chance(0.3) {
		ob.nInstances = 2
	}
	accepted := 0
	for i, b := range batches {
		var snaps []vlib.MsgSnap
		for _, m := range b.orig {
			snaps = append(snaps, vlib.Snap(m))
		}
		ob.snaps = append(ob.snaps, snaps)
		n := 0
		switch x := r.Intn(20); {
		case x < 11:
		case x < 16:
			n = 1
		case x < 18:
			n = 2
		default:
			n = 3
		}
		var list []*outboxAttempt
		for a := 0; a < n; a++ {
			k := fkErr
			switch x := r.Intn(20); {
			case x < 12:
			case x < 17:
				k = fkCanceled
			default:
				k = fkPanic
			}
			list = append(list, &outboxAttempt{batch: i, attempt: a, planned: k, via: r.Intn(ob.nInstances), callNo: -1})
		}
		giveUp := n > 0 && r.Chance(0.3) && !(i == len(batches)-1 && accepted == 0)
		if !giveUp {
			accepted++
			list = append(list, &outboxAttempt{batch: i, attempt: n, planned: fkOK, via: r.Intn(ob.nInstances), callNo: -1})
		}
		ob.gaveUp = append(ob.gaveUp, giveUp)
		ob.attempts = append(ob.attempts, list)
		ob.queue[b.topic] = append(ob.queue[b.topic], list...)
	}
	return ob
}

// destOf reads the destination topic out of an envelope (the harness's own reading of the format).
func destOf(m *message.Message) (string, bool) {
	var env refEnvelope
	if m == nil || json.Unmarshal(m.Payload, &env) != nil || env.DestinationTopic == "" {
		return "", false
	}
	return env.DestinationTopic, true
}

// script is the outbox's vlib.Pub.Script. The call is attributed to the next expected attempt of the destination
// topic its LAST envelope names (calls for one destination topic are made by one goroutine, in plan order); a call
// that cannot be attributed is accepted and reported by judge.
func (ob *outboxFaults) script(no int, topic string, msgs []*message.Message) error {
	if len(msgs) == 0 {
		return nil
	}
	dest, ok := destOf(msgs[len(msgs)-1])
	if !ok {
		return nil
	}
	ob.mu.Lock()
	var a *outboxAttempt
	if q, i := ob.queue[dest], ob.next[dest]; i < len(q) {
		a = q[i]
		ob.next[dest] = i + 1
		a.callNo = no
		ob.byCall[no] = a
	}
	ob.mu.Unlock()
	if a == nil {
		return nil
	}
	switch a.planned {
	case fkErr:
		return errInjected
	case fkCanceled:
		return fmt.Errorf("c17: outbox gave up: %w", context.Canceled)
	case fkPanic:
		panic("c17: injected outbox panic")
	}
	return nil
}

// publish makes the planned call and records how it came back. The caller retries with the same message values.
func (ob *outboxFaults) publish(fps []*forwarder.Publisher, a *outboxAttempt) {
	b := ob.batches[a.batch]
	var err error
	var p any
	func() {
		defer func() { p = recover() }()
		err = fps[a.via].Publish(b.topic, b.orig...)
	}()
	ob.mu.Lock()
	a.returned, a.err, a.panicked = true, err, p
	ob.mu.Unlock()
}

func (ob *outboxFaults) publishers(outbox message.Publisher, fwdTopic string) []*forwarder.Publisher {
	var fps []*forwarder.Publisher
	for i := 0; i < ob.nInstances; i++ {
		fps = append(fps, forwarder.NewPublisher(outbox, forwarder.PublisherConfig{ForwarderTopic: fwdTopic}))
	}
	return fps
}

// judge checks stage 1 once every planned call has returned and builds the stream of stage 2: the envelopes of the
// accepted outbox calls, each expected to be forwarded as the message published (value before the first Publish)
// on the topic named in the call. ok=false: verdict set.
func (ob *outboxFaults) judge(res *vlib.Result, outbox *vlib.Pub, fwdTopic, eff string, goroutines int) ([]*relayMsg, bool) {
	ob.mu.Lock()
	defer ob.mu.Unlock()
	who := fmt.Sprintf("forwarder.Publisher(ForwarderTopic=%q, %d instance(s), %d publishing goroutine(s))", fwdTopic, ob.nInstances, goroutines)
	history := func(a *outboxAttempt) string {
		s := ""
		for _, x := range ob.attempts[a.batch][:a.attempt] {
			s += fkNames[x.planned] + " "
		}
		if s == "" {
			return "first call for these messages"
		}
		return "the outbox refused the earlier call(s) for these messages: " + s
	}
	var msgs []*relayMsg
	for _, c := range outbox.Calls() {
		res.Events++
		a := ob.byCall[c.No]
		if a == nil {
			first := ""
			if len(c.Msgs) > 0 && c.Msgs[0] != nil {
				first = clip(c.Msgs[0].Payload)
			}
			res.Fail("publisher-envelope", "%s made outbox call #%d on topic %q with %d messages, first payload %q: not the envelopes of a Publish call that was outstanding", who, c.No, c.Topic, len(c.Msgs), first)
			return nil, false
		}
		b := ob.batches[a.batch]
		if c.Topic != eff || len(c.Msgs) != len(b.orig) {
			var uuids []string
			for _, m := range c.Msgs {
				var env refEnvelope
				if m != nil && json.Unmarshal(m.Payload, &env) == nil {
					uuids = append(uuids, fmt.Sprintf("%s->%s", env.UUID, env.DestinationTopic))
				} else {
					uuids = append(uuids, "<not an envelope>")
				}
			}
			res.Fail("publisher-envelope", "%s: Publish(%q, %d msgs) (call %d for them; %s) made outbox call #%d on topic %q with %d messages %q; want one Publish of exactly these %d envelopes on %q",
				who, b.topic, len(b.orig), a.attempt+1, history(a), c.No, c.Topic, len(c.Msgs), uuids, len(b.orig), eff)
			return nil, false
		}
		for i, m := range c.Msgs {
			if d, ok := destOf(m); !ok || d != b.topic {
				res.Fail("publisher-envelope", "%s: Publish(%q, %d msgs) (call %d for them; %s) made outbox call #%d whose envelope %d names destination %q", who, b.topic, len(b.orig), a.attempt+1, history(a), c.No, i, d)
				return nil, false
			}
		}
		if a.planned != fkOK {
			continue
		}
		for i, m := range c.Msgs {
			msgs = append(msgs, &relayMsg{Kind: "envelope", SrcTopic: eff, Orig: m, Valid: true, WantTopic: b.topic, Want: ob.snaps[a.batch][i]})
		}
	}
	for bi, list := range ob.attempts {
		b := ob.batches[bi]
		for _, a := range list {
			if !a.returned {
				res.Inconclusive("%s: planned Publish(%q) call %d was not made", who, b.topic, a.attempt+1)
				return nil, false
			}
			came := fmt.Sprintf("returned %v", a.err)
			if a.panicked != nil {
				came = fmt.Sprintf("panicked: %v", a.panicked)
			}
			if a.callNo < 0 {
				res.Fail("publisher-envelope", "%s: Publish(%q, %d msgs) (call %d for them; %s) %s and made no outbox call; want one Publish of %d envelopes on %q", who, b.topic, len(b.orig), a.attempt+1, history(a), came, len(b.orig), eff)
				return nil, false
			}
			failed := a.err != nil || a.panicked != nil
			if a.planned == fkOK && failed {
				res.Fail("publisher-envelope", "%s: Publish(%q, %d msgs) (call %d for them; %s) %s although the outbox accepted its call #%d", who, b.topic, len(b.orig), a.attempt+1, history(a), came, a.callNo)
				return nil, false
			}
			if a.planned != fkOK && !failed {
				res.Fail("publisher-error-swallowed", "%s: Publish(%q, %d msgs) returned nil although the outbox refused its call #%d (%s): the caller takes the messages for published, they never reach the forwarder topic", who, b.topic, len(b.orig), a.callNo, fkNames[a.planned])
				return nil, false
			}
		}
	}
	return msgs, true
}

func (ob *outboxFaults) refused() (n int) {
	for _, list := range ob.attempts {
		for _, a := range list {
			if a.planned != fkOK {
				n++
			}
		}
	}
	return n
}

func (ob *outboxFaults) count(res *vlib.Result) {
	panics, retried, gaveUp, after := 0, 0, 0, 0
	seenRefusal := false
	for bi, list := range ob.attempts {
		for _, a := range list {
			if seenRefusal {
				after++
			}
			if a.planned == fkPanic {
				panics++
			}
			if a.planned != fkOK {
				seenRefusal = true
			} else if a.attempt > 0 {
				retried++
			}
		}
		if ob.gaveUp[bi] {
			gaveUp++
		}
	}
	res.Count("outbox_calls_refused", ob.refused())
	res.Count("outbox_calls_refused_by_panic", panics)
	res.Count("outbox_batches_accepted_on_retry", retried)
	res.Count("outbox_batches_given_up", gaveUp)
	res.Count("outbox_publish_calls_after_a_refused_one", after)
	if ob.nInstances > 1 {
		res.Count("cases_with_two_forwarder_publisher_instances", 1)
	}
}

func (ob *outboxFaults) sig() string {
	s := fmt.Sprint(ob.nInstances, ":")
	for bi, list := range ob.attempts {
		for _, a := range list {
			s += fkNames[a.planned][:1]
		}
		if ob.gaveUp[bi] {
			s += "-"
		}
		s += ";"
	}
	return s
}

// publishSerially runs stage 1 from the case goroutine: one Publish call after the other.
func publishSerially(e *vlib.Env, res *vlib.Result, ob *outboxFaults, fwdTopic, eff string, batches []fwdBatch) ([]*relayMsg, bool) {
	outbox := &vlib.Pub{Name: e.ID() + ".outbox", Script: ob.script}
	fps := ob.publishers(outbox, fwdTopic)
	for _, list := range ob.attempts {
		for _, a := range list {
			ob.publish(fps, a)
		}
	}
	return ob.judge(res, outbox, fwdTopic, eff, 1)
}
