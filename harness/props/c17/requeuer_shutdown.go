package c17

import (
	"context"
	"fmt"
	"time"

	"github.com/ThreeDotsLabs/watermill"
	"github.com/ThreeDotsLabs/watermill/components/requeuer"
	"github.com/ThreeDotsLabs/watermill/message"

	"verifharness/vlib"
)

// runRequeuerShutdown: the Requeuer is shut down while a message sits in its Delay. The message was never handed to the
// destination, so it must not be acknowledged ("acknowledge the consumed message only after the destination accepted it").
func runRequeuerShutdown(e *vlib.Env) vlib.Result {
	r := e.R
	ownRouter := r.Bool()
	stopBy := []string{"cancel-run-context", "router-close"}[r.Intn(2)]
	if !ownRouter {
		stopBy = "cancel-run-context"
	}
	n := r.Range(1, 3)
	spec := fmt.Sprintf("delay=1h messages=%d externalRouter=%v stop=%s", n, ownRouter, stopBy)
	res := vlib.Result{Class: "requeuer-shutdown-during-delay", Spec: spec}
	handlerFrame := "requeuer.(*Requeuer).handler"
	wd := vlib.WaitOpts{Watchdog: 40 * time.Second, NoTimerCheck: []string{handlerFrame, "pubsub/sync.WaitGroupTimeout"}}

	topic := e.ID() + "/poison"
	src := &vlib.Sub{Name: e.ID() + ".src"}
	dst := &vlib.Pub{Name: e.ID() + ".dst"}
	cfg := requeuer.Config{
		Subscriber: src, SubscribeTopic: topic, Publisher: dst,
		GeneratePublishTopic: func(p requeuer.GeneratePublishTopicParams) (string, error) { return e.ID() + "/back", nil },
		Delay:                time.Hour,
	}
	var router *message.Router
	if ownRouter {
		router, _ = message.NewRouter(message.RouterConfig{CloseTimeout: time.Hour}, watermill.NopLogger{})
		cfg.Router = router
	}
	rq, err := requeuer.NewRequeuer(cfg, watermill.NopLogger{})
	if err != nil {
		res.Inconclusive("NewRequeuer: %v", err)
		return res
	}
	ctx, cancel := context.WithCancel(context.Background())
	defer cancel()
	runDone := make(chan struct{})
	go func() { defer close(runDone); rq.Run(ctx) }()
	if oc, _ := vlib.WaitUntil(func() bool { return src.SubFor(topic) != nil }, wd); oc != vlib.Done {
		res.Inconclusive("requeuer did not subscribe")
		return res
	}
	sp := src.SubFor(topic)
	var copies []*message.Message
	delivered := make(chan bool, n)
	for i := 0; i < n; i++ {
		m := message.NewMessage(fmt.Sprintf("%s/m%d", e.ID(), i), []byte("p"))
		m.Metadata.Set(requeuer.RetriesKey, fmt.Sprint(r.Intn(50)))
		m.SetContext(sp.Ctx)
		copies = append(copies, m)
		go func() { delivered <- sp.Send(m) }()
	}
	// every delivered message now sits in the handler's Delay (1 h): nothing else can move
	vlib.Settle(wd)
	if stopBy == "router-close" {
		go router.Close()
	} else {
		cancel()
	}
	if oc, d := vlib.WaitClosed(runDone, wd); oc == vlib.Stuck {
		res.Fail("shutdown-stuck", "Requeuer.Run never returned after %s with messages inside the Delay (quiescent): %s", stopBy, spec)
		res.Witness = d
	} else if oc == vlib.Inconclusive {
		res.Inconclusive("Run neither returned nor quiescent")
	}
	vlib.Settle(wd)
	nd := 0
	for i := 0; i < n; i++ {
		select {
		case ok := <-delivered:
			if ok {
				nd++
			}
		default:
		}
	}
	if len(dst.Calls()) > 0 {
		res.Fail("published-during-shutdown", "the destination received %d call(s) although every message was still inside its 1h Delay when the Requeuer was stopped: %s", len(dst.Calls()), spec)
	}
	for _, m := range copies {
		res.Events++
		if vlib.Settled(m) == "ack" {
			res.Fail("ack-without-accept", "consumed message %s was acked although the Requeuer was stopped during its Delay and nothing was published to the destination: %s", m.UUID, spec)
		}
	}
	src.Close()
	res.Count("messages_in_delay_at_shutdown", nd)
	res.NonTrivial = nd > 0
	res.Sig = vlib.Sig(spec, nd)
	res.Sample = map[string]any{"spec": spec, "delivered_into_delay": nd}
	return res
}
