package c17

import (
	"context"
	"errors"
	"time"

	"github.com/ThreeDotsLabs/watermill"
	"github.com/ThreeDotsLabs/watermill/components/requeuer"
	"github.com/ThreeDotsLabs/watermill/message"

	"verifharness/vlib"
)

const destKey = "c17-dest"

func runRequeuer(e *vlib.Env) vlib.Result { return runRequeuerOpt(e, false) }

func runRequeuerOpt(e *vlib.Env, conc bool) vlib.Result {
	r := e.R
	res := vlib.Result{Class: "requeuer"}
	if conc {
		res.Class = "concurrent/requeuer"
	}
	ctl := vlib.NewCtl(r.Uint64(), 0.15, 30)
	defer ctl.Uninstall()

	subTopic := genTopics(e, "poison", 1, true)[0]
	destTopics := genTopics(e, "back", r.Range(1, 3), true)
	topicMode := []string{"const", "metadata", "uuid"}[r.Intn(3)]
	delay := []time.Duration{0, 0, time.Microsecond, 300 * time.Microsecond, 2 * time.Millisecond}[r.Intn(5)]
	ownRouter := r.Bool()

	// the topic function is part of the configuration; this is also the reference for WantTopic
	topicOf := func(m *message.Message) (string, error) {
		switch topicMode {
		case "const":
			return destTopics[0], nil
		case "metadata":
			t, ok := m.Metadata[destKey]
			if !ok {
				return "", errors.New("c17: no destination in metadata")
			}
			return t, nil
		default:
			return destTopics[int(vlib.HashStr(m.UUID)%uint64(len(destTopics)))], nil
		}
	}

	var msgs []*relayMsg
	n := r.Range(3, 10)
	prior := 0
	classes := map[string]int{}
	o := &odd{}
	for i := 0; i < n; i++ {
		m := genMsg(e, i, true)
		o.uuid(r, m)
		delete(m.Metadata, requeuer.RetriesKey)
		delete(m.Metadata, destKey)
		v, present, class := retriesValue(r)
		classes[class]++
		if present {
			m.Metadata.Set(requeuer.RetriesKey, v)
			prior++
		}
		// decoys: similar keys must neither be read nor touched
		if r.Chance(0.3) {
			m.Metadata.Set("retries", "17")
		}
		if r.Chance(0.2) {
			m.Metadata.Set(requeuer.RetriesKey+"_", "23")
		}
		if topicMode == "metadata" && !r.Chance(0.15) {
			m.Metadata.Set(destKey, destTopics[r.Intn(len(destTopics))])
		}
		rm := &relayMsg{No: i, SrcTopic: subTopic, Orig: m, RetriesKey: requeuer.RetriesKey}
		want, err := topicOf(m)
		if err != nil {
			rm.Kind = "topic-error"
			rm.Want = vlib.Snap(m)
			rm.MaxRedeliver = r.Range(0, 2)
		} else {
			rm.Kind = "relay/" + class
			rm.Valid = true
			rm.WantTopic = want
			rm.Want = vlib.Snap(m)
			rm.Want.Metadata[requeuer.RetriesKey] = nextRetries(v, present)
			rm.Plan, rm.MaxRedeliver = genPlan(r)
		}
		msgs = append(msgs, rm)
	}

	mon := newMonitor(!conc)
	src := &vlib.Sub{Name: e.ID() + ".src"}
	rec := &vlib.Pub{Name: e.ID() + ".dst", OnPublish: mon.onPublish, Script: mon.script}
	var dst message.Publisher = rec
	var co *concOpts
	if conc {
		co = newConc(r, r.Range(2, 4), "publisher")
		dst = &gatedPub{inner: rec, g: co.gate}
	}
	cfg := requeuer.Config{
		Subscriber:     src,
		SubscribeTopic: subTopic,
		Publisher:      dst,
		GeneratePublishTopic: func(p requeuer.GeneratePublishTopicParams) (string, error) {
			return topicOf(p.Message)
		},
		Delay: delay,
	}
	var router *message.Router
	if ownRouter {
		var err error
		router, err = message.NewRouter(message.RouterConfig{CloseTimeout: 5 * time.Second}, watermill.NopLogger{})
		if err != nil {
			res.Inconclusive("NewRouter: %v", err)
			return res
		}
		cfg.Router = router
	}
	rq, err := requeuer.NewRequeuer(cfg, watermill.NopLogger{})
	if err != nil {
		res.Inconclusive("NewRequeuer: %v", err)
		return res
	}
	ctx, cancel := context.WithCancel(context.Background())
	defer cancel()
	// the Requeuer has no Running()/Close(): with its own router the only observable start is the
	// subscription, and the only stop is cancelling Run's context
	comp := component{name: "Requeuer", run: func() error { return rq.Run(ctx) }}
	// vlib lists every "components/requeuer." frame as timer-driven, which includes the goroutine blocked in
	// Requeuer.Run for the whole case; only the handler (Delay) really sleeps.
	comp.wd = vlib.WaitOpts{Watchdog: 60 * time.Second, NoTimerCheck: []string{"components/requeuer."}, TimerFrames: []string{"requeuer.(*Requeuer).handler"}}
	if ownRouter {
		comp.running = func() bool { return vlib.IsClosed(router.Running()) }
		comp.stop = func() { router.Close() }
	} else {
		comp.running = func() bool { return src.SubFor(subTopic) != nil }
		comp.stop = cancel
	}
	drive(&res, comp, src, mon, []string{subTopic}, map[string][]*relayMsg{subTopic: msgs}, co)
	st := mon.judge(&res, msgs, judgeCfg{component: "Requeuer"})
	fill(&res, st, mon, msgs, prior > 0 || o.any())
	o.count(&res)
	res.Count("prior_retries_present", prior)
	for k, v := range classes {
		res.Count("retries_"+k, v)
	}
	res.Sig = vlib.Sig("requeuer", topicMode, delay, ownRouter, len(destTopics), shapeSig(msgs))
	if conc {
		co.count(&res)
		res.NonTrivial = st.relayed > 0 && co.multiRelease > 0
		res.Sig = vlib.Sig(res.Sig, co.sig())
	}
	res.Hooks = ctl.Counts()
	res.Sample = map[string]any{"component": "Requeuer", "config": map[string]any{"SubscribeTopic": subTopic, "GeneratePublishTopic": topicMode, "dest_topics": destTopics, "Delay": delay.String(), "external_router": ownRouter}, "messages": msgTrace(msgs, 8)}
	if res.Failed() && res.Witness == nil {
		res.Witness = map[string]any{"messages": msgTrace(msgs, 100)}
	}
	return res
}
