package c17

import (
	"sync"
	"sync/atomic"

	"github.com/ThreeDotsLabs/watermill/message"

	"verifharness/vlib"
)

// Several consumed messages in flight at the same time.
//
// GoChannel hands a subscription its next message only after the previous one was settled, most broker clients
// do not (prefetch, several consumers on one subscription), and the Router runs every received message's handler
// in its own goroutine. The classes in this file deliver every source topic's messages through `window`
// deliverers at once (each one still redelivers its own message serially after a Nack) and hold the relay's
// destination calls at a gate, so that the k messages in flight have all been handled before the destination
// looks at the first one: a destination that "reads its arguments late". Whatever a component shares between
// messages in flight (an output slice, a buffer, a scratch message) shows up as a wrong/lost/duplicated relay.
//
// No verdict depends on time: the gate is opened when every active deliverer's message waits at it, or when the
// process is quiescent (quiescence detector) with somebody waiting; "quiescent with nobody waiting and deliveries
// outstanding" is the usual never-settled verdict.

// gateFrame is the frame of a goroutine that waits at the gate; the quiescence detector is told to treat such a
// goroutine as blocked even when a timer-marked frame (requeuer.(*Requeuer).handler) is below it on the stack.
const gateFrame = "c17.(*gate).wait"

type gate struct {
	mu       sync.Mutex
	open     bool
	waiting  []chan struct{}
	arrivals int
	maxWait  int
}

//go:noinline
func (g *gate) wait() {
	g.mu.Lock()
	if g.open {
		g.mu.Unlock()
		return
	}
	ch := make(chan struct{})
	g.waiting = append(g.waiting, ch)
	g.arrivals++
	if len(g.waiting) > g.maxWait {
		g.maxWait = len(g.waiting)
	}
	g.mu.Unlock()
	<-ch
}

func (g *gate) nWaiting() int {
	g.mu.Lock()
	defer g.mu.Unlock()
	return len(g.waiting)
}

// release lets the waiters continue: all of them, or (now and then) a random non-empty subset, so that a released
// call completes and the next message is handled while the others still wait. It returns how many were waiting.
func (g *gate) release(r *vlib.Rand) int {
	g.mu.Lock()
	defer g.mu.Unlock()
	n := len(g.waiting)
	if n == 0 {
		return 0
	}
	k := n
	if n > 1 && r.Chance(0.35) {
		k = r.Range(1, n-1)
	}
	perm := r.Perm(n)
	keep := make([]chan struct{}, 0, n-k)
	sel := map[int]bool{}
	for _, p := range perm[:k] {
		sel[p] = true
	}
	for i, ch := range g.waiting {
		if sel[i] {
			close(ch)
		} else {
			keep = append(keep, ch)
		}
	}
	g.waiting = keep
	return n
}

func (g *gate) openForever() {
	g.mu.Lock()
	defer g.mu.Unlock()
	g.open = true
	for _, ch := range g.waiting {
		close(ch)
	}
	g.waiting = nil
}

// gatedPub is a destination publisher that looks at its arguments late: the call waits at the gate first, and
// only then hands (topic, msgs...) - the caller's slice, not a copy - to the recording publisher.
type gatedPub struct {
	inner message.Publisher
	g     *gate
}

func (p *gatedPub) Publish(topic string, msgs ...*message.Message) error {
	p.g.wait()
	return p.inner.Publish(topic, msgs...)
}

func (p *gatedPub) Close() error { return p.inner.Close() }

func (p *gatedPub) String() string { return "c17gated" }

// concOpts configures the several-in-flight delivery of one case.
type concOpts struct {
	window int
	gate   *gate
	via    string     // where the gate sits: "publisher" (gatedPub) or "hook" (router.handle.before_publish)
	r      *vlib.Rand // the case goroutine's PRNG (release decisions)

	active       atomic.Int32 // deliverers that still have a message to deliver
	nRounds      int
	fullRounds   int // rounds opened because every active deliverer's message was at the gate
	quietRounds  int // rounds opened because the process was quiescent
	maxReleased  int
	sumReleased  int
	multiRelease int // rounds in which >= 2 calls were waiting
}

func newConc(r *vlib.Rand, window int, via string) *concOpts {
	return &concOpts{window: window, gate: &gate{}, via: via, r: r}
}

// hook is the observer for the "hook" placement of the gate (installed with ctl.Observe).
func (co *concOpts) hook(point, a, b string) {
	if co.via == "hook" && point == "router.handle.before_publish" {
		co.gate.wait()
	}
}

// spawnDeliverers starts the deliverers of one subscription: one (serial) or co.window of them taking the
// messages of the list in order.
func spawnDeliverers(wg *sync.WaitGroup, mon *monitor, sp *vlib.Subscription, list []*relayMsg, co *concOpts) {
	if co == nil {
		wg.Add(1)
		go func() {
			defer wg.Done()
			for _, rm := range list {
				mon.deliver(sp, rm)
			}
		}()
		return
	}
	n := co.window
	if n > len(list) {
		n = len(list)
	}
	var next atomic.Int32
	co.active.Add(int32(n))
	for i := 0; i < n; i++ {
		wg.Add(1)
		go func() {
			defer wg.Done()
			defer co.active.Add(-1)
			for {
				k := int(next.Add(1)) - 1
				if k >= len(list) {
					return
				}
				mon.deliver(sp, list[k])
			}
		}()
	}
}

func (co *concOpts) ready() bool {
	n := co.gate.nWaiting()
	return n > 0 && n >= int(co.active.Load())
}

// rounds opens the gate round after round until done is closed (Done). It returns Stuck when the process is
// quiescent with done still open and nobody waiting at the gate (done never will be closed), Inconclusive on watchdog.
func (co *concOpts) rounds(done <-chan struct{}, wd vlib.WaitOpts) (vlib.Outcome, string) {
	for {
		oc, dump := vlib.WaitUntil(func() bool { return vlib.IsClosed(done) || co.ready() }, wd)
		if vlib.IsClosed(done) {
			return vlib.Done, ""
		}
		if oc == vlib.Inconclusive {
			return oc, dump
		}
		if !co.open(oc) {
			return vlib.Stuck, dump
		}
	}
}

// deliveryRounds is rounds for the deliverers of a case: false when the deliveries can never complete
// (verdict set) or the watchdog fired.
func (co *concOpts) deliveryRounds(res *vlib.Result, done <-chan struct{}, wd vlib.WaitOpts, name string) bool {
	switch oc, dump := co.rounds(done, wd); oc {
	case vlib.Done:
		return true
	case vlib.Stuck:
		res.Fail("unsettled", "%s: a delivered message was never acked or nacked (process quiescent, no destination call waiting: it never will)", name)
		res.Witness = dump
	default:
		res.Inconclusive("%s: deliveries did not complete: watchdog", name)
		res.Witness = dump
	}
	return false
}

// open performs one release after WaitUntil returned oc; false when nobody waits at the gate.
func (co *concOpts) open(oc vlib.Outcome) bool {
	n := co.gate.release(co.r)
	if n == 0 {
		return false
	}
	co.nRounds++
	if oc == vlib.Stuck {
		co.quietRounds++
	} else {
		co.fullRounds++
	}
	if n > co.maxReleased {
		co.maxReleased = n
	}
	if n >= 2 {
		co.multiRelease++
	}
	co.sumReleased += n
	return true
}

func (co *concOpts) count(res *vlib.Result) {
	res.Count("gate_rounds", co.nRounds)
	res.Count("gate_rounds_all_deliverers_waiting", co.fullRounds)
	res.Count("gate_rounds_quiescent", co.quietRounds)
	res.Count("gate_rounds_with_2plus_calls_waiting", co.multiRelease)
	res.Count("gate_calls_held", co.gate.arrivals)
}

func (co *concOpts) sig() string {
	return vlib.Sig("conc", co.window, co.via, co.nRounds, co.maxReleased, co.multiRelease)
}
