// Package c17 checks property C17: the relay components (Forwarder + forwarder.Publisher, FanIn,
// FanOut, Requeuer) neither lose nor invent messages.
//
// Every case builds ONE real component between a scripted source subscriber (vlib.Sub, serial
// redelivery after a Nack, like a broker) and a scripted destination publisher (vlib.Pub with a
// random failure script), drives a random message stream through it and judges the boundary
// events (deliveries, Ack/Nack of every delivered copy, destination Publish calls) against the
// statement of the property. FanOut has no external destination (its destination is its private
// GoChannel), so its oracle is "every FanOut subscription of the topic receives the message".
//
// The cases behind the first serialCases(tier) ones keep SEVERAL consumed messages in flight on one source
// subscription and make the destination look at its arguments late (concurrent.go). Destination calls are
// attributed to consumed copies through a context tag (flightKey), so UUIDs may be empty or repeated.
// Then churnCases(tier) cases of a FanOut whose subscriptions come and go while messages are relayed (churn.go).
// The last gosrcCases(tier) cases put Requeuer, FanIn and Forwarder behind a real GoChannel / FanOut source, whose
// redelivery after a refused destination call must bring the message as it was published (gosource.go).
package c17

import (
	"context"
	"errors"
	"fmt"
	"math/big"
	"sort"
	"sync"

	"github.com/ThreeDotsLabs/watermill/message"

	"verifharness/vlib"
)

func init() {
	vlib.Register(&vlib.Prop{
		ID:    "C17",
		Level: "exploration",
		Cases: func(tier string) int {
			return serialCases(tier) + concCases(tier) + churnCases(tier) + gosrcCases(tier)
		},
		Rule: "case idx%4 selects the component (0 Forwarder+forwarder.Publisher, 1 FanIn, 2 Requeuer, 3 FanOut); the rest is drawn from the case PRNG: " +
			"component configuration (forwarder topic default/custom, AckWhenCannotUnwrap, 0-2 pass-through middlewares, own/external router, close timeout; " +
			"1-4 fan-in source topics; requeuer topic function const/from-metadata(with errors)/from-uuid, delay 0..2ms, own/external router; 1-3 fan-out topics x 0-3 subscriptions, " +
			"duplicate AddSubscription, subscriber nack plans), 3-12 messages with random UUID suffix/payload (nil, empty, binary)/metadata (0-5 random UTF-8 pairs, " +
			"existing retries counter absent/\"0\"/\"41\"/garbage/huge/beyond-int64), malformed envelopes (random bytes, empty, truncated, non-object JSON, no/empty/null/ill-typed destination, " +
			"bad base64) and hand-written envelopes, and for every message a destination failure plan (error, context.Canceled, panic on the first 0-3 attempts) with 0-3 redeliveries. " +
			"Messages are unusual but legal now and then: empty UUID (1 in 14), the UUID of an earlier message of the case (1 in 14), nil Metadata map (Publisher input; consumed copies of FanIn), " +
			"hand-written envelopes with \"uuid\":\"\", null payload, {} or null metadata (valid) and with uuid/payload/metadata left out or \"uuid\":null (class handmade-partial: may be refused like a non-envelope or forwarded exactly as written, nothing invented); " +
			"destination calls are attributed to consumed copies through a context tag, so identities need not be unique. " +
			"Stage 1 of every Forwarder case (serial and concurrent; file outbox.go) has a failing outbox: the publisher wrapped by forwarder.Publisher refuses 0 (11 in 20), 1, 2 or 3 calls per Publish batch (error 60%, context.Canceled 25%, panic 15%), after which the caller publishes the same messages again and is accepted, or (3 in 10) has given up (the batch never reaches the forwarder topic; at least one batch per case is accepted); " +
			"serial cases use two forwarder.Publisher instances on one outbox 3 in 10 times. Judged per Publish call, whatever was refused before it: exactly one outbox call on the forwarder topic carrying exactly that call's envelopes, each naming the call's destination topic (publisher-envelope), an error or the panic comes back when the outbox refused (publisher-error-swallowed), nil when it accepted (publisher-envelope); " +
			"the envelopes of the accepted calls are the stream of stage 2, expected to be forwarded with the value the message had before its first Publish. " +
			"Cases 2000.. (quick: 640) / 160000.. (thorough: 25600) are the several-in-flight classes concurrent/<component> (component rotates with the index): every source topic is delivered by 2-4 deliverers at once (a prefetching subscriber; each still redelivers its own message after a Nack) " +
			"and the destination reads its arguments late: its calls (Forwarder, FanIn, Requeuer: a gated publisher in front of the recording one; FanIn 1 in 3 and FanOut: hook router.handle.before_publish) are held until every active deliverer's message waits there or the process is quiescent, " +
			"then all or a random subset is released; the concurrent Forwarder class also publishes stage 1 from 2-3 goroutines through one forwarder.Publisher with a gated outbox (60% when >=2 destination topics). " +
			"The 960 (quick) / 25600 (thorough) cases behind them are class churn/fanout: a FanOut (1-2 topics, one serial stream of 6-14 messages each) whose subscriptions come and go while the streams are relayed: per topic 1-3 subscriptions that stay to the end and 1-3 that end (context cancelled) at a random message, " +
			"in random subscription order but with the OLDEST subscription of the topic a leaving one in >=3 of 4 cases (every later subscription then moves inside the internal Pub/Sub), 0-2 subscriptions begun right before a random later message of the topic (half of them end again later or at once); 1 in 4 subscriptions nacks a fifth of its messages once or twice, 3 in 10 yield 1-3 times before settling. " +
			"When the leaving subscription disappears from the internal Pub/Sub is drawn per leave: cancelled before message k is handed over or right after the source saw it acked (teardown runs freely), or cancelled before message k with its removal held at hook gochannel.unsubscribe.before_remove until the internal Publish of message k has just returned (router.handle.before_settle; the releasing goroutine then yields 0-3 times), " +
			"until the 1st-3rd send of message k to a subscription begins (gochannel.send.locked), or until the source saw message k acked. Judged: the source-side clauses of class fanout, value integrity of everything received, and per (subscription, message of its topic): never more receipts than acked source copies + own Nacks (fanout-invented); " +
			"a subscription that was subscribed before the message was handed to the FanOut and stays to the end receives exactly that many (fanout-missing, decided by quiescence). Non-trivial: a message was relayed, a subscription stayed, and a subscription left while a later one of its topic existed. " +
			"The last 800 (quick) / 32000 (thorough) cases are the classes gosource/requeuer, gosource/fanin, gosource/forwarder (component rotates with the index): the relay consumes from a REAL source - a GoChannel (OutputChannelBuffer 0/1/4/64, Persistent 3 in 10, BlockPublishUntilSubscriberAck 4 in 10), or (4 in 10) a FanOut fed by such a GoChannel, started before or after the relay subscribed to it, with 0-2 further workers on the relay's topics that Nack 5 in 10 of their messages once or twice and (half of the workers) edit their copy before the Nack (new metadata keys, another UUID, another payload slice) - " +
			"and relays to the scripted destination. 3-10 messages as in the component's serial class (Requeuer: every kind of existing counter, decoy keys, topic from const/metadata/uuid, Delay 0 (3 in 8) or 1us/20us/300us/1ms/2ms - with a Delay the handler waits on the consumed message's context too -, own/external router; FanIn: 1-3 source topics; Forwarder: stage 1 through forwarder.Publisher decorating the source, default/custom topic, 0-2 pass-through middlewares plus (35 in 100) one middleware that honours the consumed message's context (returns its error when it has ended), own/external router, 0-2 malformed envelopes when AckWhenCannotUnwrap), published by 1-2 goroutines in Publish calls of 1-3 messages, part of the stream before the relay subscribed when the source is persistent; " +
			"gosource/forwarder: the publisher of the forwarder topic refuses the first 1 (5 in 20) or 2 (2 in 20) forwarder.Publisher calls that end with a given message (nothing of a refused call enters the source), the publishing goroutine repeats the call until it is accepted - every message must still produce exactly its planned destination calls (duplicate-relay, invented, not-relayed); " +
			"every message has a destination plan 'k refused calls (error, context.Canceled, panic), then accepted', k = 0 (3 in 10), 1 (3 in 10), 2, 3, 4, 5-7; in 3 of 10 cases the destination also honours the context of the message it is given (all relays hand on the consumed message's context): a call whose message comes with an ended context is refused with that context's error, outside the plan. " +
			"A pass-through subscriber decorator between the source and the relay counts the copies of every message the relay consumed. The case runs until the process is quiescent; so that an endless Nack/redelivery loop becomes quiescent too, the decorator acknowledges further copies of a message itself once the relay has consumed 20 more copies of it than it made destination calls for it, and the context-honouring destination stops refusing a message after 20 refusals (both are reported as runaway-redelivery). Judged: every destination call of a message (refused or accepted, whatever the number of redeliveries before it) carries the computed topic and exactly the value published to the source, the Requeuer's counter raised by exactly one (dest-topic/-uuid/-payload/-metadata, retries); " +
			"a refused call is followed by another one - the real source gives a Nacked message again (no-redelivery-after-failure), none follows the accepted one (duplicate-relay), a message produces a call at all (not-relayed), nothing else reaches the destination (invented, non-envelope-forwarded); with a blocking GoChannel source no destination call of a message happens after the source's Publish for it returned (ack-before-accept), and that Publish returns (unsettled); every copy the relay consumed before anybody stopped it produced a destination call (consumed-not-relayed), and a finite plan ends with the accepted call whatever the relay's handlers and the destination read from the message's context (runaway-redelivery); " +
			"every further FanOut worker receives each message of its topic intact at every receipt, 1 + own Nacks times (dest-*, fanout-invented, fanout-missing). Non-trivial: a message came again after a refused destination call and was relayed. " +
			"Router hook points get random yields. A case is non-trivial when at least one message was relayed and judged AND the case contained a fault or edge " +
			"(injected destination failure, malformed envelope, existing retries counter, >=2 source topics, >=2 fan-out subscriptions, or an unusual message); a several-in-flight case is non-trivial when a message was relayed and at least one gate round held >=2 destination calls at once; distinct = distinct (component, configuration, message kinds, failure plans, observed settle sequence).",
		Assumptions: []string{
			"strings that travel through the Forwarder's JSON envelope (UUID, metadata, destination topic) are valid UTF-8: encoding/json replaces invalid bytes with U+FFFD, which the statement does not address; FanIn, FanOut and Requeuer are also fed non-UTF-8 strings",
			"a prior retries counter of exactly MaxInt64 is not generated (previous+1 is not representable in the int the Requeuer documents)",
			"a counter is 'existing' when it is a decimal integer that fits an int (strconv.Atoi syntax); anything else counts as 0, as for an absent key",
			"FanOut's destination is its internal GoChannel, which cannot be scripted to fail: only loss/invention/ack-before-accept are judged for it",
			"'never settled / never delivered' is decided by the quiescence detector, not by a time-out",
			"a hand-written envelope that leaves out uuid, payload or metadata (or has \"uuid\":null) may be treated either as a non-envelope or as an envelope whose absent members are empty: the statement does not define envelope validity beyond what forwarder.Publisher writes",
			"consumed messages with a nil Metadata map are generated for FanIn only: the Requeuer's counter update needs a map, and every Subscriber that builds messages with message.NewMessage/Copy delivers one",
			"FanOut cases identify a message at the subscriptions by the metadata key c17-id (UUIDs may be empty or repeated)",
			"churn/fanout: what a subscription receives of messages relayed before it was subscribed, and what a leaving subscription misses, is not judged (counter churn_received_from_before_join records the former); only the staying subscriptions are owed every message",
			"churn/fanout: a removal held at the hook is in any case let go when the source has seen the chosen message settled, so no hold can outlast the stream",
			"gosource/*: messages the relay would Nack for ever by design (no destination topic computable; a non-envelope with AckWhenCannotUnwrap=false) are not generated, a GoChannel redelivers them without end; identity travels in metadata key c17-id (for the Forwarder: of the enveloped message)",
			"gosource/*: 'the relay Nacked the consumed copy' is observed as the redelivery GoChannel documents for a Nack, 'acknowledged' as the return of a Publish with BlockPublishUntilSubscriberAck (direct GoChannel source, messages published after the relay subscribed); the source Pub/Sub is part of the judged chain: a message must arrive as the statement says relative to what was published to the source",
			"gosource/*: a message's context does not end while a consumed copy of it is being handled and nobody closes the subscription (message.Subscriber: the context is cancelled when the message is settled or the subscriber closes); the context-honouring Requeuer (Delay > 0), middleware and destination therefore never refuse on an unchanged chain; a destination call refused because of an ended context is not counted against the message's plan and is by itself no violation (the destination failed, the copy was Nacked) - only the loop that never ends is",
			"stage 1 with a failing outbox: outbox calls are paired with Publish calls through the destination topic named in the call's last envelope (one publishing goroutine per destination topic in the concurrent class), read with the harness's own decoder of the envelope format forwarder.Publisher writes; a caller retries a refused Publish with the same message values",
			"forwarder.Publisher.Publish returning an error (or passing the panic on) when the wrapped publisher refused is the Publisher's form of 'Nack it when the destination fails'; returning nil is its form of the acknowledgement",
			"several-in-flight FanOut cases judge ack-before-accept by counting (acked source copies of a topic < internal Publish calls entered for it), the hook only names the topic",
		},
		Run: run,
	})
}

// serialCases is the number of cases of the one-message-in-flight classes; the cases behind them are the
// several-in-flight classes (concurrent.go).
func serialCases(tier string) int { return vlib.TierN(tier, 2000, 160000) }

// concCases is the number of several-in-flight cases (concurrent/*), churnCases the number of cases of class
// churn/fanout (churn.go) behind them.
func concCases(tier string) int  { return vlib.TierN(tier, 640, 25600) }
func churnCases(tier string) int { return vlib.TierN(tier, 960, 25600) }

func run(e *vlib.Env) vlib.Result {
	if e.Idx >= serialCases(e.Tier)+concCases(e.Tier)+churnCases(e.Tier) {
		return runGoSource(e)
	}
	if e.Idx >= serialCases(e.Tier)+concCases(e.Tier) {
		return runFanOutChurn(e)
	}
	if j := e.Idx - serialCases(e.Tier); j >= 0 {
		// the driver shards by idx%16: rotate so that every shard gets every component
		switch (j + j/16) % 4 {
		case 0:
			return runFanInOpt(e, true)
		case 1:
			return runForwarderOpt(e, true)
		case 2:
			return runRequeuerOpt(e, true)
		default:
			return runFanOutOpt(e, true)
		}
	}
	switch e.Idx % 4 {
	case 0:
		return runForwarder(e)
	case 1:
		return runFanIn(e)
	case 2:
		if (e.Idx/4)%5 == 4 {
			return runRequeuerShutdown(e)
		}
		return runRequeuer(e)
	default:
		return runFanOut(e)
	}
}

// ---------------------------------------------------------------------------------------------
// model of one relayed message

type failKind int

const (
	fkOK failKind = iota
	fkErr
	fkCanceled
	fkPanic
)

var fkNames = []string{"ok", "err", "canceled", "panic"}

var errInjected = errors.New("c17: injected destination failure")

// relayMsg is one message handed to the source subscription, with what the statement expects.
type relayMsg struct {
	No           int
	Kind         string           // "relay", "envelope", "handmade", "malformed/<k>", "topic-error"
	SrcTopic     string           // source topic it is delivered on
	Orig         *message.Message // the consumed message (every delivery is a fresh Copy)
	Valid        bool             // a destination Publish is expected for every delivered copy
	WantTopic    string           // computed destination topic
	Want         vlib.MsgSnap     // value the destination must receive
	Plan         []failKind       // scripted outcome of the destination call of delivery attempt i (past the plan: ok)
	MaxRedeliver int
	RetriesKey   string // Requeuer: the metadata key holding the counter ("" otherwise)
	NilMeta      bool   // the consumed copies carry a nil Metadata map (FanIn, FanOut)
	// Optional: a hand-written envelope that leaves out members forwarder.Publisher always writes (uuid, payload,
	// metadata; or gives null for the uuid). The statement does not say whether that is "a valid forwarder envelope",
	// so both readings are accepted: not forwarded and settled as AckWhenCannotUnwrap says, or forwarded - then
	// exactly with what the envelope holds (absent members empty), nothing invented.
	Optional bool

	copies  []*copyRec // guarded by monitor.mu while the case runs
	dropped bool       // the subscription ended while this message was being delivered
}

// copyRec is one delivered copy of a relayMsg.
type copyRec struct {
	attempt int
	m       *message.Message
	settle  string // "ack" | "nack" | "" as observed by the deliverer
	calls   []*callRec
}

// callRec is one destination Publish call attributed to a delivered copy.
type callRec struct {
	c       *vlib.PubCall
	sampled string // settle state of the consumed copy sampled inside the call
	late    bool   // the call started after the deliverer had observed the copy's settlement
	planned failKind
}

type flight struct {
	rm   *relayMsg
	rec  *copyRec
	mon  *monitor
	done bool // the deliverer has observed the settlement (or the end of the subscription); guarded by monitor.mu
}

// flightKey is the context key under which every delivered copy carries its *flight. All four components hand
// the consumed message's context on to the relayed message, which lets the monitor attribute a destination
// call to the consumed copy even when UUIDs are empty or repeated and several copies are in flight. It is an
// aid only: a call without the tag is attributed by UUID as before.
type flightKey struct{}

// monitor attributes destination calls to in-flight consumed copies.
type monitor struct {
	mu        sync.Mutex
	serial    bool                 // at most one consumed message is in flight (single subscription)
	byKey     map[string][]*flight // in flight, keyed by the UUID the destination message must carry
	ended     map[string]*flight   // most recent finished delivery per key
	lastEnded *flight
	flights   []*flight // every delivery of the case, in begin order
	nInFlight int
	maxFlight int // largest number of copies in flight at the same time
	byTag     int // destination calls attributed through the context tag
	strays    []*vlib.PubCall
	decision  map[int]failKind // destination call number -> scripted outcome
	nFail     int
}

func newMonitor(serial bool) *monitor {
	return &monitor{serial: serial, byKey: map[string][]*flight{}, ended: map[string]*flight{}, decision: map[int]failKind{}}
}

func (rm *relayMsg) key() string {
	if rm.Valid || rm.Kind == "topic-error" {
		return rm.Want.UUID
	}
	return rm.Orig.UUID
}

func (mon *monitor) begin(f *flight) {
	mon.mu.Lock()
	f.mon = mon
	f.rm.copies = append(f.rm.copies, f.rec)
	k := f.rm.key()
	mon.byKey[k] = append(mon.byKey[k], f)
	mon.flights = append(mon.flights, f)
	mon.nInFlight++
	if mon.nInFlight > mon.maxFlight {
		mon.maxFlight = mon.nInFlight
	}
	mon.mu.Unlock()
}

func (mon *monitor) end(f *flight, settle string) {
	mon.mu.Lock()
	f.rec.settle = settle
	f.done = true
	k := f.rm.key()
	l := mon.byKey[k]
	for i, g := range l {
		if g == f {
			l = append(l[:i:i], l[i+1:]...)
			break
		}
	}
	if len(l) == 0 {
		delete(mon.byKey, k)
	} else {
		mon.byKey[k] = l
	}
	mon.ended[k] = f
	mon.lastEnded = f
	mon.nInFlight--
	mon.mu.Unlock()
}

// pick chooses, among the in-flight copies that must produce the same UUID, the one a destination call belongs to:
// one that has no call yet and whose expected value equals the published one, else one without a call, else the first.
func pick(l []*flight, c *vlib.PubCall) *flight {
	var noCall *flight
	for _, f := range l {
		if len(f.rec.calls) > 0 {
			continue
		}
		if noCall == nil {
			noCall = f
		}
		if len(c.Msgs) > 0 && f.rm.Want.SameValue(c.Msgs[0]) {
			return f
		}
	}
	if noCall != nil {
		return noCall
	}
	if len(l) > 0 {
		return l[0]
	}
	return nil
}

// onPublish runs inside every destination Publish call (vlib.Pub.OnPublish).
func (mon *monitor) onPublish(c *vlib.PubCall) {
	mon.mu.Lock()
	defer mon.mu.Unlock()
	var f *flight
	late := false
	if len(c.Msgs) > 0 && c.Msgs[0] != nil {
		if g, ok := c.Msgs[0].Context().Value(flightKey{}).(*flight); ok && g != nil && g.mon == mon {
			f, late = g, g.done
			mon.byTag++
		}
	}
	if f == nil && len(c.Msgs) > 0 && c.Msgs[0] != nil {
		f = pick(mon.byKey[c.Msgs[0].UUID], c)
	}
	if f == nil && len(c.Msgs) > 0 && c.Msgs[0] != nil {
		if g := mon.ended[c.Msgs[0].UUID]; g != nil {
			f, late = g, true
		}
	}
	if f == nil && mon.serial && mon.nInFlight == 1 {
		for _, l := range mon.byKey {
			f = l[0]
		}
	}
	if f == nil && mon.serial && mon.nInFlight == 0 && mon.lastEnded != nil {
		f, late = mon.lastEnded, true
	}
	if f == nil {
		mon.strays = append(mon.strays, c)
		mon.decision[c.No] = fkOK
		return
	}
	cr := &callRec{c: c, late: late, sampled: vlib.Settled(f.rec.m)}
	if f.rec.attempt < len(f.rm.Plan) && len(f.rec.calls) == 0 {
		cr.planned = f.rm.Plan[f.rec.attempt]
	}
	if cr.planned != fkOK {
		mon.nFail++
	}
	f.rec.calls = append(f.rec.calls, cr)
	mon.decision[c.No] = cr.planned
}

// script is the destination publisher's outcome script (vlib.Pub.Script).
func (mon *monitor) script(no int, topic string, msgs []*message.Message) error {
	mon.mu.Lock()
	k := mon.decision[no]
	mon.mu.Unlock()
	switch k {
	case fkErr:
		return errInjected
	case fkCanceled:
		return fmt.Errorf("c17: destination gave up: %w", context.Canceled)
	case fkPanic:
		panic("c17: injected destination panic")
	}
	return nil
}

// deliver emits rm on sp like a broker: a fresh copy per attempt, redelivery after each Nack.
// It blocks on channels only, so a never-settled copy shows up as process quiescence.
func (mon *monitor) deliver(sp *vlib.Subscription, rm *relayMsg) {
	for attempt := 0; ; attempt++ {
		c := rm.Orig.Copy()
		if rm.NilMeta {
			c.Metadata = nil // a consumed message built without the constructor
		}
		rec := &copyRec{attempt: attempt, m: c}
		fl := &flight{rm: rm, rec: rec}
		c.SetContext(context.WithValue(sp.Ctx, flightKey{}, fl))
		mon.begin(fl)
		if !sp.Send(c) {
			mon.end(fl, "")
			mon.mu.Lock()
			rm.dropped = true
			mon.mu.Unlock()
			return
		}
		settle := ""
		select {
		case <-c.Acked():
			settle = "ack"
		case <-c.Nacked():
			settle = "nack"
		case <-sp.Ended():
			// a settlement that raced with the end of the subscription still counts
			settle = vlib.Settled(c)
			if settle == "" {
				mon.end(fl, "")
				mon.mu.Lock()
				rm.dropped = true
				mon.mu.Unlock()
				return
			}
		}
		mon.end(fl, settle)
		if settle == "ack" || attempt >= rm.MaxRedeliver {
			return
		}
	}
}

// ---------------------------------------------------------------------------------------------
// oracle for Forwarder / FanIn / Requeuer

type judgeCfg struct {
	component       string
	ackCannotUnwrap bool
}

type judgeStats struct {
	relayed, failedCalls, redeliveries, malformed, copies, topicErrors int
	optionalForwarded, optionalRefused                                 int
}

func metaDiff(want, got map[string]string) []string {
	keys := map[string]bool{}
	for k := range want {
		keys[k] = true
	}
	for k := range got {
		keys[k] = true
	}
	var d []string
	for k := range keys {
		w, wok := want[k]
		g, gok := got[k]
		if wok != gok || w != g {
			d = append(d, k)
		}
	}
	sort.Strings(d)
	return d
}

func describeMeta(m map[string]string, keys []string) string {
	s := ""
	for _, k := range keys {
		if v, ok := m[k]; ok {
			s += fmt.Sprintf("%q=%q ", k, v)
		} else {
			s += fmt.Sprintf("%q absent ", k)
		}
	}
	return s
}

// judge checks every delivered copy against the statement. First failure wins.
func (mon *monitor) judge(res *vlib.Result, msgs []*relayMsg, cfg judgeCfg) judgeStats {
	mon.mu.Lock()
	defer mon.mu.Unlock()
	var st judgeStats
	for _, c := range mon.strays {
		uuid := "<no message>"
		if len(c.Snaps) > 0 {
			uuid = c.Snaps[0].UUID
		}
		res.Fail("invented", "%s: destination Publish #%d on topic %q carries message uuid=%q while no consumed message that could produce it was in flight", cfg.component, c.No, c.Topic, uuid)
	}
	for _, rm := range msgs {
		if rm.dropped {
			res.Fail("subscription-ended", "%s: the source subscription ended while message #%d (%s) was being delivered", cfg.component, rm.No, rm.Kind)
		}
		if len(rm.copies) > 1 {
			st.redeliveries += len(rm.copies) - 1
		}
		for _, rec := range rm.copies {
			st.copies++
			res.Events += 2 + len(rec.calls)
			where := fmt.Sprintf("%s: message #%d (%s, uuid=%q, src topic %q) delivery %d", cfg.component, rm.No, rm.Kind, rm.Orig.UUID, rm.SrcTopic, rec.attempt)
			if rec.settle == "" {
				continue // dropped, reported above
			}
			if !rm.Valid || (rm.Optional && len(rec.calls) == 0) {
				if rm.Kind == "topic-error" {
					st.topicErrors++
					if len(rec.calls) > 0 {
						res.Fail("dest-topic", "%s: GeneratePublishTopic failed, yet the message was published to %q", where, rec.calls[0].c.Topic)
					} else if rec.settle == "ack" {
						res.Fail("ack-without-accept", "%s: acked although no destination topic could be computed and nothing was published", where)
					}
					continue
				}
				if rm.Optional {
					st.optionalRefused++
				} else {
					st.malformed++
				}
				if len(rec.calls) > 0 {
					res.Fail("non-envelope-forwarded", "%s: payload %q is not a valid envelope but destination Publish #%d on %q happened", where, clip(rm.Orig.Payload), rec.calls[0].c.No, rec.calls[0].c.Topic)
					continue
				}
				want := "nack"
				if cfg.ackCannotUnwrap {
					want = "ack"
				}
				if rec.settle != want {
					res.Fail("cannot-unwrap-settle", "%s: AckWhenCannotUnwrap=%v but the non-envelope (payload %q) was %sed", where, cfg.ackCannotUnwrap, clip(rm.Orig.Payload), rec.settle)
				}
				continue
			}
			if len(rec.calls) == 0 {
				if rec.settle == "ack" {
					res.Fail("ack-without-accept", "%s: acked, but no destination Publish happened for it (message lost)", where)
				} else {
					res.Fail("not-relayed", "%s: consumed and nacked without any destination Publish", where)
				}
				continue
			}
			if len(rec.calls) > 1 {
				res.Fail("duplicate-relay", "%s: %d destination Publish calls for one consumed copy", where, len(rec.calls))
			}
			if rm.Optional {
				st.optionalForwarded++
			}
			cr := rec.calls[0]
			c := cr.c
			if cr.late {
				res.Fail("ack-before-accept", "%s: destination Publish #%d started after the consumed copy was already %sed", where, c.No, rec.settle)
				continue
			}
			if cr.sampled != "" {
				res.Fail("ack-before-accept", "%s: consumed copy was already %sed when sampled inside destination Publish #%d", where, cr.sampled, c.No)
			}
			if len(c.Snaps) != 1 {
				res.Fail("dest-value", "%s: destination Publish #%d carries %d messages, want exactly the consumed one", where, c.No, len(c.Snaps))
				continue
			}
			got := c.Snaps[0]
			if c.Topic != rm.WantTopic {
				res.Fail("dest-topic", "%s: published to %q, computed destination is %q", where, c.Topic, rm.WantTopic)
			}
			if got.UUID != rm.Want.UUID {
				res.Fail("dest-uuid", "%s: destination got uuid %q, want %q", where, got.UUID, rm.Want.UUID)
			}
			if string(got.Payload) != string(rm.Want.Payload) {
				res.Fail("dest-payload", "%s: destination got payload %q, want %q", where, clip(got.Payload), clip(rm.Want.Payload))
			}
			if d := metaDiff(rm.Want.Metadata, got.Metadata); len(d) > 0 {
				clause := "dest-metadata"
				if rm.RetriesKey != "" && len(d) == 1 && d[0] == rm.RetriesKey {
					clause = "retries"
				}
				res.Fail(clause, "%s: destination metadata differs at %v: got %s want %s (consumed: %s)", where, d, describeMeta(got.Metadata, d), describeMeta(rm.Want.Metadata, d), describeMeta(rm.Orig.Metadata, d))
			}
			failed := c.Err != nil || c.Panic != nil
			if failed {
				st.failedCalls++
				if rec.settle != "nack" {
					res.Fail("ack-after-failure", "%s: destination Publish #%d failed (%v%v) but the consumed copy was %sed", where, c.No, c.Err, panicStr(c.Panic), rec.settle)
				}
			} else {
				st.relayed++
				if rec.settle != "ack" {
					res.Fail("nack-after-success", "%s: destination Publish #%d succeeded but the consumed copy was %sed", where, c.No, rec.settle)
				}
			}
		}
	}
	return st
}

func panicStr(p any) string {
	if p == nil {
		return ""
	}
	return fmt.Sprintf(" panic: %v", p)
}

func clip(b []byte) string {
	if len(b) > 96 {
		return string(b[:96]) + "..."
	}
	return string(b)
}

// ---------------------------------------------------------------------------------------------
// generators

// str returns a random string: valid UTF-8, or (if raw is allowed) arbitrary bytes now and then.
func str(r *vlib.Rand, maxRunes int, raw bool) string {
	if raw && r.Chance(0.2) {
		return string(r.Bytes(r.Intn(maxRunes + 1)))
	}
	return r.UTF8(maxRunes)
}

// genMeta draws 0..5 random pairs.
func genMeta(r *vlib.Rand, raw bool) map[string]string {
	m := map[string]string{}
	n := 0
	if !r.Chance(0.2) {
		n = r.Range(1, 5)
	}
	for i := 0; i < n; i++ {
		m[str(r, 8, raw)] = str(r, 12, raw)
	}
	return m
}

func genMsg(e *vlib.Env, no int, raw bool) *message.Message {
	uuid := fmt.Sprintf("%s-%d-%s", e.ID(), no, str(e.R, 6, raw))
	m := message.NewMessage(uuid, e.R.Payload(64))
	for k, v := range genMeta(e.R, raw) {
		m.Metadata.Set(k, v)
	}
	return m
}

// odd makes the identities of a case's messages unusual but legal now and then: message.Message documents
// "UUID can be empty", and nothing makes UUIDs unique. The monitor does not rely on UUIDs (context tag).
type odd struct {
	prev                     []string
	emptyUUID, dupUUID, nilM int
}

// uuid rewrites m.UUID: empty (1 in 14), or the UUID of an earlier message of the case (1 in 14).
func (o *odd) uuid(r *vlib.Rand, m *message.Message) {
	switch x := r.Intn(14); {
	case x == 0:
		m.UUID = ""
		o.emptyUUID++
	case x == 1 && len(o.prev) > 0:
		m.UUID = o.prev[r.Intn(len(o.prev))]
		o.dupUUID++
	}
	o.prev = append(o.prev, m.UUID)
}

func (o *odd) count(res *vlib.Result) {
	res.Count("messages_with_empty_uuid", o.emptyUUID)
	res.Count("messages_with_repeated_uuid", o.dupUUID)
	res.Count("messages_with_nil_metadata", o.nilM)
}

func (o *odd) any() bool { return o.emptyUUID+o.dupUUID+o.nilM > 0 }

// genTopics returns n distinct non-empty topic names with awkward characters.
func genTopics(e *vlib.Env, tag string, n int, raw bool) []string {
	out := make([]string, n)
	for i := range out {
		out[i] = fmt.Sprintf("%s/%s%d/%s", e.ID(), tag, i, str(e.R, 5, raw))
	}
	return out
}

// genPlan draws the destination failure plan and the redelivery budget of one message.
func genPlan(r *vlib.Rand) (plan []failKind, maxRedeliver int) {
	n := 0
	switch x := r.Intn(10); {
	case x < 5:
		n = 0
	case x < 8:
		n = 1
	case x < 9:
		n = 2
	default:
		n = 3
	}
	for i := 0; i < n; i++ {
		switch x := r.Intn(10); {
		case x < 6:
			plan = append(plan, fkErr)
		case x < 9:
			plan = append(plan, fkCanceled)
		default:
			plan = append(plan, fkPanic)
		}
	}
	return plan, r.Range(0, 3)
}

// retriesValue draws an existing retries counter. ok=false means "leave the key absent".
func retriesValue(r *vlib.Rand) (v string, present bool, class string) {
	switch r.Intn(12) {
	case 0, 1, 2:
		return "", false, "absent"
	case 3:
		return "0", true, "zero"
	case 4:
		return "41", true, "small"
	case 5:
		return fmt.Sprint(r.Intn(100000)), true, "small"
	case 6:
		g := []string{"", "abc", "1.5", " 7", "7 ", "0x10", "1e3", "1_000", "٤١", "+", "-", "--1", "4 1", "NaN"}
		return g[r.Intn(len(g))], true, "garbage"
	case 7:
		return r.UTF8(10), true, "garbage"
	case 8:
		h := []string{"2147483647", "2147483648", "4294967295", "4611686018427387904", "9223372036854775806", "9007199254740993"}
		return h[r.Intn(len(h))], true, "huge"
	case 9:
		b := []string{"9223372036854775808", "18446744073709551616", "99999999999999999999999999", "-9223372036854775809"}
		return b[r.Intn(len(b))], true, "beyond-int64"
	case 10:
		s := []string{"007", "+5", "-3", "-1", "00", "-0"}
		return s[r.Intn(len(s))], true, "signed-or-padded"
	default:
		return fmt.Sprint(uint64(r.Uint64() >> 2)), true, "huge"
	}
}

var (
	maxInt64 = big.NewInt(0).SetUint64(1<<63 - 1)
	minInt64 = big.NewInt(0).Neg(big.NewInt(0).SetUint64(1 << 63))
)

// nextRetries is the reference model of the counter: previous+1 in exact arithmetic, where previous
// is the decimal integer in s if s has the syntax [+-]?[0-9]+ and fits an int64, else 0.
func nextRetries(s string, present bool) string {
	prev := big.NewInt(0)
	if present && isDecimal(s) {
		if v, ok := big.NewInt(0).SetString(s, 10); ok && v.Cmp(maxInt64) <= 0 && v.Cmp(minInt64) >= 0 {
			prev = v
		}
	}
	return big.NewInt(0).Add(prev, big.NewInt(1)).String()
}

func isDecimal(s string) bool {
	if s == "" {
		return false
	}
	i := 0
	if s[0] == '+' || s[0] == '-' {
		i = 1
	}
	if i == len(s) {
		return false
	}
	for ; i < len(s); i++ {
		if s[i] < '0' || s[i] > '9' {
			return false
		}
	}
	return true
}

// ---------------------------------------------------------------------------------------------
// shared case plumbing

// started runs f in a goroutine and returns a channel closed when it returned.
func started(f func()) chan struct{} {
	ch := make(chan struct{})
	go func() { defer close(ch); f() }()
	return ch
}

// waitOrFail waits for ch; on Stuck/Inconclusive it records the outcome and returns false.
func waitOrFail(res *vlib.Result, ch <-chan struct{}, wd vlib.WaitOpts, clause, what string) bool {
	oc, dump := vlib.WaitClosed(ch, wd)
	switch oc {
	case vlib.Done:
		return true
	case vlib.Stuck:
		res.Fail(clause, "%s (process quiescent: it never will)", what)
		res.Witness = dump
	default:
		res.Inconclusive("%s: watchdog", what)
		res.Witness = dump
	}
	return false
}

// msgTrace is the compact per-message trace put into samples and witnesses.
func msgTrace(msgs []*relayMsg, max int) []map[string]any {
	var out []map[string]any
	for _, rm := range msgs {
		if len(out) >= max {
			break
		}
		var plan []string
		for _, k := range rm.Plan {
			plan = append(plan, fkNames[k])
		}
		var att []string
		for _, rec := range rm.copies {
			s := rec.settle
			if s == "" {
				s = "unsettled"
			}
			for _, cr := range rec.calls {
				o := "ok"
				if cr.c.Err != nil {
					o = "err"
				}
				if cr.c.Panic != nil {
					o = "panic"
				}
				s += fmt.Sprintf(" pub#%d(%q)=%s", cr.c.No, cr.c.Topic, o)
			}
			att = append(att, s)
		}
		out = append(out, map[string]any{"no": rm.No, "kind": rm.Kind, "uuid": rm.Orig.UUID, "src_topic": rm.SrcTopic, "want_topic": rm.WantTopic,
			"consumed_metadata": rm.Orig.Metadata, "consumed_payload": clip(rm.Orig.Payload), "plan": plan, "max_redeliver": rm.MaxRedeliver, "deliveries": att})
	}
	return out
}

func shapeSig(msgs []*relayMsg) string {
	s := ""
	for _, rm := range msgs {
		s += rm.Kind + ":"
		for _, k := range rm.Plan {
			s += fkNames[k][:1]
		}
		s += fmt.Sprintf("/%d=", rm.MaxRedeliver)
		for _, rec := range rm.copies {
			if rec.settle == "" {
				s += "?"
			} else {
				s += rec.settle[:1]
			}
		}
		s += ";"
	}
	return s
}

func fill(res *vlib.Result, st judgeStats, mon *monitor, msgs []*relayMsg, edge bool) {
	res.Count("messages", len(msgs))
	res.Count("deliveries", st.copies)
	res.Count("redeliveries", st.redeliveries)
	res.Count("relayed_ok", st.relayed)
	res.Count("dest_failures_injected", st.failedCalls)
	res.Count("malformed_deliveries", st.malformed)
	res.Count("topic_errors", st.topicErrors)
	res.Count("partial_envelopes_forwarded", st.optionalForwarded)
	res.Count("partial_envelopes_refused", st.optionalRefused)
	mon.mu.Lock()
	res.Count("calls_attributed_by_context_tag", mon.byTag)
	if mon.maxFlight > 1 {
		res.Count("cases_with_several_copies_in_flight", 1)
		res.Count("peak_copies_in_flight_sum", mon.maxFlight)
	}
	mon.mu.Unlock()
	res.NonTrivial = st.relayed > 0 && (edge || st.failedCalls > 0 || st.malformed > 0)
}

// component is the uniform view of a relay component for drive.
type component struct {
	name    string
	run     func() error  // blocking Run
	running func() bool   // true once the component consumes (Running() closed / subscribed)
	stop    func()        // Close(), or cancelling Run's context
	wd      vlib.WaitOpts // quiescence-detector options for this component (zero value: vlib.WD)
}

// drive starts the component, delivers every topic's messages serially on that topic's
// subscription (topics concurrently), stops the component and waits for Run to return.
// It returns false when the case cannot be judged completely (verdict already set).
//
// With co != nil every topic's list is delivered by co.window deliverers at once (a prefetching subscriber: the
// next message is handed over before the previous one was settled) and the destination is gated: see gate.
func drive(res *vlib.Result, comp component, src *vlib.Sub, mon *monitor, topics []string, byTopic map[string][]*relayMsg, co *concOpts) {
	wd := comp.wd
	if wd.Watchdog == 0 {
		wd = vlib.WD
	}
	if co != nil {
		wd.IgnoreFrames = append(append([]string(nil), wd.IgnoreFrames...), gateFrame)
		defer co.gate.openForever()
	}
	var runErr error
	runDone := started(func() { runErr = comp.run() })
	shutdown := func() bool {
		stopDone := started(comp.stop)
		if oc, dump := vlib.WaitClosed(stopDone, wd); oc != vlib.Done {
			res.Inconclusive("%s: stopping the component did not return (%v)", comp.name, oc)
			if res.Witness == nil {
				res.Witness = dump
			}
			return false
		}
		if oc, dump := vlib.WaitClosed(runDone, wd); oc != vlib.Done {
			res.Inconclusive("%s: Run did not return after the stop (%v)", comp.name, oc)
			if res.Witness == nil {
				res.Witness = dump
			}
			return false
		}
		return true
	}
	if oc, dump := vlib.WaitUntil(func() bool { return comp.running() || vlib.IsClosed(runDone) }, wd); oc != vlib.Done || vlib.IsClosed(runDone) {
		if vlib.IsClosed(runDone) {
			res.Inconclusive("%s: Run returned before Running(): %v", comp.name, runErr)
		} else {
			res.Inconclusive("%s did not start: %v", comp.name, oc)
		}
		res.Witness = dump
		return
	}
	subs := map[string]*vlib.Subscription{}
	for _, t := range topics {
		sp := src.SubFor(t)
		if sp == nil {
			var have []string
			for _, s := range src.Subs() {
				have = append(have, s.Topic)
			}
			res.Fail("no-subscription", "%s did not subscribe to its source topic %q; subscriptions: %q", comp.name, t, have)
			shutdown()
			return
		}
		subs[t] = sp
	}
	var wg sync.WaitGroup
	for _, t := range topics {
		spawnDeliverers(&wg, mon, subs[t], byTopic[t], co)
	}
	delivDone := started(wg.Wait)
	var settled bool
	if co == nil {
		settled = waitOrFail(res, delivDone, wd, "unsettled", comp.name+": a delivered message was never acked or nacked")
	} else {
		settled = co.deliveryRounds(res, delivDone, wd, comp.name)
		co.gate.openForever()
	}
	ok := shutdown()
	if !settled && ok {
		vlib.WaitClosed(delivDone, wd) // the ended subscription releases the blocked deliverer
	}
	// the caller judges only now: after the stop every handler goroutine has finished, no destination call can follow
}
